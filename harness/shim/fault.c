/* LD_PRELOAD fault-injection shim for C12.
 *   VERIF_FAULT_PREFIX  only calls on paths below this prefix are counted
 *   VERIF_FAULT_K       1-based index of the counted call that fails (0 / unset: never)
 *   VERIF_FAULT_ERRNO   errno value to fail with
 *   VERIF_FAULT_LOG     file receiving one line per counted call: "<n> <name> <path> [FAULT]"
 * Counted: open/openat (any mode), read/write on descriptors opened below the prefix, mkdir,
 * unlink/unlinkat, rmdir, rename, chmod/fchmod/fchmodat, symlink, link. */
#define _GNU_SOURCE
#include <dlfcn.h>
#include <errno.h>
#include <fcntl.h>
#include <stdarg.h>
#include <stdio.h>
#include <stdlib.h>
#include <string.h>
#include <sys/stat.h>
#include <sys/syscall.h>
#include <sys/types.h>
#include <unistd.h>

#define MAXFD 4096
static char tracked[MAXFD];
static char fdpath[MAXFD][256];
static const char *prefix;
static size_t prefix_len;
static long fault_k = -1;
static int fault_errno = EIO;
static long counter;
static int logfd = -1;
static int inited;

static void init(void) {
    if (inited) return;
    inited = 1;
    prefix = getenv("VERIF_FAULT_PREFIX");
    prefix_len = prefix ? strlen(prefix) : 0;
    const char *k = getenv("VERIF_FAULT_K");
    fault_k = k ? atol(k) : 0;
    const char *e = getenv("VERIF_FAULT_ERRNO");
    if (e) fault_errno = atoi(e);
    const char *l = getenv("VERIF_FAULT_LOG");
    if (l) logfd = (int)syscall(SYS_openat, AT_FDCWD, l, O_WRONLY | O_CREAT | O_APPEND, 0644);
}

static int under(const char *p) {
    init();
    return prefix && p && strncmp(p, prefix, prefix_len) == 0 && (p[prefix_len] == '/' || p[prefix_len] == 0);
}

static const char *at_path(int dirfd, const char *path, char *buf, size_t n) {
    if (!path) return NULL;
    if (path[0] == '/' || dirfd == AT_FDCWD) return path;
    if (dirfd >= 0 && dirfd < MAXFD && tracked[dirfd]) {
        snprintf(buf, n, "%s/%s", fdpath[dirfd], path);
        return buf;
    }
    return path;
}

/* returns 1 when this call must fail */
static int hit(const char *name, const char *path) {
    counter++;
    int f = (fault_k > 0 && counter == fault_k);
    if (logfd >= 0) {
        char line[512];
        int n = snprintf(line, sizeof line, "%ld %s %s%s\n", counter, name, path ? path + (prefix_len <= strlen(path) ? prefix_len : 0) : "?", f ? " FAULT" : "");
        if (n > 0) syscall(SYS_write, logfd, line, (size_t)n);
    }
    if (f) errno = fault_errno;
    return f;
}

static void track(int fd, const char *path) {
    if (fd >= 0 && fd < MAXFD) {
        tracked[fd] = 1;
        strncpy(fdpath[fd], path, sizeof fdpath[fd] - 1);
        fdpath[fd][sizeof fdpath[fd] - 1] = 0;
    }
}

#define REAL(name) static __typeof__(name) *real; if (!real) real = dlsym(RTLD_NEXT, #name)

static int do_open(int dirfd, const char *path, int flags, mode_t mode, int is64) {
    static int (*real_openat)(int, const char *, int, ...);
    if (!real_openat) real_openat = dlsym(RTLD_NEXT, is64 ? "openat64" : "openat");
    char buf[512];
    const char *full = at_path(dirfd, path, buf, sizeof buf);
    int u = under(full);
    if (u && hit("open", full)) return -1;
    int fd = real_openat(dirfd, path, flags, mode);
    if (u && fd >= 0) track(fd, full);
    return fd;
}

int open(const char *path, int flags, ...) { va_list a; va_start(a, flags); mode_t m = va_arg(a, mode_t); va_end(a); return do_open(AT_FDCWD, path, flags, m, 0); }
int open64(const char *path, int flags, ...) { va_list a; va_start(a, flags); mode_t m = va_arg(a, mode_t); va_end(a); return do_open(AT_FDCWD, path, flags, m, 1); }
int openat(int d, const char *path, int flags, ...) { va_list a; va_start(a, flags); mode_t m = va_arg(a, mode_t); va_end(a); return do_open(d, path, flags, m, 0); }
int openat64(int d, const char *path, int flags, ...) { va_list a; va_start(a, flags); mode_t m = va_arg(a, mode_t); va_end(a); return do_open(d, path, flags, m, 1); }

int close(int fd) {
    REAL(close);
    if (fd >= 0 && fd < MAXFD) tracked[fd] = 0;
    return real(fd);
}

ssize_t write(int fd, const void *b, size_t n) {
    REAL(write);
    init();
    if (fd >= 0 && fd < MAXFD && tracked[fd] && hit("write", fdpath[fd])) return -1;
    return real(fd, b, n);
}

ssize_t read(int fd, void *b, size_t n) {
    REAL(read);
    init();
    if (fd >= 0 && fd < MAXFD && tracked[fd] && hit("read", fdpath[fd])) return -1;
    return real(fd, b, n);
}

int mkdir(const char *p, mode_t m) { REAL(mkdir); if (under(p) && hit("mkdir", p)) return -1; return real(p, m); }
int mkdirat(int d, const char *p, mode_t m) { REAL(mkdirat); char b[512]; const char *f = at_path(d, p, b, sizeof b); if (under(f) && hit("mkdir", f)) return -1; return real(d, p, m); }
int unlink(const char *p) { REAL(unlink); if (under(p) && hit("unlink", p)) return -1; return real(p); }
int unlinkat(int d, const char *p, int fl) { REAL(unlinkat); char b[512]; const char *f = at_path(d, p, b, sizeof b); if (under(f) && hit(fl & AT_REMOVEDIR ? "rmdir" : "unlink", f)) return -1; return real(d, p, fl); }
int rmdir(const char *p) { REAL(rmdir); if (under(p) && hit("rmdir", p)) return -1; return real(p); }
int rename(const char *a, const char *b) { REAL(rename); if ((under(a) || under(b)) && hit("rename", under(a) ? a : b)) return -1; return real(a, b); }
int chmod(const char *p, mode_t m) { REAL(chmod); if (under(p) && hit("chmod", p)) return -1; return real(p, m); }
int fchmod(int fd, mode_t m) { REAL(fchmod); init(); if (fd >= 0 && fd < MAXFD && tracked[fd] && hit("chmod", fdpath[fd])) return -1; return real(fd, m); }
int fchmodat(int d, const char *p, mode_t m, int fl) { REAL(fchmodat); char b[512]; const char *f = at_path(d, p, b, sizeof b); if (under(f) && hit("chmod", f)) return -1; return real(d, p, m, fl); }
int symlink(const char *t, const char *p) { REAL(symlink); if (under(p) && hit("symlink", p)) return -1; return real(t, p); }
int link(const char *a, const char *b) { REAL(link); if (under(b) && hit("link", b)) return -1; return real(a, b); }
