//! Building and snapshotting real directory trees for the file-system based streams.
use crate::util::*;
use serde_json::{Value, json};
use std::ffi::OsString;
use std::fs;
use std::os::unix::ffi::{OsStrExt, OsStringExt};
use std::os::unix::fs::PermissionsExt;
use std::path::{Path, PathBuf};

pub fn path_of(root: &Path, comps: &Value) -> PathBuf {
    let mut p = root.to_path_buf();
    for c in comps.as_array().expect("path comps") {
        p.push(OsString::from_vec(bytes_of(c)));
    }
    p
}

/// symlink target: model targets starting with '/' are relative to the sandbox root
pub fn real_target(root: &Path, t: &[u8]) -> OsString {
    if t.first() == Some(&b'/') {
        let mut v = root.as_os_str().as_bytes().to_vec();
        v.extend_from_slice(t);
        OsString::from_vec(v)
    } else {
        OsString::from_vec(t.to_vec())
    }
}

pub fn model_target(root: &Path, t: &[u8]) -> Vec<u8> {
    let r = root.as_os_str().as_bytes();
    if t.starts_with(r) && (t.len() == r.len() || t[r.len()] == b'/') {
        let rest = &t[r.len()..];
        if rest.is_empty() { b"/".to_vec() } else { rest.to_vec() }
    } else {
        t.to_vec()
    }
}

/// nodes: [{"p":[name..], "k":"f"|"d"|"l", "m":mode, "c":bytes, "t":bytes}] ; parents before children
pub fn build_tree(root: &Path, nodes: &Value) {
    let list = nodes.as_array().expect("nodes");
    for n in list {
        let p = path_of(root, &n["p"]);
        match n["k"].as_str().unwrap() {
            "d" => {
                fs::create_dir_all(&p).unwrap();
            }
            "f" => {
                fs::write(&p, bytes_of(&n["c"])).unwrap();
            }
            "l" => {
                std::os::unix::fs::symlink(real_target(root, &bytes_of(&n["t"])), &p).unwrap();
            }
            // a named pipe: neither regular file, directory nor symlink (a socket or device node behaves alike for unlink)
            "p" => {
                let c = std::ffi::CString::new(p.as_os_str().as_bytes()).unwrap();
                assert_eq!(unsafe { libc::mkfifo(c.as_ptr(), 0o644) }, 0, "mkfifo");
            }
            k => panic!("kind {k}"),
        }
    }
    // modes, children first so that restrictive parents do not block
    for n in list.iter().rev() {
        if n["k"] != "l" {
            if let Some(m) = n["m"].as_u64() {
                let p = path_of(root, &n["p"]);
                fs::set_permissions(&p, fs::Permissions::from_mode(u32::try_from(m).unwrap())).unwrap();
            }
        }
    }
}

fn snap_rec(root: &Path, dir: &Path, comps: &mut Vec<Vec<u8>>, out: &mut Vec<Value>) {
    // make the directory listable for the snapshot, restore afterwards
    let meta = fs::symlink_metadata(dir).unwrap();
    let mode = meta.permissions().mode() & 0o7777;
    let need = mode & 0o500 != 0o500;
    if need {
        let _ = fs::set_permissions(dir, fs::Permissions::from_mode(mode | 0o500));
    }
    let mut names: Vec<OsString> = fs::read_dir(dir).map(|rd| rd.filter_map(|e| e.ok().map(|e| e.file_name())).collect()).unwrap_or_default();
    names.sort();
    for nme in names {
        let p = dir.join(&nme);
        comps.push(nme.as_bytes().to_vec());
        let m = fs::symlink_metadata(&p).unwrap();
        let pj: Vec<Value> = comps.iter().map(|c| json_bytes(c)).collect();
        if m.file_type().is_symlink() {
            let t = fs::read_link(&p).unwrap();
            out.push(json!({"p": pj, "k": "l", "t": json_bytes(&model_target(root, t.as_os_str().as_bytes()))}));
        } else if m.is_dir() {
            out.push(json!({"p": pj, "k": "d", "m": m.permissions().mode() & 0o7777}));
            snap_rec(root, &p, comps, out);
        } else {
            let fmode = m.permissions().mode() & 0o7777;
            let readable = fmode & 0o400 != 0;
            if !readable {
                let _ = fs::set_permissions(&p, fs::Permissions::from_mode(fmode | 0o400));
            }
            // special files (FIFOs ...) are snapshotted as empty files: never opened (that would block)
            let c = if m.file_type().is_file() { fs::read(&p).unwrap_or_default() } else { vec![] };
            if !readable {
                let _ = fs::set_permissions(&p, fs::Permissions::from_mode(fmode));
            }
            out.push(json!({"p": pj, "k": "f", "m": fmode, "c": json_bytes(&c)}));
        }
        comps.pop();
    }
    if need {
        let _ = fs::set_permissions(dir, fs::Permissions::from_mode(mode));
    }
}

/// full snapshot of root (its own entry has the empty path) and everything below, sorted by path
pub fn snapshot(root: &Path) -> Value {
    let mut out = vec![];
    let rm = fs::symlink_metadata(root).map(|m| m.permissions().mode() & 0o7777).unwrap_or(0);
    out.push(json!({"p": [], "k": "d", "m": rm}));
    snap_rec(root, root, &mut vec![], &mut out);
    Value::Array(out)
}

/// remove a sandbox whatever its permissions
pub fn destroy(root: &Path) {
    fn rec(p: &Path) {
        if let Ok(m) = fs::symlink_metadata(p) {
            if m.is_dir() {
                let _ = fs::set_permissions(p, fs::Permissions::from_mode(0o700));
                if let Ok(rd) = fs::read_dir(p) {
                    for e in rd.flatten() {
                        rec(&e.path());
                    }
                }
                let _ = fs::remove_dir(p);
            } else {
                let _ = fs::remove_file(p);
            }
        }
    }
    rec(root);
}

pub fn errno_name(e: &std::io::Error) -> &'static str {
    match e.raw_os_error() {
        Some(2) => "ENOENT",
        Some(13) => "EACCES",
        Some(17) => "EEXIST",
        Some(20) => "ENOTDIR",
        Some(21) => "EISDIR",
        Some(22) => "EINVAL",
        Some(39) => "ENOTEMPTY",
        Some(40) => "ELOOP",
        Some(1) => "EPERM",
        Some(16) => "EBUSY",
        _ => "EOTHER",
    }
}

/// fresh sandbox directory under $VERIF_SANDBOX (must be writable by the current uid)
pub fn sandbox(case_id: &Value) -> PathBuf {
    let base = std::env::var("VERIF_SANDBOX").unwrap_or_else(|_| "/verif/build/sandbox".into());
    let p = PathBuf::from(base).join(format!("sb_{}_{}", std::process::id(), case_id));
    destroy(&p);
    fs::create_dir_all(&p).unwrap();
    fs::set_permissions(&p, fs::Permissions::from_mode(0o755)).unwrap();
    p
}
