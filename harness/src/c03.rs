//! C03 / C10: LayerEnv::write_to_layer_dir / read_from_layer_dir on real directories.
use crate::c04::{env_of, dump_env, layer_env_of, scope_of};
use crate::fsutil::*;
use crate::util::*;
use libcnb::layer_env::LayerEnv;
use serde_json::{Value, json};
use std::os::unix::ffi::OsStrExt;

fn replace_bytes(b: &[u8], from: &[u8], to: &[u8]) -> Vec<u8> {
    let mut out = Vec::with_capacity(b.len());
    let mut i = 0;
    while i < b.len() {
        if !from.is_empty() && b[i..].starts_with(from) {
            out.extend_from_slice(to);
            i += from.len();
        } else {
            out.push(b[i]);
            i += 1;
        }
    }
    out
}

/// entries to write may name the sandbox as `$ROOT` (an explicit entry whose value is the layer's own bin directory)
fn with_root(root: &std::path::Path, ins: &Value) -> Value {
    let r = root.as_os_str().as_bytes();
    json!(ins.as_array().unwrap().iter().map(|i| {
        let mut i = i.clone();
        i["v"] = json_bytes(&replace_bytes(&bytes_of(&i["v"]), b"$ROOT", r));
        i
    }).collect::<Vec<_>>())
}

/// file contents of a snapshot with the sandbox prefix removed (the model's paths are sandbox-relative)
fn snapshot_rel(root: &std::path::Path) -> Value {
    let r = root.as_os_str().as_bytes();
    let mut snap = snapshot(root);
    for n in snap.as_array_mut().unwrap() {
        if n["k"] == "f" {
            n["c"] = json_bytes(&replace_bytes(&bytes_of(&n["c"]), r, b""));
        }
    }
    snap
}

/// replace the sandbox prefix inside values by nothing so that paths are sandbox-relative
fn strip_root(root: &std::path::Path, v: &Value) -> Value {
    let r = root.as_os_str().as_bytes();
    let strip = |b: Vec<u8>| -> Vec<u8> {
        let mut out = Vec::with_capacity(b.len());
        let mut i = 0;
        while i < b.len() {
            if b[i..].starts_with(r) {
                i += r.len();
            } else {
                out.push(b[i]);
                i += 1;
            }
        }
        out
    };
    json!(v.as_array().unwrap().iter().map(|kv| json!([kv[0].clone(), json_bytes(&strip(bytes_of(&kv[1])))])).collect::<Vec<_>>())
}

/// `dot_dir` runs: "/a/b" (canonical spelling of the layer directory) -> "/CANONICALISED/b"; then "/a/./b" -> "/a/b"
fn respell(v: &Value, dir: &Value) -> Value {
    let comps: Vec<Vec<u8>> = dir.as_array().unwrap().iter().map(bytes_of).collect();
    let join = |cs: &[Vec<u8>]| -> Vec<u8> { cs.iter().flat_map(|c| std::iter::once(b'/').chain(c.iter().copied())).collect() };
    let canon = join(&comps);
    let mut given_c = comps.clone();
    given_c.insert(comps.len() - 1, b".".to_vec());
    let given = join(&given_c);
    let mut marked = b"/CANONICALISED/".to_vec();
    marked.extend_from_slice(comps.last().unwrap());
    let replace = |b: &[u8], from: &[u8], to: &[u8]| -> Vec<u8> {
        let mut out = vec![];
        let mut i = 0;
        while i < b.len() {
            if b[i..].starts_with(from) {
                out.extend_from_slice(to);
                i += from.len();
            } else {
                out.push(b[i]);
                i += 1;
            }
        }
        out
    };
    json!(v.as_array().unwrap().iter().map(|kv| {
        let val = bytes_of(&kv[1]);
        let step1 = replace(&val, &canon, &marked);
        json!([kv[0].clone(), json_bytes(&replace(&step1, &given, &canon))])
    }).collect::<Vec<_>>())
}

pub fn run(case: &Value) -> Value {
    let root = sandbox(&case["id"]);
    build_tree(&root, &case["init"]);
    let mut dir = path_of(&root, &case["dir"]);
    let dot_dir = case["dot_dir"] == true;
    if dot_dir {
        // same directory, spelled with a `.` component before the last one
        let last = dir.file_name().unwrap().to_os_string();
        dir.pop();
        dir.push(".");
        dir.push(last);
    }
    let mut steps = vec![];
    let pre = snapshot_rel(&root);
    for st in case["steps"].as_array().unwrap() {
        let r = match st["op"].as_str().unwrap() {
            "write" => {
                let le = layer_env_of(&with_root(&root, &st["ins"]));
                match le.write_to_layer_dir(&dir) {
                    Ok(()) => json!({"ok": true}),
                    Err(e) => json!({"ok": false, "err": errno_name(&e)}),
                }
            }
            "read" => match LayerEnv::read_from_layer_dir(&dir) {
                Ok(le) => {
                    let mut probes = vec![];
                    for p in st["probes"].as_array().unwrap() {
                        // ($ROOT in a starting value stands for the sandbox)
                        let r = root.as_os_str().as_bytes();
                        let env0v = json!(p["env0"].as_array().unwrap().iter().map(|kv| json!([kv[0].clone(), json_bytes(&replace_bytes(&bytes_of(&kv[1]), b"$ROOT", r))])).collect::<Vec<_>>());
                        let env0 = env_of(&env0v);
                        let out = le.apply(scope_of(&p["scope"]), &env0);
                        let mut pv = strip_root(&root, &dump_env(&out));
                        if dot_dir {
                            // values built from the canonical spelling are marked, then the given spelling is normalised
                            pv = respell(&pv, &case["dir"]);
                        }
                        probes.push(pv);
                    }
                    json!({"ok": true, "probes": probes})
                }
                Err(e) => json!({"ok": false, "err": errno_name(&e)}),
            },
            "read_write" => match LayerEnv::read_from_layer_dir(&dir) {
                // read -> re-write cycle (C10: implicit entries are never persisted)
                Ok(le) => match le.write_to_layer_dir(&dir) {
                    Ok(()) => json!({"ok": true}),
                    Err(e) => json!({"ok": false, "err": errno_name(&e), "phase": "write"}),
                },
                Err(e) => json!({"ok": false, "err": errno_name(&e), "phase": "read"}),
            },
            o => panic!("op {o}"),
        };
        steps.push(json!({"res": r, "snapshot": snapshot_rel(&root)}));
    }
    destroy(&root);
    json!({"id": case["id"], "pre": pre, "steps": steps})
}
