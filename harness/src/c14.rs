//! C14: package_composite_buildpack on generated composite buildpack directories.
use crate::util::*;
use libcnb_data::buildpack::BuildpackId;
use libcnb_package::package::{PackageCompositeBuildpackError, package_composite_buildpack};
use libcnb_package::package_descriptor::{NormalizePackageDescriptorError, ReplaceLibcnbUriError};
use serde_json::{Value, json};
use std::collections::BTreeMap;
use std::fs;
use std::path::PathBuf;

pub fn run(case: &Value) -> Value {
    let tmp = tempfile::tempdir().unwrap();
    let mut src = tmp.path().to_path_buf();
    for c in case["src"].as_array().unwrap() {
        src.push(string_of(c));
    }
    // the source location as the caller names it may be a symbolic link to a directory elsewhere ("dir"), or hold a
    // package.toml that is a link to a file elsewhere ("file"): relative dependencies are relative to the location named
    let store = tmp.path().join("real-store").join("deep").join("bp");
    if case["via_link"] == "dir" {
        fs::create_dir_all(&store).unwrap();
        fs::create_dir_all(src.parent().unwrap()).unwrap();
        std::os::unix::fs::symlink(&store, &src).unwrap();
    } else {
        fs::create_dir_all(&src).unwrap();
    }
    let dest = tmp.path().join("dest");
    fs::create_dir_all(&dest).unwrap();
    fs::write(
        src.join("buildpack.toml"),
        "api = \"0.10\"\n[buildpack]\nid = \"verif/meta\"\nversion = \"0.0.1\"\n[[order]]\n[[order.group]]\nid = \"a/b\"\nversion = \"1.0.0\"\n",
    )
    .unwrap();
    if case["via_link"] == "file" {
        fs::create_dir_all(&store).unwrap();
        fs::write(store.join("package.toml"), bytes_of(&case["package_toml"])).unwrap();
        std::os::unix::fs::symlink(store.join("package.toml"), src.join("package.toml")).unwrap();
    } else {
        fs::write(src.join("package.toml"), bytes_of(&case["package_toml"])).unwrap();
    }
    let mut paths: BTreeMap<BuildpackId, PathBuf> = BTreeMap::new();
    for p in case["paths"].as_array().unwrap() {
        // "$TMP" in a location stands for the temporary directory
        let loc = string_of(&p[1]).replace("$TMP", &tmp.path().to_string_lossy());
        paths.insert(string_of(&p[0]).parse().unwrap(), PathBuf::from(loc));
    }
    // earlier runs' output next to the destination: <dest>/../<id with / replaced by _>/buildpack.toml for EVERY id the
    // descriptor mentions -- only the id -> path map says where a buildpack was packaged
    if case["stale_siblings"] == true {
        for id in ["a/b", "a/c", "x/y", "verif/one", "app", "a b"] {
            let d = tmp.path().join(id.replace('/', "_"));
            fs::create_dir_all(&d).unwrap();
            fs::write(d.join("buildpack.toml"), format!("api = \"0.10\"\n[buildpack]\nid = \"{id}\"\nversion = \"0.0.1\"\n")).unwrap();
        }
    }
    let res = package_composite_buildpack(&src, &dest, &paths);
    let tmp_s = tmp.path().to_string_lossy().to_string();
    let out = match res {
        Ok(()) => {
            let text = fs::read(dest.join("package.toml")).unwrap();
            let bp_same = fs::read(dest.join("buildpack.toml")).unwrap() == fs::read(src.join("buildpack.toml")).unwrap();
            json!({"ok": true, "text": json_bytes(&text), "buildpack_toml_same": bp_same})
        }
        Err(PackageCompositeBuildpackError::NormalizePackageDescriptorError(NormalizePackageDescriptorError::ReplaceLibcnbUriError(e))) => match e {
            ReplaceLibcnbUriError::MissingBuildpackPath(id) => json!({"ok": false, "err": "missing_path", "what": json_bytes(id.as_bytes())}),
            ReplaceLibcnbUriError::BuildpackIdError(_) => json!({"ok": false, "err": "invalid_id"}),
            ReplaceLibcnbUriError::PackageDescriptorDependencyError(_) => json!({"ok": false, "err": "invalid_dep"}),
        },
        Err(PackageCompositeBuildpackError::NormalizePackageDescriptorError(NormalizePackageDescriptorError::PackageDescriptorDependencyError(_))) => {
            json!({"ok": false, "err": "invalid_dep"})
        }
        Err(PackageCompositeBuildpackError::CouldNotReadPackageDescriptor(_)) => json!({"ok": false, "err": "read"}),
        Err(e) => json!({"ok": false, "err": format!("{e}")}),
    };
    let mut o = out;
    o["id"] = case["id"].clone();
    o["tmp"] = json_bytes(tmp_s.as_bytes());
    o["src_dir"] = json_bytes(src.to_string_lossy().as_bytes());
    o
}
