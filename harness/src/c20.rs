//! C20: the same history of layer operations is executed by two separate processes (different
//! hash seeds, pids, sandbox paths); the layers directories must be byte-identical.
use crate::util::*;
use crate::{c01, c02, fsutil};
use serde_json::{Value, json};
use std::os::unix::fs::PermissionsExt;
use std::path::{Path, PathBuf};

/// `harness c20_child <case.json> <root>`
pub fn child() {
    let args: Vec<String> = std::env::args().collect();
    let case: Value = serde_json::from_str(&std::fs::read_to_string(&args[2]).unwrap()).unwrap();
    let root = PathBuf::from(&args[3]);
    std::fs::create_dir_all(root.join("layers")).unwrap();
    std::fs::create_dir_all(root.join("scratch")).unwrap();
    let names: Vec<String> = case["names"].as_array().unwrap().iter().map(string_of).collect();
    let ctx = c01::context(&root.join("layers"));
    let mut oks = vec![];
    for (opi, op) in case["ops"].as_array().unwrap().iter().enumerate() {
        let r = if op["op"] == "handle" {
            c02::step(&ctx, &root.join("layers"), &root.join("scratch"), &names, opi, op, &case["probes"])
        } else {
            c01::step(&ctx, &root.join("layers"), &root.join("scratch"), &names, opi, op)
        };
        let ok = match op["op"].as_str().unwrap() {
            "handle" => r["res"]["ok"] == true,
            "req" => r["res"].get("err").is_none() && r["writes"].as_array().is_some_and(|w| w.iter().all(|x| x["ok"] == true)),
            _ => true,
        };
        oks.push(ok);
    }
    println!("{}", serde_json::to_string(&oks).unwrap());
}

fn raw_dump(root: &Path, rel: &Path, out: &mut Vec<(String, u32, Vec<u8>)>) {
    let mut entries: Vec<_> = std::fs::read_dir(root.join(rel)).map(|rd| rd.flatten().collect()).unwrap_or_default();
    entries.sort_by_key(std::fs::DirEntry::file_name);
    for e in entries {
        let p = rel.join(e.file_name());
        let m = std::fs::symlink_metadata(root.join(&p)).unwrap();
        let mode = m.permissions().mode() & 0o7777;
        if m.is_dir() {
            out.push((format!("{}/", p.display()), mode, vec![]));
            raw_dump(root, &p, out);
        } else if m.file_type().is_symlink() {
            out.push((format!("{}@", p.display()), 0, std::fs::read_link(root.join(&p)).unwrap().to_string_lossy().as_bytes().to_vec()));
        } else {
            out.push((p.display().to_string(), mode, std::fs::read(root.join(&p)).unwrap_or_default()));
        }
    }
}

pub fn run(case: &Value) -> Value {
    let base = fsutil::sandbox(&case["id"]);
    let cf = base.join("case.json");
    std::fs::write(&cf, serde_json::to_string(case).unwrap()).unwrap();
    let mut dumps = vec![];
    let mut ok_vectors: Vec<Vec<bool>> = vec![];
    for (tag, src_mtime) in [("p1", "old"), ("second_process_with_a_longer_path", "new")] {
        let root = base.join(tag);
        let out = std::process::Command::new(std::env::current_exe().unwrap())
            .arg("c20_child")
            .arg(&cf)
            .arg(&root)
            .env("VERIF_NO_SNAPSHOT", "1")
            .env("VERIF_SRC_MTIME", src_mtime)
            .output()
            .unwrap();
        let oks: Vec<bool> = serde_json::from_str(String::from_utf8_lossy(&out.stdout).trim()).unwrap_or_default();
        let mut d = vec![];
        raw_dump(&root.join("layers"), Path::new(""), &mut d);
        dumps.push((out.status.success(), d));
        ok_vectors.push(oks);
    }
    // a failed operation leaves a partial state that nobody relies on (the build phase fails): then only the
    // outcomes are compared; when every operation succeeded in both processes the trees must be identical
    // designed histories whose only failure is deterministic by construction (a single missing exec.d source: no
    // unordered container is involved) set "cmp_failed": what a failed call leaves behind must then be identical too
    let all_ok = ok_vectors.iter().all(|v| v.iter().all(|b| *b));
    let cmp = all_ok || case["cmp_failed"] == true;
    let equal = ok_vectors[0] == ok_vectors[1] && (!cmp || dumps[0].1 == dumps[1].1);
    let diff = dumps[0].1.iter().zip(dumps[1].1.iter()).find(|(a, b)| a != b).map(|(a, b)| json!({"a": [a.0, a.1, String::from_utf8_lossy(&a.2)], "b": [b.0, b.1, String::from_utf8_lossy(&b.2)]}));
    let files = dumps[0].1.len();
    let bytes: usize = dumps[0].1.iter().map(|x| x.2.len()).sum();
    fsutil::destroy(&base);
    json!({"id": case["id"], "equal": equal && dumps[0].0 && dumps[1].0, "all_ok": all_ok, "files": if cmp { files } else { 0 }, "bytes": bytes, "diff": diff,
           "len": [dumps[0].1.len(), dumps[1].1.len()]})
}
