//! C04: LayerEnv::insert / LayerEnv::apply through the public API.
use crate::util::*;
use libcnb::Env;
use libcnb::layer_env::{LayerEnv, ModificationBehavior, Scope};
use serde_json::{Value, json};

pub fn scope_of(v: &Value) -> Scope {
    match v["k"].as_str().expect("scope kind") {
        "all" => Scope::All,
        "build" => Scope::Build,
        "launch" => Scope::Launch,
        "process" => Scope::Process(string_of(&v["p"])),
        k => panic!("scope {k}"),
    }
}

pub fn beh_of(v: &Value) -> ModificationBehavior {
    match v.as_str().expect("beh") {
        "append" => ModificationBehavior::Append,
        "default" => ModificationBehavior::Default,
        "delim" => ModificationBehavior::Delimiter,
        "override" => ModificationBehavior::Override,
        "prepend" => ModificationBehavior::Prepend,
        b => panic!("beh {b}"),
    }
}

pub fn layer_env_of(inserts: &Value) -> LayerEnv {
    let mut le = LayerEnv::new();
    for (k, i) in inserts.as_array().expect("inserts").iter().enumerate() {
        // both spellings of the public API: insert(&mut self) and chainable_insert(self)
        if k % 2 == 0 {
            le.insert(scope_of(&i["s"]), beh_of(&i["b"]), os_of(&i["n"]), os_of(&i["v"]));
        } else {
            le = le.chainable_insert(scope_of(&i["s"]), beh_of(&i["b"]), os_of(&i["n"]), os_of(&i["v"]));
        }
    }
    le
}

pub fn env_of(v: &Value) -> Env {
    let mut env = Env::new();
    for kv in v.as_array().expect("env") {
        env.insert(os_of(&kv[0]), os_of(&kv[1]));
    }
    env
}

pub fn dump_env(env: &Env) -> Value {
    let mut pairs: Vec<(Vec<u8>, Vec<u8>)> = env
        .iter()
        .map(|(k, v)| (bytes_of(&json_os(k)), bytes_of(&json_os(v))))
        .collect();
    pairs.sort();
    json!(pairs.iter().map(|(k, v)| json!([json_bytes(k), json_bytes(v)])).collect::<Vec<_>>())
}

pub fn run(case: &Value) -> Value {
    let le = layer_env_of(&case["ins"]);
    let le2 = layer_env_of(&case["ins2"]);
    let env0 = env_of(&case["env0"]);
    let before = env0.clone();
    let out = if env0.iter().next().is_none() { le.apply_to_empty(scope_of(&case["scope"])) } else { le.apply(scope_of(&case["scope"]), &env0) };
    let out2 = le2.apply(scope_of(&case["scope"]), &env0);
    json!({
        "id": case["id"],
        "out": dump_env(&out),
        "out2": dump_env(&out2),
        "le_eq": le == le2,
        "env0_unchanged": before == env0,
    })
}
