//! libcnb-test scenarios (C16, C17): the real TestRunner / TestContext / ContainerContext code runs
//! against stand-in `docker` and `pack` executables, one process per scenario.
use crate::util::{json_bytes, string_of};
use libcnb_test::{BuildConfig, BuildpackReference, ContainerConfig, ContainerContext, PackResult, TestContext, TestRunner};
use serde_json::{Value, json};
use std::os::unix::process::ExitStatusExt;
use std::path::{Path, PathBuf};

fn build_config(v: &Value) -> BuildConfig {
    // the app dir either given to the constructor or set afterwards (BuildConfig::app_dir)
    let mut c = if v["app_dir_via_setter"] == true {
        let mut c = BuildConfig::new(string_of(&v["builder"]), PathBuf::from("decoy/never/used"));
        c.app_dir(PathBuf::from(string_of(&v["app_dir"])));
        c
    } else {
        BuildConfig::new(string_of(&v["builder"]), PathBuf::from(string_of(&v["app_dir"])))
    };
    // a reference is bytes (BuildpackReference::Other), {"ws": id} (a buildpack of the Cargo workspace) or {"current": true}
    c.buildpacks(
        v["buildpacks"]
            .as_array()
            .unwrap()
            .iter()
            .map(|b| {
                if let Some(id) = b.get("ws") {
                    BuildpackReference::WorkspaceBuildpack(string_of(id).parse().unwrap())
                } else if b.get("current").is_some() {
                    BuildpackReference::CurrentCrate
                } else {
                    BuildpackReference::Other(string_of(b))
                }
            })
            .collect::<Vec<_>>(),
    );
    for kv in v["env"].as_array().unwrap() {
        c.env(string_of(&kv[0]), string_of(&kv[1]));
    }
    // a history of configuration calls: env(k, v) one at a time, envs([...]) in bulk; later calls update earlier ones
    for call in v["env_calls"].as_array().map(Vec::as_slice).unwrap_or_default() {
        let pairs: Vec<(String, String)> = call["pairs"].as_array().unwrap().iter().map(|kv| (string_of(&kv[0]), string_of(&kv[1]))).collect();
        if call["via"] == "envs" {
            c.envs(pairs);
        } else {
            for (k, val) in pairs {
                c.env(k, val);
            }
        }
    }
    if v["expected"] == "failure" {
        c.expected_pack_result(PackResult::Failure);
    }
    if let Some(t) = v["target"].as_str() {
        c.target_triple(t);
    }
    match v["pre"].as_str() {
        Some("touch") => {
            c.app_dir_preprocessor(|p| {
                std::fs::write(p.join("PREPROCESSED"), b"x").unwrap();
                // rewrite a file of the fixture in place and extend another one: the copy is private, the fixture stays as it was
                if p.join("app.txt").is_file() {
                    std::fs::write(p.join("app.txt"), b"changed").unwrap();
                }
                if p.join("sub/inner.txt").is_file() {
                    use std::io::Write;
                    std::fs::OpenOptions::new().append(true).open(p.join("sub/inner.txt")).unwrap().write_all(b"+more").unwrap();
                }
            });
        }
        Some("panic") => {
            c.app_dir_preprocessor(|_| panic!("injected preprocessor panic"));
        }
        // one argument above MAX_ARG_STRLEN: the pack executable cannot be started (E2BIG)
        Some("nospawn") => {
            c.env("BIG", "x".repeat(200_000));
        }
        _ => {}
    }
    c
}

fn container_config(v: &Value) -> ContainerConfig {
    let mut c = ContainerConfig::new();
    if !v["entrypoint"].is_null() {
        c.entrypoint(string_of(&v["entrypoint"]));
    }
    // (earlier settings of the command on the same configuration: the setter replaces)
    for earlier in v["command_history"].as_array().map(Vec::as_slice).unwrap_or_default() {
        c.command(earlier.as_array().unwrap().iter().map(string_of).collect::<Vec<_>>());
    }
    if !v["command"].is_null() {
        c.command(v["command"].as_array().unwrap().iter().map(string_of).collect::<Vec<_>>());
    }
    for kv in v["env"].as_array().unwrap() {
        c.env(string_of(&kv[0]), string_of(&kv[1]));
    }
    for call in v["env_calls"].as_array().map(Vec::as_slice).unwrap_or_default() {
        let pairs: Vec<(String, String)> = call["pairs"].as_array().unwrap().iter().map(|kv| (string_of(&kv[0]), string_of(&kv[1]))).collect();
        if call["via"] == "envs" {
            c.envs(pairs);
        } else {
            for (k, val) in pairs {
                c.env(k, val);
            }
        }
    }
    for p in v["ports"].as_array().unwrap() {
        c.expose_port(u16::try_from(p.as_u64().unwrap()).unwrap());
    }
    for m in v["mounts"].as_array().unwrap() {
        c.bind_mount(PathBuf::from(string_of(&m[0])), PathBuf::from(string_of(&m[1])));
    }
    c
}

fn run_cops(c: &ContainerContext, ops: &[Value]) {
    for op in ops {
        match op["op"].as_str().unwrap() {
            "logs_now" => {
                let _ = c.logs_now();
            }
            "logs_wait" => {
                let _ = c.logs_wait();
            }
            "port" => {
                let _ = c.address_for_port(u16::try_from(op["p"].as_u64().unwrap()).unwrap());
            }
            "exec" => {
                let _ = c.shell_exec(string_of(&op["cmd"]));
            }
            "panic" => panic!("injected container-closure panic"),
            other => panic!("unknown cop {other}"),
        }
    }
}

fn run_body(ctx: TestContext, ops: &[Value]) {
    for (i, op) in ops.iter().enumerate() {
        match op["op"].as_str().unwrap() {
            "start" => ctx.start_container(container_config(&op["cfg"]), |c| run_cops(&c, op["body"].as_array().unwrap())),
            "shell" => {
                let _ = ctx.run_shell_command(string_of(&op["cmd"]));
            }
            "sbom" => ctx.download_sbom_files(|_files| {
                if op["panic"] == true {
                    panic!("injected sbom-closure panic");
                }
            }),
            "panic" => panic!("injected test-closure panic"),
            "rebuild" => {
                assert!(i + 1 == ops.len(), "rebuild must be the last op");
                ctx.rebuild(build_config(&op["cfg"]), |ctx2| run_body(ctx2, op["body"].as_array().unwrap()));
                if op["after_panic"] == true {
                    panic!("injected panic after rebuild");
                }
                return;
            }
            other => panic!("unknown op {other}"),
        }
    }
}

/// `harness lt_child <case.json>`
pub fn child() {
    let args: Vec<String> = std::env::args().collect();
    let case: Value = serde_json::from_str(&std::fs::read_to_string(&args[2]).unwrap()).unwrap();
    std::panic::set_hook(Box::new(|_| {}));
    let r = std::panic::catch_unwind(|| {
        // the runner is a temporary, a static shared by the tests of a binary (never dropped), or leaked
        static SHARED: std::sync::LazyLock<TestRunner> = std::sync::LazyLock::new(TestRunner::default);
        match case["runner"].as_str() {
            Some("static") => SHARED.build(build_config(&case["build"]), |ctx| run_body(ctx, case["body"].as_array().unwrap())),
            Some("leaked") => {
                let r: &'static TestRunner = Box::leak(Box::new(TestRunner::default()));
                r.build(build_config(&case["build"]), |ctx| run_body(ctx, case["body"].as_array().unwrap()));
            }
            _ => TestRunner::default().build(build_config(&case["build"]), |ctx| run_body(ctx, case["body"].as_array().unwrap())),
        }
    });
    if let Err(e) = &r {
        let msg = e.downcast_ref::<String>().cloned().or_else(|| e.downcast_ref::<&str>().map(ToString::to_string)).unwrap_or_default();
        eprintln!("panic: {}", msg.chars().take(300).collect::<String>());
    }
    println!("{}", if r.is_ok() { "done" } else { "panic" });
}

fn listing(root: &Path, rel: &Path, out: &mut Vec<(String, Vec<u8>)>) {
    let Ok(rd) = std::fs::read_dir(root.join(rel)) else { return };
    for e in rd.flatten() {
        let p = rel.join(e.file_name());
        if e.file_type().unwrap().is_dir() {
            out.push((format!("{}/", p.display()), vec![]));
            listing(root, &p, out);
        } else {
            out.push((p.display().to_string(), std::fs::read(root.join(&p)).unwrap_or_default()));
        }
    }
}

pub fn run(case: &Value) -> Value {
    let sandbox = tempfile::Builder::new().prefix("lt").tempdir_in(std::env::var("VERIF_SANDBOX").unwrap_or_else(|_| "/tmp".into())).unwrap();
    let root = sandbox.path();
    for d in ["state", "tmp", "manifest", "bin", "abs"] {
        std::fs::create_dir_all(root.join(d)).unwrap();
    }
    // the crate under test: root/manifest, or a member of a Cargo workspace root/wsroot
    let manifest = if case["workspace"].is_array() { root.join("wsroot").join("crate") } else { root.join("manifest") };
    std::fs::create_dir_all(&manifest).unwrap();
    let exe_dir = std::env::current_exe().unwrap().parent().unwrap().to_path_buf();
    for p in ["docker", "pack"] {
        std::os::unix::fs::symlink(exe_dir.join("standin"), root.join("bin").join(p)).unwrap();
    }
    // fixture: the app_dir of every build config is "$ABS/..." (absolute) or relative to the manifest dir
    let mut case = case.clone();
    // "$TMP/..." puts the fixture below the system temporary directory the run sees (TMPDIR)
    let abs_prefix = format!("{}\u{0}{}", root.join("abs").display(), root.join("tmp").display());
    fn patch(v: &mut Value, abs: &str, fixtures: &mut Vec<String>) {
        if let Some(cfg) = v.get_mut("app_dir") {
            let s = string_of(cfg);
            let (abs_dir, tmp_dir) = abs.split_once('\u{0}').unwrap();
            let s2 = s.replace("$ABS", abs_dir).replace("$TMP", tmp_dir);
            fixtures.push(s2.clone());
            *cfg = json_bytes(s2.as_bytes());
        }
        match v {
            Value::Object(m) => m.values_mut().for_each(|x| patch(x, abs, fixtures)),
            Value::Array(a) => a.iter_mut().for_each(|x| patch(x, abs, fixtures)),
            _ => {}
        }
    }
    let mut fixtures = vec![];
    patch(&mut case, &abs_prefix, &mut fixtures);
    let mut fixture_dirs = vec![];
    for f in &fixtures {
        let p = if Path::new(f).is_absolute() { PathBuf::from(f) } else { manifest.join(f) };
        if case["no_fixture"] != true {
            std::fs::create_dir_all(p.join("sub")).unwrap();
            std::fs::write(p.join("app.txt"), b"app").unwrap();
            std::fs::write(p.join("sub").join("inner.txt"), b"inner").unwrap();
            let _ = std::os::unix::fs::symlink("app.txt", p.join("link.txt"));
        }
        fixture_dirs.push(p);
    }
    // a Cargo workspace around the crate under test (root/manifest) with composite buildpacks (nothing to compile):
    // [{"dir": relative to the workspace root (the crate is "crate"), "id": .., "deps": [ids]}]
    if let Some(ws) = case["workspace"].as_array() {
        let wsroot = root.join("wsroot");
        std::fs::write(wsroot.join("Cargo.toml"), "[workspace]\nmembers = [\"crate\"]\nresolver = \"2\"\n").unwrap();
        std::fs::create_dir_all(manifest.join("src")).unwrap();
        std::fs::write(manifest.join("Cargo.toml"), "[package]\nname = \"crate_under_test\"\nversion = \"0.0.0\"\nedition = \"2021\"\n").unwrap();
        std::fs::write(manifest.join("src").join("lib.rs"), "").unwrap();
        for bp in ws {
            let d = wsroot.join(string_of(&bp["dir"]));
            std::fs::create_dir_all(&d).unwrap();
            let id = string_of(&bp["id"]);
            std::fs::write(
                d.join("buildpack.toml"),
                format!("api = \"0.10\"\n\n[buildpack]\nid = \"{id}\"\nversion = \"0.0.1\"\n\n[[order]]\n[[order.group]]\nid = \"x/y\"\nversion = \"1.0.0\"\n"),
            )
            .unwrap();
            let mut p = format!("[buildpack]\nuri = \".\"\n");
            for dep in bp["deps"].as_array().unwrap() {
                p.push_str(&format!("\n[[dependencies]]\nuri = \"libcnb:{}\"\n", string_of(dep)));
            }
            std::fs::write(d.join("package.toml"), p).unwrap();
        }
    }
    std::fs::write(root.join("state").join("plan.json"), serde_json::to_string(&json!({"fail": case["fail"], "noise": case["noise"], "exit_code": case["exit_code"]})).unwrap()).unwrap();
    std::fs::write(root.join("case.json"), serde_json::to_string(&case).unwrap()).unwrap();

    let mut child = std::process::Command::new(std::env::current_exe().unwrap());
    child.arg("lt_child").arg(root.join("case.json")).env_clear();
    // coverage measurement only (tools/coverage.sh): let the instrumented child write its profile
    if let Ok(p) = std::env::var("LLVM_PROFILE_FILE") {
        child.env("LLVM_PROFILE_FILE", p);
    }
    // libcnb-test finds the workspace root with `$CARGO locate-project` (cargo sets CARGO for the tests it runs)
    if let Ok(c) = std::env::var("VERIF_CARGO") {
        child.env("CARGO", c).env("CARGO_HOME", root.join("state").join("cargo-home")).env("CARGO_NET_OFFLINE", "true");
    }
    let out = child
        .env("PATH", root.join("bin"))
        .env("TMPDIR", root.join("tmp"))
        .env("CARGO_MANIFEST_DIR", &manifest)
        .env("VERIF_LT_STATE", root.join("state"))
        .output()
        .unwrap();
    let status = if let Some(sig) = out.status.signal() {
        if sig == libc::SIGABRT { "abort".to_string() } else { format!("signal{sig}") }
    } else if out.status.success() {
        String::from_utf8_lossy(&out.stdout).trim().to_string()
    } else {
        format!("exit{}", out.status.code().unwrap_or(-1))
    };
    let log: Vec<Value> = std::fs::read_to_string(root.join("state").join("log.jsonl"))
        .unwrap_or_default()
        .lines()
        .map(|l| serde_json::from_str(l).unwrap())
        .collect();
    let leftover: Vec<String> = std::fs::read_dir(root.join("tmp")).unwrap().flatten().map(|e| e.file_name().to_string_lossy().to_string()).collect();
    let fixture_after: Vec<Value> = fixture_dirs
        .iter()
        .map(|p| {
            let mut l = vec![];
            listing(p, Path::new(""), &mut l);
            l.sort();
            json!({"path": p.display().to_string(), "listing": l})
        })
        .collect();
    json!({
        "id": case["id"], "status": status, "log": log, "leftover": leftover, "fixtures": fixture_after,
        "manifest_dir": manifest.display().to_string(), "tmp_dir": root.join("tmp").display().to_string(),
        "stderr": String::from_utf8_lossy(&out.stderr).chars().take(400).collect::<String>(),
    })
}
