//! C07: documents built through the public builders/types and written by libcnb.
use crate::dump;
use crate::util::*;
use libcnb_common::toml_file::{read_toml_file, write_toml_file};
use libcnb_data::build_plan::{BuildPlanBuilder, Require};
use libcnb_data::exec_d::ExecDProgramOutput;
use libcnb_data::generic::GenericMetadata;
use libcnb_data::launch::{Label, Launch, LaunchBuilder, ProcessBuilder, Slice, WorkingDirectory};
use libcnb_data::layer_content_metadata::{LayerContentMetadata, LayerTypes};
use libcnb_data::package_descriptor::{
    PackageDescriptor, PackageDescriptorBuildpackReference, PackageDescriptorDependency, Platform, PlatformOs,
};
use libcnb_data::store::Store;
use serde_json::{Value, json};
use std::os::unix::ffi::OsStringExt;
use std::path::PathBuf;

/// JSON tree (dict / list / {"s": bytes} / int / bool) -> toml value
pub fn to_toml(v: &Value) -> toml::Value {
    match v {
        Value::Bool(b) => toml::Value::Boolean(*b),
        Value::Number(n) => toml::Value::Integer(n.as_i64().expect("i64")),
        Value::Array(a) => toml::Value::Array(a.iter().map(to_toml).collect()),
        Value::Object(o) => {
            if let Some(s) = o.get("$s") {
                toml::Value::String(string_of(s))
            } else {
                let mut t = toml::Table::new();
                for (k, x) in o {
                    t.insert(k.clone(), to_toml(x));
                }
                toml::Value::Table(t)
            }
        }
        other => panic!("unsupported {other}"),
    }
}
pub fn to_table(v: &Value) -> toml::Table {
    match to_toml(v) {
        toml::Value::Table(t) => t,
        _ => panic!("table expected"),
    }
}

thread_local! {
    /// content already at the destination before write_toml_file runs (a restored store.toml, a launch.toml of an
    /// earlier build): the written file must not depend on it
    static PRE: std::cell::RefCell<Option<Vec<u8>>> = const { std::cell::RefCell::new(None) };
}

fn write_read<T: serde::Serialize + serde::de::DeserializeOwned>(value: &T, dumpf: impl Fn(&T) -> Value) -> Value {
    let dir = tempfile::tempdir().unwrap();
    let path = dir.path().join("out.toml");
    if let Some(pre) = PRE.with(|p| p.borrow().clone()) {
        std::fs::write(&path, pre).unwrap();
    }
    match write_toml_file(value, &path) {
        Ok(()) => {
            let text = std::fs::read(&path).unwrap();
            let back = read_toml_file::<T>(&path).ok().map(|b| dumpf(&b));
            json!({"text": json_bytes(&text), "readback": back})
        }
        Err(e) => json!({"text": null, "error": format!("{e}")}),
    }
}

pub fn run(case: &Value) -> Value {
    PRE.with(|p| *p.borrow_mut() = if case["pre"].is_null() { None } else { Some(bytes_of(&case["pre"])) });
    let mut out = match case["kind"].as_str().unwrap() {
        "plan" => {
            let mut bld = BuildPlanBuilder::new();
            for c in case["calls"].as_array().unwrap() {
                bld = match c["c"].as_str().unwrap() {
                    "provides" => bld.provides(string_of(&c["n"])),
                    "requires" => {
                        let mut r = Require::new(string_of(&c["n"]));
                        // the metadata either assigned directly or through Require::metadata (any Serialize value)
                        // earlier Require::metadata calls on the same value: the last call decides (the table is replaced)
                        let earlier = c["m0"].as_array().cloned().unwrap_or_default();
                        for m0 in &earlier {
                            r.metadata(to_table(m0)).expect("a table serialises as a table");
                        }
                        if !earlier.is_empty() || case["id"].as_u64().unwrap_or(0) % 2 == 1 {
                            r.metadata(to_table(&c["m"])).expect("a table serialises as a table");
                        } else {
                            r.metadata = to_table(&c["m"]);
                        }
                        bld.requires(r)
                    }
                    "or" => bld.or(),
                    o => panic!("{o}"),
                };
            }
            match toml::to_string(&bld.build()) {
                Ok(t) => json!({"text": json_bytes(t.as_bytes())}),
                Err(e) => json!({"text": null, "error": format!("{e}")}),
            }
        }
        "launch" => {
            let mut bld = LaunchBuilder::new();
            // odd cases go through the bulk spellings of the builders (processes / labels / slices / args)
            let bulk = case["id"].as_u64().unwrap_or(0) % 2 == 1;
            for (ci, c) in case["calls"].as_array().unwrap().iter().enumerate() {
                // the builder is not consumed by build(): a Launch taken in between (and thrown away) changes nothing
                if case["snapshots"].as_array().is_some_and(|s| s.iter().any(|x| x.as_u64() == Some(ci as u64))) {
                    let _ = bld.build();
                }
                match c["c"].as_str().unwrap() {
                    "process" => {
                        let cmd: Vec<String> = c["cmd"].as_array().unwrap().iter().map(string_of).collect();
                        let mut pb = ProcessBuilder::new(string_of(&c["ty"]).parse().unwrap(), cmd);
                        for pc in c["calls"].as_array().unwrap() {
                            match pc["c"].as_str().unwrap() {
                                "arg" => {
                                    if bulk {
                                        pb.args([string_of(&pc["a"])]);
                                    } else {
                                        pb.arg(string_of(&pc["a"]));
                                    }
                                }
                                "default" => {
                                    pb.default(pc["v"].as_bool().unwrap());
                                }
                                "wd" => {
                                    pb.working_directory(if pc["d"].is_null() {
                                        WorkingDirectory::App
                                    } else {
                                        // raw bytes: a PathBuf need not be UTF-8 (such a directory cannot be written to TOML)
                                        WorkingDirectory::Directory(PathBuf::from(std::ffi::OsString::from_vec(bytes_of(&pc["d"]))))
                                    });
                                }
                                o => panic!("{o}"),
                            }
                        }
                        if bulk {
                            bld.processes([pb.build()]);
                        } else {
                            bld.process(pb.build());
                        }
                    }
                    "label" => {
                        let l = Label { key: string_of(&c["k"]), value: string_of(&c["v"]) };
                        if bulk {
                            bld.labels([l]);
                        } else {
                            bld.label(l);
                        }
                    }
                    "slice" => {
                        let sl = Slice { path_globs: c["paths"].as_array().unwrap().iter().map(string_of).collect() };
                        if bulk {
                            bld.slices([sl]);
                        } else {
                            bld.slice(sl);
                        }
                    }
                    o => panic!("{o}"),
                }
            }
            let launch: Launch = bld.build();
            write_read(&launch, dump::launch)
        }
        "layer" => {
            let types = if case["types"].is_null() {
                None
            } else {
                let t = &case["types"];
                Some(LayerTypes { launch: t[0].as_bool().unwrap(), build: t[1].as_bool().unwrap(), cache: t[2].as_bool().unwrap() })
            };
            let metadata: GenericMetadata = if case["metadata"].is_null() { None } else { Some(to_table(&case["metadata"])) };
            write_read(&LayerContentMetadata { types, metadata }, dump::layer)
        }
        "store" => write_read(&Store { metadata: to_table(&case["metadata"]) }, dump::store),
        "package" => {
            let bp = PackageDescriptorBuildpackReference::try_from(string_of(&case["uri"]).as_str());
            let deps: Result<Vec<PackageDescriptorDependency>, _> =
                case["deps"].as_array().unwrap().iter().map(|d| PackageDescriptorDependency::try_from(string_of(d).as_str())).collect();
            match (bp, deps) {
                (Ok(buildpack), Ok(dependencies)) => {
                    let platform = Platform { os: if case["os"] == "windows" { PlatformOs::Windows } else { PlatformOs::Linux } };
                    write_read(&PackageDescriptor { buildpack, dependencies, platform }, dump::package)
                }
                _ => json!({"text": null, "error": "invalid uri"}),
            }
        }
        "execd" => {
            let pairs: Vec<(libcnb_data::exec_d::ExecDProgramOutputKey, String)> = case["pairs"]
                .as_array()
                .unwrap()
                .iter()
                .map(|p| (string_of(&p[0]).parse().unwrap(), string_of(&p[1])))
                .collect();
            let out = ExecDProgramOutput::from(pairs);
            match toml::to_string(&out) {
                Ok(t) => json!({"text": json_bytes(t.as_bytes())}),
                Err(e) => json!({"text": null, "error": format!("{e}")}),
            }
        }
        k => panic!("kind {k}"),
    };
    out["id"] = case["id"].clone();
    out
}

/// child mode for write_exec_d_program_output: pairs from $VERIF_EXECD (JSON), output to fd 3
pub fn execd_child() {
    let v: Value = serde_json::from_str(&std::env::var("VERIF_EXECD").expect("VERIF_EXECD")).unwrap();
    let pairs: Vec<(libcnb_data::exec_d::ExecDProgramOutputKey, String)> =
        v.as_array().unwrap().iter().map(|p| (string_of(&p[0]).parse().unwrap(), string_of(&p[1]))).collect();
    libcnb::exec_d::write_exec_d_program_output(ExecDProgramOutput::from(pairs));
}
