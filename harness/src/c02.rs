//! C02: histories of the trait-based layer API (BuildContext::handle_layer with a Layer whose
//! callbacks are data), tampering and simulated lifecycle restores, over a real layers directory.
#![allow(deprecated)]
use crate::c01::{BpError, TestBp, abstract_store, context, restore};
use crate::c04::{dump_env, env_of, layer_env_of, scope_of};
use crate::dump;
use crate::fsutil;
use crate::util::*;
use libcnb::build::BuildContext;
use libcnb::data::layer::LayerName;
use libcnb::data::layer_content_metadata::LayerTypes;
use libcnb::data::sbom::SbomFormat;
use libcnb::generic::GenericMetadata;
use libcnb::layer::{ExistingLayerStrategy, Layer, LayerData, LayerResult, MetadataMigration};
use libcnb::sbom::Sbom;
use serde::de::DeserializeOwned;
use serde::{Deserialize, Serialize};
use serde_json::{Value, json};
use std::collections::HashMap;
use std::os::unix::fs::PermissionsExt;
use std::path::{Path, PathBuf};
use std::str::FromStr;

#[derive(Serialize, Deserialize, Debug, Clone)]
struct V {
    version: String,
}

trait Meta: Serialize + DeserializeOwned + Clone {
    fn of_json(v: &Value) -> Self;
    fn dump(&self) -> Value;
}
impl Meta for GenericMetadata {
    fn of_json(v: &Value) -> Self {
        if v.is_null() { None } else { Some(hash_order(toml::from_str(&string_of(v)).expect("metadata toml"))) }
    }
    fn dump(&self) -> Value {
        dump::generic(self)
    }
}
impl Meta for V {
    fn of_json(v: &Value) -> Self {
        let t: toml::Table = toml::from_str(&string_of(v)).expect("metadata toml");
        V { version: t["version"].as_str().expect("version string").to_string() }
    }
    fn dump(&self) -> Value {
        let mut t = toml::Table::new();
        t.insert("version".into(), toml::Value::String(self.version.clone()));
        dump::generic(&Some(t))
    }
}

struct TL<'a, M> {
    spec: &'a Value,
    scratch: PathBuf,
    tag: String,
    calls: Vec<Value>,
    /// set once the callback that decides this call's outcome has run (create, update, or a
    /// strategy callback answering Keep): `types()` is specified to be asked AFTER it, so a layer
    /// may compute its types from state that callback changed
    decided: std::cell::Cell<bool>,
    _m: std::marker::PhantomData<M>,
}

fn sbom_format(i: u64) -> SbomFormat {
    match i {
        0 => SbomFormat::CycloneDxJson,
        1 => SbomFormat::SpdxJson,
        _ => SbomFormat::SyftJson,
    }
}

impl<M: Meta> TL<'_, M> {
    fn result(&self, r: &Value, layer_path: &Path, kind: &str) -> Result<LayerResult<M>, BpError> {
        if r.is_null() {
            return Err(BpError);
        }
        for f in r["files"].as_array().unwrap() {
            let p = fsutil::path_of(layer_path, &f[0]);
            // a failing write inside the callback is the buildpack's own error
            std::fs::create_dir_all(p.parent().unwrap()).map_err(|_| BpError)?;
            std::fs::write(&p, bytes_of(&f[1])).map_err(|_| BpError)?;
        }
        let mut progs = HashMap::new();
        for (pi, p) in r["execd"].as_array().unwrap().iter().enumerate() {
            let src = self.scratch.join(format!("src_{}_{kind}_{pi}", self.tag));
            if !p[1].is_null() {
                std::fs::write(&src, bytes_of(&p[1][1])).unwrap();
                crate::util::age_source(&src);
                std::fs::set_permissions(&src, std::fs::Permissions::from_mode(u32::try_from(p[1][0].as_u64().unwrap()).unwrap())).unwrap();
            }
            progs.insert(string_of(&p[0]), src);
        }
        Ok(LayerResult {
            metadata: M::of_json(&r["md"]),
            env: if r["env"].is_null() { None } else { Some(layer_env_of(&r["env"])) },
            exec_d_programs: progs,
            sboms: r["sboms"].as_array().unwrap().iter().map(|x| Sbom::from_bytes(sbom_format(x[0].as_u64().unwrap()), bytes_of(&x[1]))).collect(),
        })
    }
}

impl<M: Meta> Layer for TL<'_, M> {
    type Buildpack = TestBp;
    type Metadata = M;

    fn types(&self) -> LayerTypes {
        let t = if self.decided.get() || self.spec["types_pre"].is_null() { &self.spec["types"] } else { &self.spec["types_pre"] };
        LayerTypes { launch: t["launch"] == true, build: t["build"] == true, cache: t["cache"] == true }
    }

    fn create(&mut self, _context: &BuildContext<TestBp>, layer_path: &Path) -> Result<LayerResult<M>, BpError> {
        let empty = std::fs::read_dir(layer_path).map(|mut rd| rd.next().is_none()).unwrap_or(false);
        self.calls.push(json!({"cb": "create", "empty": empty}));
        self.decided.set(true);
        self.result(&self.spec["create"], layer_path, "c")
    }

    fn existing_layer_strategy(&mut self, _context: &BuildContext<TestBp>, layer_data: &LayerData<M>) -> Result<ExistingLayerStrategy, BpError> {
        self.calls.push(json!({"cb": "strategy", "md": layer_data.content_metadata.metadata.dump()}));
        match self.spec["strategy"].as_str().unwrap() {
            "keep" => {
                self.decided.set(true);
                Ok(ExistingLayerStrategy::Keep)
            }
            "update" => Ok(ExistingLayerStrategy::Update),
            "recreate" => Ok(ExistingLayerStrategy::Recreate),
            _ => Err(BpError),
        }
    }

    fn update(&mut self, _context: &BuildContext<TestBp>, layer_data: &LayerData<M>) -> Result<LayerResult<M>, BpError> {
        self.calls.push(json!({"cb": "update", "md": layer_data.content_metadata.metadata.dump()}));
        self.decided.set(true);
        self.result(&self.spec["update"], &layer_data.path, "u")
    }

    fn migrate_incompatible_metadata(&mut self, _context: &BuildContext<TestBp>, metadata: &GenericMetadata) -> Result<MetadataMigration<M>, BpError> {
        self.calls.push(json!({"cb": "migrate", "md": dump::generic(metadata)}));
        let m = &self.spec["migrate"];
        match m["d"].as_str().unwrap() {
            "recreate" => Ok(MetadataMigration::RecreateLayer),
            "replace" => Ok(MetadataMigration::ReplaceMetadata(M::of_json(&m["md"]))),
            _ => Err(BpError),
        }
    }
}

fn err_kind(e: &libcnb::Error<BpError>) -> &'static str {
    use libcnb::layer::{LayerError, WriteLayerError};
    match e {
        libcnb::Error::BuildpackError(_) => "buildpack",
        libcnb::Error::LayerError(le) => match le {
            LayerError::ReadLayerError(_) => "read_layer",
            LayerError::CouldNotReadGenericLayerMetadata(_) => "generic_meta",
            LayerError::WriteLayerError(w) => match w {
                WriteLayerError::WriteLayerMetadataError(_) => "write_meta",
                other if other.to_string().starts_with("Layer doesn't exist") => "missing_layer",
                other if other.to_string().starts_with("Couldn't find exec.d file") => "missing_execd",
                _ => "write_io",
            },
            LayerError::DeleteLayerError(_) => "delete",
            LayerError::CouldNotReadLayerAfterCreate(_) => "after_create",
            LayerError::UnexpectedMissingLayer => "missing_layer",
            _ => "other",
        },
        _ => "other",
    }
}

fn handle<M: Meta>(ctx: &BuildContext<TestBp>, name: &LayerName, spec: &Value, scratch: &Path, tag: String, probes: &Value) -> (Value, Vec<Value>) {
    // the callback log has to survive the move of the layer into handle_layer
    let calls = std::rc::Rc::new(std::cell::RefCell::new(Vec::new()));
    struct Logged<'a, M> {
        inner: TL<'a, M>,
        out: std::rc::Rc<std::cell::RefCell<Vec<Value>>>,
    }
    impl<M: Meta> Layer for Logged<'_, M> {
        type Buildpack = TestBp;
        type Metadata = M;
        fn types(&self) -> LayerTypes {
            self.inner.types()
        }
        fn create(&mut self, c: &BuildContext<TestBp>, p: &Path) -> Result<LayerResult<M>, BpError> {
            let r = self.inner.create(c, p);
            self.out.borrow_mut().append(&mut self.inner.calls);
            r
        }
        fn existing_layer_strategy(&mut self, c: &BuildContext<TestBp>, d: &LayerData<M>) -> Result<ExistingLayerStrategy, BpError> {
            let r = self.inner.existing_layer_strategy(c, d);
            self.out.borrow_mut().append(&mut self.inner.calls);
            r
        }
        fn update(&mut self, c: &BuildContext<TestBp>, d: &LayerData<M>) -> Result<LayerResult<M>, BpError> {
            let r = self.inner.update(c, d);
            self.out.borrow_mut().append(&mut self.inner.calls);
            r
        }
        fn migrate_incompatible_metadata(&mut self, c: &BuildContext<TestBp>, g: &GenericMetadata) -> Result<MetadataMigration<M>, BpError> {
            let r = self.inner.migrate_incompatible_metadata(c, g);
            self.out.borrow_mut().append(&mut self.inner.calls);
            r
        }
    }
    let layer = Logged { inner: TL::<M> { spec, scratch: scratch.to_path_buf(), tag, calls: vec![], decided: std::cell::Cell::new(false), _m: std::marker::PhantomData }, out: calls.clone() };
    let res = match ctx.handle_layer(name.clone(), layer) {
        Ok(data) => {
            let t = data.content_metadata.types;
            let outs: Vec<Value> = probes
                .as_array()
                .unwrap()
                .iter()
                .map(|p| dump_env(&data.env.apply(scope_of(&p["scope"]), &env_of(&p["env"]))))
                .collect();
            json!({"ok": true, "types": t.map(|t| json!({"launch": t.launch, "build": t.build, "cache": t.cache})), "md": data.content_metadata.metadata.dump(),
                   "probes": outs, "path_ok": data.path == ctx.layers_dir.join(name.as_str()),
                   "layer_path": data.path.display().to_string()})
        }
        Err(e) => json!({"ok": false, "err": err_kind(&e), "text": format!("{e:?}").chars().take(200).collect::<String>()}),
    };
    let c = calls.borrow().clone();
    (res, c)
}

/// one operation of a history (handle / corrupt / restore)
pub fn step(ctx: &BuildContext<TestBp>, layers: &Path, scratch: &Path, names: &[String], opi: usize, op: &Value, probes: &Value) -> Value {
    match op["op"].as_str().unwrap() {
        "restore" => {
            restore(layers, names);
            json!({"post": abstract_store(layers, names)})
        }
        "corrupt" => {
            let tp = layers.join(format!("{}.toml", string_of(&op["n"])));
            if op["content"].is_null() {
                let _ = std::fs::remove_file(&tp);
            } else {
                std::fs::write(&tp, bytes_of(&op["content"])).unwrap();
            }
            json!({"post": abstract_store(layers, names)})
        }
        "handle" => {
            let name = LayerName::from_str(&string_of(&op["n"])).unwrap();
            let (res, calls) = if op["layer"]["m"] == "V" {
                handle::<V>(ctx, &name, &op["layer"], scratch, format!("{opi}"), probes)
            } else {
                handle::<GenericMetadata>(ctx, &name, &op["layer"], scratch, format!("{opi}"), probes)
            };
            json!({"res": res, "calls": calls, "post": abstract_store(layers, names)})
        }
        other => panic!("unknown op {other}"),
    }
}

pub fn run(case: &Value) -> Value {
    let root = fsutil::sandbox(&case["id"]);
    let layers = root.join("layers");
    let scratch = root.join("scratch");
    std::fs::create_dir_all(&layers).unwrap();
    std::fs::create_dir_all(&scratch).unwrap();
    let names: Vec<String> = case["names"].as_array().unwrap().iter().map(string_of).collect();
    let ctx = context(&layers);
    let mut steps = vec![];
    for (opi, op) in case["ops"].as_array().unwrap().iter().enumerate() {
        steps.push(step(&ctx, &layers, &scratch, &names, opi, op, &case["probes"]));
    }
    fsutil::destroy(&root);
    json!({"id": case["id"], "steps": steps})
}
