//! C01: histories of the struct layer API (BuildContext::cached_layer / uncached_layer, LayerRef
//! writers) over a real layers directory, with a simulated lifecycle restore between builds.
//! After every operation the layers directory is abstracted per layer name.
use crate::c04::layer_env_of;
use crate::dump;
use crate::fsutil;
use crate::util::*;
use libcnb::build::{BuildContext, BuildResult};
use libcnb::data::buildpack::ComponentBuildpackDescriptor;
use libcnb::data::buildpack_plan::BuildpackPlan;
use libcnb::data::layer::LayerName;
use libcnb::data::layer_content_metadata::LayerContentMetadata;
use libcnb::data::sbom::SbomFormat;
use libcnb::detect::{DetectContext, DetectResult};
use libcnb::generic::{GenericMetadata, GenericPlatform};
use libcnb::layer::{
    CachedLayerDefinition, EmptyLayerCause, InvalidMetadataAction, LayerRef, LayerState, RestoredLayerAction, UncachedLayerDefinition,
};
use libcnb::sbom::Sbom;
use libcnb::{Buildpack, Env, Target};
use serde::{Deserialize, Serialize};
use serde_json::{Value, json};
use std::cell::RefCell;
use std::os::unix::ffi::OsStrExt;
use std::os::unix::fs::PermissionsExt;
use std::path::{Path, PathBuf};
use std::str::FromStr;

#[derive(Debug)]
pub struct BpError;
impl std::fmt::Display for BpError {
    fn fmt(&self, f: &mut std::fmt::Formatter<'_>) -> std::fmt::Result {
        write!(f, "injected buildpack error")
    }
}
impl std::error::Error for BpError {}

pub struct TestBp;
impl Buildpack for TestBp {
    type Platform = GenericPlatform;
    type Metadata = GenericMetadata;
    type Error = BpError;
    fn detect(&self, _: DetectContext<Self>) -> libcnb::Result<DetectResult, Self::Error> {
        unreachable!()
    }
    fn build(&self, _: BuildContext<Self>) -> libcnb::Result<BuildResult, Self::Error> {
        unreachable!()
    }
}

#[derive(Serialize, Deserialize, Debug, Clone)]
struct V {
    version: String,
}

pub fn context(layers_dir: &Path) -> BuildContext<TestBp> {
    let descriptor: ComponentBuildpackDescriptor<GenericMetadata> = toml::from_str(
        "api = \"0.10\"\n[buildpack]\nid = \"verif/c01\"\nversion = \"0.0.1\"\n",
    )
    .unwrap();
    BuildContext {
        layers_dir: layers_dir.to_path_buf(),
        app_dir: layers_dir.parent().unwrap().join("app"),
        buildpack_dir: layers_dir.parent().unwrap().join("bp"),
        target: Target { os: "linux".into(), arch: "amd64".into(), arch_variant: None, distro_name: "x".into(), distro_version: "1".into() },
        platform: GenericPlatform::new(Env::new()),
        buildpack_plan: BuildpackPlan { entries: vec![] },
        buildpack_descriptor: descriptor,
        store: None,
    }
}

fn table_of(v: &Value) -> Option<toml::Table> {
    if v.is_null() { None } else { Some(hash_order(toml::from_str(&string_of(v)).expect("metadata toml"))) }
}

fn sbom_format(i: u64) -> SbomFormat {
    match i {
        0 => SbomFormat::CycloneDxJson,
        1 => SbomFormat::SpdxJson,
        _ => SbomFormat::SyftJson,
    }
}

/// per layer name: dir tree, toml content, sbom files; plus unexpected entries
pub fn abstract_store(layers: &Path, names: &[String]) -> Value {
    if std::env::var_os("VERIF_NO_SNAPSHOT").is_some() {
        return Value::Null; // fault-injection child: the parent takes the snapshot
    }
    let mut out = serde_json::Map::new();
    let mut expected: Vec<String> = vec![];
    for n in names {
        let dir = layers.join(n);
        let dirv = if std::fs::symlink_metadata(&dir).is_ok_and(|m| m.is_dir()) { fsutil::snapshot(&dir) } else { Value::Null };
        expected.push(n.clone());
        let tp = layers.join(format!("{n}.toml"));
        expected.push(format!("{n}.toml"));
        let tomlv = match std::fs::read(&tp) {
            Err(_) => Value::Null,
            Ok(bytes) => match String::from_utf8(bytes.clone()).ok().and_then(|s| toml::from_str::<toml::Table>(&s).ok()) {
                Some(t) => json!({"doc": dump::tbl(&t)}),
                None => json!({"raw": json_bytes(&bytes)}),
            },
        };
        let mut sboms = vec![];
        for sfx in ["cdx.json", "spdx.json", "syft.json"] {
            let f = format!("{n}.sbom.{sfx}");
            expected.push(f.clone());
            if let Ok(b) = std::fs::read(layers.join(&f)) {
                sboms.push(json!([json_bytes(sfx.as_bytes()), json_bytes(&b)]));
            }
        }
        out.insert(n.clone(), json!({"dir": dirv, "toml": tomlv, "sboms": sboms}));
    }
    let mut extra = vec![];
    if let Ok(rd) = std::fs::read_dir(layers) {
        for e in rd.flatten() {
            let f = e.file_name().to_string_lossy().to_string();
            if !expected.contains(&f) {
                extra.push(f);
            }
        }
    }
    // top-level entries that are symbolic links (reading through them above cannot tell a dangling one from none)
    let mut links = vec![];
    if let Ok(rd) = std::fs::read_dir(layers) {
        for e in rd.flatten() {
            if let Ok(t) = std::fs::read_link(e.path()) {
                links.push(json!([e.file_name().to_string_lossy(), t.to_string_lossy()]));
            }
        }
    }
    links.sort_by_key(ToString::to_string);
    json!({"layers": out, "extra": extra, "links": links})
}

/// the CNB lifecycle between two builds, as far as the layers directory is concerned
pub fn restore(layers: &Path, names: &[String]) {
    for n in names {
        let dir = layers.join(n);
        let tp = layers.join(format!("{n}.toml"));
        let parsed = std::fs::read_to_string(&tp).ok().and_then(|s| toml::from_str::<LayerContentMetadata>(&s).ok());
        let (keep_dir, keep_toml) = match &parsed {
            Some(lcm) => match lcm.types {
                Some(t) if t.cache => (true, true),
                Some(t) if t.launch => (false, true),
                _ => (false, false),
            },
            None => (false, false),
        };
        if !keep_dir {
            fsutil::destroy(&dir);
            for sfx in ["cdx.json", "spdx.json", "syft.json"] {
                let _ = std::fs::remove_file(layers.join(format!("{n}.sbom.{sfx}")));
            }
        }
        if keep_toml {
            let lcm = parsed.unwrap();
            let stripped = LayerContentMetadata { types: None, metadata: lcm.metadata };
            std::fs::write(&tp, toml::to_string(&stripped).unwrap()).unwrap();
        } else {
            let _ = std::fs::remove_file(&tp);
        }
    }
}

enum Ref {
    Cached(LayerRef<TestBp, u32, u32>),
    Uncached(LayerRef<TestBp, (), ()>),
}

fn state_json<A: Copy + Into<u64>, C: Copy + Into<u64>>(s: &LayerState<A, C>) -> Value {
    match s {
        LayerState::Restored { cause } => json!({"s": "restored", "c": (*cause).into()}),
        LayerState::Empty { cause: EmptyLayerCause::NewlyCreated } => json!({"s": "empty_new"}),
        LayerState::Empty { cause: EmptyLayerCause::InvalidMetadataAction { cause } } => json!({"s": "empty_invalid", "c": (*cause).into()}),
        LayerState::Empty { cause: EmptyLayerCause::RestoredLayerAction { cause } } => json!({"s": "empty_restored", "c": (*cause).into()}),
    }
}

fn err_json<E: std::fmt::Debug>(e: &libcnb::Error<E>) -> Value {
    use libcnb::layer::{LayerError, WriteLayerError};
    let k = match e {
        libcnb::Error::BuildpackError(_) => "buildpack",
        libcnb::Error::LayerError(le) => match le {
            LayerError::ReadLayerError(_) => "read_layer",
            LayerError::CouldNotReadGenericLayerMetadata(_) => "generic_meta",
            LayerError::WriteLayerError(w) => match w {
                WriteLayerError::WriteLayerMetadataError(_) => "write_meta",
                other if other.to_string().starts_with("Layer doesn't exist") => "missing_layer",
                other if other.to_string().starts_with("Couldn't find exec.d file") => "missing_execd",
                _ => "write_io",
            },
            LayerError::DeleteLayerError(_) => "delete",
            LayerError::CouldNotReadLayerAfterCreate(_) => "after_create",
            _ => "other",
        },
        _ => "other",
    };
    json!({"err": k, "text": format!("{e:?}").chars().take(200).collect::<String>()})
}

/// one operation of a history; returns what was observed
pub fn step(ctx: &BuildContext<TestBp>, layers: &Path, scratch: &Path, names: &[String], opi: usize, op: &Value) -> Value {
    let layers = layers.to_path_buf();
    let scratch = scratch.to_path_buf();
        match op["op"].as_str().unwrap() {
            "restore" => {
                restore(&layers, &names);
                return json!({"post": abstract_store(&layers, &names)});
            }
            "corrupt" => {
                let tp = layers.join(format!("{}.toml", string_of(&op["n"])));
                if op["content"].is_null() {
                    let _ = std::fs::remove_file(&tp);
                } else {
                    std::fs::write(&tp, bytes_of(&op["content"])).unwrap();
                }
                return json!({"post": abstract_store(&layers, &names)});
            }
            "req" => {
                let name = LayerName::from_str(&string_of(&op["n"])).unwrap();
                let q = &op["q"];
                let calls: RefCell<Vec<Value>> = RefCell::new(vec![]);
                let (res, lref): (Value, Option<Ref>) = if q["kind"] == "cached" {
                    let inv = &q["inv"];
                    let resd = &q["res"];
                    let res_fn = |seen: Value| -> Result<(RestoredLayerAction, u32), BpError> {
                        calls.borrow_mut().push(json!({"cb": "restored", "md": seen}));
                        let c = u32::try_from(resd["cause"].as_u64().unwrap_or(0)).unwrap();
                        match resd["d"].as_str().unwrap() {
                            "keep" => Ok((RestoredLayerAction::KeepLayer, c)),
                            "delete" => Ok((RestoredLayerAction::DeleteLayer, c)),
                            _ => Err(BpError),
                        }
                    };
                    let inv_seen = |g: &GenericMetadata| calls.borrow_mut().push(json!({"cb": "invalid", "md": dump::generic(g)}));
                    let c_inv = u32::try_from(inv["cause"].as_u64().unwrap_or(0)).unwrap();
                    let r = if q["m"] == "V" {
                        ctx.cached_layer(
                            &name,
                            CachedLayerDefinition {
                                build: q["build"] == true,
                                launch: q["launch"] == true,
                                invalid_metadata_action: &|g: &GenericMetadata| -> Result<(InvalidMetadataAction<V>, u32), BpError> {
                                    inv_seen(g);
                                    match inv["d"].as_str().unwrap() {
                                        "delete" => Ok((InvalidMetadataAction::DeleteLayer, c_inv)),
                                        "replace" => Ok((InvalidMetadataAction::ReplaceMetadata(V { version: string_of(&inv["version"]) }), c_inv)),
                                        // a callback that looks at what it is shown: metadata it recognises is migrated, anything else
                                        // means the layer is thrown away (used by the C12 fault scenarios)
                                        "migrate" if g.as_ref().is_some_and(|t| !t.is_empty()) => {
                                            Ok((InvalidMetadataAction::ReplaceMetadata(V { version: string_of(&inv["version"]) }), c_inv))
                                        }
                                        "migrate" => Ok((InvalidMetadataAction::DeleteLayer, c_inv)),
                                        _ => Err(BpError),
                                    }
                                },
                                restored_layer_action: &|m: &V, p: &Path| {
                                    assert_eq!(p, layers.join(name.as_str()));
                                    let mut t = toml::Table::new();
                                    t.insert("version".into(), toml::Value::String(m.version.clone()));
                                    res_fn(dump::generic(&Some(t)))
                                },
                            },
                        )
                    } else {
                        ctx.cached_layer(
                            &name,
                            CachedLayerDefinition {
                                build: q["build"] == true,
                                launch: q["launch"] == true,
                                invalid_metadata_action: &|g: &GenericMetadata| -> Result<(InvalidMetadataAction<GenericMetadata>, u32), BpError> {
                                    inv_seen(g);
                                    match inv["d"].as_str().unwrap() {
                                        "delete" => Ok((InvalidMetadataAction::DeleteLayer, c_inv)),
                                        "replace" => Ok((InvalidMetadataAction::ReplaceMetadata(table_of(&inv["md"])), c_inv)),
                                        _ => Err(BpError),
                                    }
                                },
                                restored_layer_action: &|m: &GenericMetadata, p: &Path| {
                                    assert_eq!(p, layers.join(name.as_str()));
                                    res_fn(dump::generic(m))
                                },
                            },
                        )
                    };
                    match r {
                        Ok(lr) => (state_json(&lr.state), Some(Ref::Cached(lr))),
                        Err(e) => (err_json(&e), None),
                    }
                } else {
                    match ctx.uncached_layer(&name, UncachedLayerDefinition { build: q["build"] == true, launch: q["launch"] == true }) {
                        Ok(lr) => {
                            let st = match &lr.state {
                                LayerState::Restored { .. } => json!({"s": "restored", "c": 0}),
                                LayerState::Empty { cause: EmptyLayerCause::NewlyCreated } => json!({"s": "empty_new"}),
                                LayerState::Empty { cause: EmptyLayerCause::InvalidMetadataAction { .. } } => json!({"s": "empty_invalid", "c": 0}),
                                LayerState::Empty { cause: EmptyLayerCause::RestoredLayerAction { .. } } => json!({"s": "empty_restored", "c": 0}),
                            };
                            (st, Some(Ref::Uncached(lr)))
                        }
                        Err(e) => (err_json(&e), None),
                    }
                };
                let post = abstract_store(&layers, &names);
                let mut writes = vec![];
                if let Some(lref) = &lref {
                    for (wi, w) in op["writes"].as_array().unwrap().iter().enumerate() {
                        macro_rules! on_ref {
                            ($r:ident => $e:expr) => {
                                match lref {
                                    Ref::Cached($r) => $e.map_err(|e| err_json(&e)),
                                    Ref::Uncached($r) => $e.map_err(|e| err_json(&e)),
                                }
                            };
                        }
                        let r: Result<(), Value> = match w["w"].as_str().unwrap() {
                            "meta" => {
                                let md = table_of(&w["md"]);
                                on_ref!(r => r.write_metadata(md.clone()))
                            }
                            "env" => {
                                let le = layer_env_of(&w["ins"]);
                                let res = on_ref!(r => r.write_env(&le));
                                // LayerRef::read_env is by contract LayerEnv::read_from_layer_dir (decided by C03/C10) on the
                                // layer's own directory; a difference is a failure of the code under test (reported as panic)
                                // (not under fault injection: the two reads are separate calls and only one of them is failed)
                                if std::env::var_os("VERIF_FAULT_K").is_some() {
                                    writes.push(json!({"ok": res.is_ok(), "err": res.err(), "post": abstract_store(&layers, &names)}));
                                    continue;
                                }
                                let via_ref = on_ref!(r => r.read_env());
                                let base = match lref {
                                    Ref::Cached(r) => r.path(),
                                    Ref::Uncached(r) => r.path(),
                                };
                                let direct = libcnb::layer_env::LayerEnv::read_from_layer_dir(&base);
                                let same = match (&via_ref, &direct) {
                                    (Ok(a), Ok(b)) => a == b,
                                    (Err(_), Err(_)) => true,
                                    _ => false,
                                };
                                assert!(same, "LayerRef::read_env differs from LayerEnv::read_from_layer_dir on {}", base.display());
                                res
                            }
                            "sboms" => {
                                let sb: Vec<Sbom> = w["l"].as_array().unwrap().iter().map(|x| Sbom::from_bytes(sbom_format(x[0].as_u64().unwrap()), bytes_of(&x[1]))).collect();
                                on_ref!(r => r.write_sboms(&sb))
                            }
                            "execd" => {
                                let mut progs: Vec<(String, PathBuf)> = vec![];
                                for (pi, p) in w["progs"].as_array().unwrap().iter().enumerate() {
                                    let mut src = scratch.join(format!("src_{opi}_{wi}_{pi}"));
                                    if let Some(rel) = p[1].get("layer_rel") {
                                        // the source is a file of the layer itself (a program registered again from exec.d)
                                        let base = match lref {
                                            Ref::Cached(r) => r.path(),
                                            Ref::Uncached(r) => r.path(),
                                        };
                                        src = fsutil::path_of(&base, rel);
                                    } else if !p[1].is_null() {
                                        std::fs::write(&src, bytes_of(&p[1][1])).unwrap();
                                        crate::util::age_source(&src);
                                        std::fs::set_permissions(&src, std::fs::Permissions::from_mode(u32::try_from(p[1][0].as_u64().unwrap()).unwrap())).unwrap();
                                    }
                                    progs.push((string_of(&p[0]), src));
                                }
                                let res = on_ref!(r => r.write_exec_d_programs(progs.clone()));
                                // the sources change after they were registered (a tool rebuilt in place): what the layer
                                // holds is what was registered
                                for (pi, p) in w["progs"].as_array().unwrap().iter().enumerate() {
                                    if p[1].is_array() {
                                        use std::io::Write;
                                        let src = scratch.join(format!("src_{opi}_{wi}_{pi}"));
                                        if let Ok(mut f) = std::fs::OpenOptions::new().write(true).truncate(true).open(&src) {
                                            let _ = f.write_all(b"CHANGED-AFTER-REGISTRATION");
                                        }
                                    }
                                }
                                res
                            }
                            "file" => {
                                let base = match lref {
                                    Ref::Cached(r) => r.path(),
                                    Ref::Uncached(r) => r.path(),
                                };
                                let p = fsutil::path_of(&base, &w["rel"]);
                                std::fs::create_dir_all(p.parent().unwrap()).and_then(|()| std::fs::write(&p, bytes_of(&w["data"]))).map_err(|e| json!({"err": "write_io", "text": e.to_string()}))
                            }
                            "link" => {
                                let base = match lref {
                                    Ref::Cached(r) => r.path(),
                                    Ref::Uncached(r) => r.path(),
                                };
                                let p = fsutil::path_of(&base, &w["rel"]);
                                std::fs::create_dir_all(p.parent().unwrap())
                                    .and_then(|()| std::os::unix::fs::symlink(std::ffi::OsStr::from_bytes(&bytes_of(&w["target"])), &p))
                                    .map_err(|e| json!({"err": "write_io", "text": e.to_string()}))
                            }
                            other => panic!("unknown write {other}"),
                        };
                        writes.push(json!({"ok": r.is_ok(), "err": r.err(), "post": abstract_store(&layers, &names)}));
                    }
                }
                return json!({"res": res, "calls": calls.into_inner(), "post": post, "writes": writes});
            }
            other => panic!("unknown op {other}"),
        }
}

pub fn run(case: &Value) -> Value {
    let root = fsutil::sandbox(&case["id"]);
    let layers = root.join("layers");
    let scratch = root.join("scratch");
    std::fs::create_dir_all(&layers).unwrap();
    std::fs::create_dir_all(&scratch).unwrap();
    let names: Vec<String> = case["names"].as_array().unwrap().iter().map(string_of).collect();
    let ctx = context(&layers);
    let mut steps = vec![];
    for (opi, op) in case["ops"].as_array().unwrap().iter().enumerate() {
        steps.push(step(&ctx, &layers, &scratch, &names, opi, op));
    }
    fsutil::destroy(&root);
    json!({"id": case["id"], "steps": steps})
}
