//! C08: strict parsing of CNB documents through the public Deserialize impls.
use crate::dump;
use crate::util::*;
use libcnb_data::buildpack::BuildpackDescriptor;
use libcnb_data::buildpack_plan::BuildpackPlan;
use libcnb_data::generic::GenericMetadata;
use libcnb_data::launch::Launch;
use libcnb_data::layer_content_metadata::LayerContentMetadata;
use libcnb_data::package_descriptor::PackageDescriptor;
use libcnb_data::store::Store;
use serde_json::{Value, json};

pub fn run(case: &Value) -> Value {
    let text = string_of(&case["text"]);
    let parsed: Option<Value> = match case["ty"].as_str().unwrap() {
        "buildpack" => toml::from_str::<BuildpackDescriptor<GenericMetadata>>(&text).ok().map(|d| dump::descriptor(&d)),
        "plan" => toml::from_str::<BuildpackPlan>(&text).ok().map(|d| dump::plan(&d)),
        "layer" => toml::from_str::<LayerContentMetadata<GenericMetadata>>(&text).ok().map(|d| dump::layer(&d)),
        "launch" => toml::from_str::<Launch>(&text).ok().map(|d| dump::launch(&d)),
        "store" => toml::from_str::<Store>(&text).ok().map(|d| dump::store(&d)),
        "package" => toml::from_str::<PackageDescriptor>(&text).ok().map(|d| dump::package(&d)),
        t => panic!("ty {t}"),
    };
    // what the toml crate itself makes of the text (tree level), for the text-layer check
    let tree = toml::from_str::<toml::Table>(&text).ok().map(|t| dump::tbl(&t));
    json!({"id": case["id"], "parsed": parsed, "tree": tree})
}
