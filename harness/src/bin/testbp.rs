//! Test buildpack for C05 / C06 / C20: behaviour is chosen by a control file, contexts are dumped.
//! $VERIF_BP_CONTROL: JSON control file; $VERIF_BP_OUT: directory for markers and dumps.
use libcnb::build::{BuildContext, BuildResult, BuildResultBuilder};
use libcnb::data::build_plan::BuildPlanBuilder;
use libcnb::data::launch::{LaunchBuilder, ProcessBuilder};
use libcnb::data::sbom::SbomFormat;
use libcnb::data::store::Store;
use libcnb::detect::{DetectContext, DetectResult, DetectResultBuilder};
use libcnb::generic::{GenericMetadata, GenericPlatform};
use libcnb::sbom::Sbom;
use libcnb::{Buildpack, Error, Platform, Target};
use serde_json::{Value, json};
use std::io::Write;
use std::os::unix::ffi::OsStrExt;
use std::path::{Path, PathBuf};

#[allow(dead_code)]
#[path = "../dump.rs"]
mod dump;
#[allow(dead_code)]
#[path = "../util.rs"]
mod util;

#[derive(Debug)]
struct BpError;

struct TestBuildpack;

fn out_dir() -> PathBuf {
    PathBuf::from(std::env::var("VERIF_BP_OUT").expect("VERIF_BP_OUT"))
}
fn control() -> Value {
    serde_json::from_str(&std::fs::read_to_string(std::env::var("VERIF_BP_CONTROL").expect("VERIF_BP_CONTROL")).unwrap()).unwrap()
}
fn marker(name: &str) {
    let mut f = std::fs::OpenOptions::new().create(true).append(true).open(out_dir().join(name)).unwrap();
    f.write_all(b"x").unwrap();
}
fn p(path: &Path) -> Value {
    util::json_bytes(path.as_os_str().as_bytes())
}
fn target(t: &Target) -> Value {
    json!({"os": util::json_bytes(t.os.as_bytes()), "arch": util::json_bytes(t.arch.as_bytes()),
           "arch_variant": t.arch_variant.as_ref().map(|v| util::json_bytes(v.as_bytes())),
           "distro_name": util::json_bytes(t.distro_name.as_bytes()), "distro_version": util::json_bytes(t.distro_version.as_bytes())})
}
fn platform(pf: &GenericPlatform) -> Value {
    let mut pairs: Vec<(Vec<u8>, Vec<u8>)> = pf.env().iter().map(|(k, v)| (k.as_bytes().to_vec(), v.as_bytes().to_vec())).collect();
    pairs.sort();
    json!(pairs.iter().map(|(k, v)| json!([util::json_bytes(k), util::json_bytes(v)])).collect::<Vec<_>>())
}

impl Buildpack for TestBuildpack {
    type Platform = GenericPlatform;
    type Metadata = GenericMetadata;
    type Error = BpError;

    fn detect(&self, context: DetectContext<Self>) -> libcnb::Result<DetectResult, Self::Error> {
        marker("detect_entered");
        let d = json!({"app_dir": p(&context.app_dir), "buildpack_dir": p(&context.buildpack_dir),
                       "target": target(&context.target), "platform": platform(&context.platform),
                       "descriptor": dump::component(&context.buildpack_descriptor)});
        std::fs::write(out_dir().join("detect_context.json"), d.to_string()).unwrap();
        let c = control();
        match c["detect"].as_str().unwrap_or("pass") {
            "pass" => DetectResultBuilder::pass().build(),
            "pass_plan" => DetectResultBuilder::pass()
                .build_plan(BuildPlanBuilder::new().provides("verif").requires("verif").or().provides("alt").build())
                .build(),
            // a plan whose first alternative is empty, and an entirely empty plan: both must be written
            "pass_plan_or" => DetectResultBuilder::pass()
                .build_plan(BuildPlanBuilder::new().or().provides("node").requires("node").build())
                .build(),
            "pass_plan_empty" => DetectResultBuilder::pass().build_plan(BuildPlanBuilder::new().build()).build(),
            // several entries per alternative: exposes any order-sensitivity of the plan writer (C20)
            "pass_plan_multi" => DetectResultBuilder::pass()
                .build_plan(
                    BuildPlanBuilder::new()
                        .provides("p1").provides("p2").provides("p3").provides("p4").provides("p5")
                        .requires("r1").requires("r2").requires("r3")
                        .or()
                        .provides("q1").provides("q2").provides("q3").requires("s1").requires("s2")
                        .build(),
                )
                .build(),
            // requirement metadata assembled from a HashMap, as buildpacks do (C20): the written plan must not
            // depend on the map's per-process iteration order
            "pass_plan_meta" => {
                let hm: std::collections::HashMap<String, String> = (0..7).map(|i| (format!("key{i}"), format!("v{i}"))).collect();
                let mut r = libcnb::data::build_plan::Require::new("node");
                r.metadata(hm).expect("a map serialises as a table");
                DetectResultBuilder::pass().build_plan(BuildPlanBuilder::new().provides("node").requires(r).build()).build()
            }
            // the same dependency required twice in one alternative (with different metadata) among others: every
            // requirement is written, in the order given (C20)
            "pass_plan_dup" => {
                let req = |n: &str, k: &str, v: &str| {
                    let mut r = libcnb::data::build_plan::Require::new(n);
                    let mut t = toml::Table::new();
                    t.insert(k.to_string(), toml::Value::String(v.to_string()));
                    r.metadata(t).expect("a table serialises as a table");
                    r
                };
                DetectResultBuilder::pass()
                    .build_plan(
                        BuildPlanBuilder::new()
                            .provides("jdk")
                            .requires("node").requires(req("jdk", "version", "17")).requires("maven").requires("gradle")
                            .requires(req("jdk", "build", "true")).requires("python")
                            .or()
                            .requires("a").requires("b").requires("a").requires("c").requires("d")
                            // alternatives that repeat an earlier one (and an empty one, twice) stay where they were put
                            .or().provides("node").or().provides("python").or().provides("ruby").or().provides("python")
                            .or().or().provides("go").or()
                            .build(),
                    )
                    .build()
            }
            "fail" => DetectResultBuilder::fail().build(),
            _ => Err(Error::BuildpackError(BpError)),
        }
    }

    fn build(&self, context: BuildContext<Self>) -> libcnb::Result<BuildResult, Self::Error> {
        marker("build_entered");
        let d = json!({"app_dir": p(&context.app_dir), "buildpack_dir": p(&context.buildpack_dir),
                       "layers_dir": p(&context.layers_dir),
                       "target": target(&context.target), "platform": platform(&context.platform),
                       "plan": dump::plan(&context.buildpack_plan),
                       "store": context.store.as_ref().map(dump::store),
                       "descriptor": dump::component(&context.buildpack_descriptor)});
        std::fs::write(out_dir().join("build_context.json"), d.to_string()).unwrap();
        let c = control();
        let b = &c["build"];
        if b["error"].as_bool().unwrap_or(false) {
            return Err(Error::BuildpackError(BpError));
        }
        let mut r = BuildResultBuilder::new();
        if b["launch"].as_bool().unwrap_or(false) {
            r = r.launch(LaunchBuilder::new().process(ProcessBuilder::new("web".parse().unwrap(), ["run"]).default(true).build()).build());
        }
        if b["launch"] == "bad_wd" {
            use std::os::unix::ffi::OsStrExt as _;
            let wd = std::path::PathBuf::from(std::ffi::OsStr::from_bytes(b"dist/caf\xe9"));
            r = r.launch(
                LaunchBuilder::new()
                    .process(ProcessBuilder::new("web".parse().unwrap(), ["run"]).working_directory(libcnb::data::launch::WorkingDirectory::Directory(wd)).build())
                    .build(),
            );
        }
        if b["launch"] == "rich" {
            // several processes, slices and labels -- one label key set twice, as a placeholder refined later --
            // always added in this order: launch.toml must be the same bytes in every process
            let mut lb = LaunchBuilder::new();
            for (i, p) in ["web", "worker", "release", "console"].iter().enumerate() {
                // (two process types flagged default: what the buildpack said is what is written)
                lb.process(ProcessBuilder::new(p.parse().unwrap(), ["run", p]).default(i == 0 || i == 2).build());
            }
            for (k, v) in [("com.example.version", "0"), ("org.a", "1"), ("zz", "2"), ("com.example.version", "1.2.3"), ("b", "3"), ("a.b.c", "4")] {
                lb.label(libcnb::data::launch::Label { key: k.to_string(), value: v.to_string() });
            }
            lb.slice(libcnb::data::launch::Slice { path_globs: ["a/**", "b", "zz/*.rb", "m/n", "c.txt", "0"].iter().map(ToString::to_string).collect() });
            lb.slice(libcnb::data::launch::Slice { path_globs: vec!["c".to_string()] });
            r = r.launch(lb.build());
        }
        if b["store"] == "empty" {
            r = r.store(Store::default());
        }
        if b["store"] == "rich" {
            // store metadata assembled from HashMaps (C20)
            let inner: std::collections::HashMap<String, i64> = (0..6).map(|i| (format!("n{i}"), i)).collect();
            let mut hm: std::collections::HashMap<String, toml::Value> = (0..6).map(|i| (format!("key{i}"), toml::Value::String(format!("v{i}")))).collect();
            hm.insert("nested".into(), toml::Value::try_from(inner).unwrap());
            r = r.store(Store { metadata: hm.into_iter().collect() });
        }
        if b["store"].as_bool().unwrap_or(false) {
            let mut t = toml::Table::new();
            t.insert("k".into(), toml::Value::String("new".into()));
            r = r.store(Store { metadata: t });
        }
        let fmt = |s: &str| match s {
            "cdx" => SbomFormat::CycloneDxJson,
            "spdx" => SbomFormat::SpdxJson,
            _ => SbomFormat::SyftJson,
        };
        for s in b["build_sboms"].as_array().cloned().unwrap_or_default() {
            r = r.build_sbom(Sbom::from_bytes(fmt(s.as_str().unwrap()), format!("build-{}", s.as_str().unwrap()).into_bytes()));
        }
        for s in b["launch_sboms"].as_array().cloned().unwrap_or_default() {
            r = r.launch_sbom(Sbom::from_bytes(fmt(s.as_str().unwrap()), format!("launch-{}", s.as_str().unwrap()).into_bytes()));
        }
        r.build()
    }

    fn on_error(&self, _error: Error<Self::Error>) {
        marker("on_error");
    }
}

/// a second buildpack driven by the same process before the one under test (a host program that runs several
/// buildpacks, a test binary): nothing of it may show in the later call
struct PrimingBuildpack;
impl Buildpack for PrimingBuildpack {
    type Platform = GenericPlatform;
    type Metadata = GenericMetadata;
    type Error = BpError;
    fn detect(&self, _context: DetectContext<Self>) -> libcnb::Result<DetectResult, Self::Error> {
        DetectResultBuilder::fail().build()
    }
    fn build(&self, _context: BuildContext<Self>) -> libcnb::Result<BuildResult, Self::Error> {
        BuildResultBuilder::new().build()
    }
}

fn main() {
    if let Some(decoy) = std::env::var_os("VERIF_BP_PRIME") {
        let decoy = PathBuf::from(decoy);
        let real = std::env::var_os("CNB_BUILDPACK_DIR");
        // (single-threaded at this point)
        unsafe { std::env::set_var("CNB_BUILDPACK_DIR", &decoy) };
        let _ = libcnb::libcnb_runtime_detect(&PrimingBuildpack, libcnb::DetectArgs { platform_dir_path: decoy.clone(), build_plan_path: decoy.join("plan.toml") });
        match real {
            Some(v) => unsafe { std::env::set_var("CNB_BUILDPACK_DIR", v) },
            None => unsafe { std::env::remove_var("CNB_BUILDPACK_DIR") },
        }
    }
    libcnb::libcnb_runtime(&TestBuildpack);
}
