//! Stand-in for the `docker` and `pack` executables: logs its argv (and, for `pack build`, the
//! contents of the --path directory), fails when the fault plan says so, otherwise prints what
//! libcnb-test needs to go on.
use std::io::Write;
use std::os::unix::ffi::OsStrExt;
use std::path::Path;

fn listing(root: &Path, rel: &Path, out: &mut Vec<(String, Vec<u8>)>) {
    let Ok(rd) = std::fs::read_dir(root.join(rel)) else { return };
    for e in rd.flatten() {
        let p = rel.join(e.file_name());
        let ft = e.file_type().unwrap();
        if ft.is_dir() {
            out.push((format!("{}/", p.display()), vec![]));
            listing(root, &p, out);
        } else {
            out.push((p.display().to_string(), std::fs::read(root.join(&p)).unwrap_or_default()));
        }
    }
}

fn main() {
    let args: Vec<std::ffi::OsString> = std::env::args_os().collect();
    let state = std::path::PathBuf::from(std::env::var_os("VERIF_LT_STATE").expect("VERIF_LT_STATE"));
    let prog = Path::new(&args[0]).file_name().unwrap().to_string_lossy().to_string();
    let count_file = state.join("count");
    let n: u64 = std::fs::read_to_string(&count_file).ok().and_then(|s| s.trim().parse().ok()).unwrap_or(0);
    std::fs::write(&count_file, format!("{}", n + 1)).unwrap();
    let plan: serde_json::Value =
        serde_json::from_str(&std::fs::read_to_string(state.join("plan.json")).unwrap_or_else(|_| "{}".into())).unwrap();
    let fail = plan["fail"].as_array().is_some_and(|a| a.iter().any(|x| x.as_u64() == Some(n)));

    let argv: Vec<Vec<u64>> = args[1..].iter().map(|a| a.as_bytes().iter().map(|b| u64::from(*b)).collect()).collect();
    let mut entry = serde_json::json!({"n": n, "prog": prog, "argv": argv, "failed": fail});
    if prog == "pack" && args.get(1).is_some_and(|a| a == "build") {
        if let Some(i) = args.iter().position(|a| a == "--path") {
            if let Some(p) = args.get(i + 1) {
                let mut l = vec![];
                listing(Path::new(p), Path::new(""), &mut l);
                l.sort();
                entry["path_listing"] = serde_json::json!(l);
                entry["path_is_dir"] = serde_json::json!(Path::new(p).is_dir());
            }
        }
    }
    if prog == "pack" && args.get(1).is_some_and(|a| a == "build") {
        // packaged buildpack directories handed over with --buildpack: their name, what else was packaged next to
        // them, and the dependency uris of the packaged package.toml
        let mut bps = vec![];
        for i in 0..args.len() {
            if args[i] == "--buildpack" {
                if let Some(p) = args.get(i + 1).map(Path::new).filter(|p| p.is_dir()) {
                    let mut sib: Vec<String> = p.parent().and_then(|d| std::fs::read_dir(d).ok()).map(|rd| rd.flatten().map(|e| e.file_name().to_string_lossy().to_string()).collect()).unwrap_or_default();
                    sib.sort();
                    bps.push(serde_json::json!({"name": p.file_name().map(|n| n.to_string_lossy().to_string()), "siblings": sib,
                        "has_descriptor": p.join("buildpack.toml").is_file(),
                        "package_toml": std::fs::read_to_string(p.join("package.toml")).ok()}));
                }
            }
        }
        entry["bp_dirs"] = serde_json::json!(bps);
    }
    let mut f = std::fs::OpenOptions::new().create(true).append(true).open(state.join("log.jsonl")).unwrap();
    writeln!(f, "{}", serde_json::to_string(&entry).unwrap()).unwrap();

    if fail {
        eprintln!("standin: injected failure of command #{n}");
        // optional bulk output of the failing command: 18000 bytes of a three-byte character, or 20000 ASCII bytes
        match plan["noise"].as_str() {
            Some("unicode") => {
                // three-byte characters; the two streams differ in length by one byte so that a cut at a fixed byte
                // distance from the end falls inside a character in at least one of them
                let s = "\u{2500}".repeat(6000);
                print!("{s}");
                eprint!("x{s}");
            }
            Some("ascii") => {
                let s = "x".repeat(20000);
                println!("{s}");
                eprintln!("{s}");
            }
            _ => {}
        }
        // the exit status of a failing command: 1 unless the plan says otherwise (docker uses 125 for errors of the
        // daemon, 126 / 127 for a command that cannot be invoked)
        std::process::exit(plan["exit_code"].as_i64().and_then(|c| i32::try_from(c).ok()).unwrap_or(1));
    }
    // `pack sbom download --output-dir D`: the real CLI creates D (and what is below) if it is not there
    if prog == "pack" && args.get(1).is_some_and(|a| a == "sbom") {
        if let Some(i) = args.iter().position(|a| a == "--output-dir") {
            if let Some(d) = args.get(i + 1) {
                let dir = Path::new(d).join("layers").join("sbom").join("launch").join("some_id");
                let _ = std::fs::create_dir_all(&dir);
                let _ = std::fs::write(dir.join("sbom.syft.json"), b"{}");
            }
        }
    }
    let sub = args.get(1).map(|a| a.to_string_lossy().to_string()).unwrap_or_default();
    match (prog.as_str(), sub.as_str()) {
        ("docker", "port") => println!("127.0.0.1:49153"),
        ("docker", "run") => println!("0123456789abcdef"),
        _ => println!("ok"),
    }
}
