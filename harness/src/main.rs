//! Correspondence harness: runs the real libcnb.rs code on generated cases.
//! usage: harness <stream> <cases.json> <observed.json>
use serde_json::Value;

mod c01;
mod c02;
mod c03;
mod c04;
mod c07;
mod c08;
mod c09;
mod c11;
mod c12;
mod c13;
mod c14;
mod c18;
mod c19;
mod c20;
mod dump;
mod fsops;
mod fsutil;
mod lt;
mod util;

/// A panic inside the code under test is an observation ("panic"), never a crash of the harness:
/// the driver reports the case as the failing input.
fn guard(case: &Value, f: fn(&Value) -> Value) -> Value {
    match std::panic::catch_unwind(std::panic::AssertUnwindSafe(|| f(case))) {
        Ok(v) => v,
        Err(e) => {
            let msg = e
                .downcast_ref::<String>()
                .cloned()
                .or_else(|| e.downcast_ref::<&str>().map(|s| (*s).to_string()))
                .unwrap_or_else(|| "non-string panic payload".to_string());
            serde_json::json!({"id": case["id"], "panic": msg})
        }
    }
}

fn main() {
    let args: Vec<String> = std::env::args().collect();
    if args.get(1).map(String::as_str) == Some("c19_child") {
        c19::child();
        return;
    }
    if args.get(1).map(String::as_str) == Some("c20_child") {
        c20::child();
        return;
    }
    if args.get(1).map(String::as_str) == Some("c12_child") {
        c12::child();
        return;
    }
    if args.get(1).map(String::as_str) == Some("lt_child") {
        lt::child();
        return;
    }
    if args.get(1).map(String::as_str) == Some("execd_child") {
        c07::execd_child();
        return;
    }
    if args.len() < 4 {
        eprintln!("usage: harness <stream> <cases.json> <observed.json>");
        std::process::exit(2);
    }
    let input: Value = serde_json::from_str(&std::fs::read_to_string(&args[2]).expect("read cases")).expect("parse cases");
    let cases = input["cases"].as_array().expect("cases array");
    let observed: Vec<Value> = match args[1].as_str() {
        "c01" => cases.iter().map(|c| guard(c, c01::run)).collect(),
        "c02" => cases.iter().map(|c| guard(c, c02::run)).collect(),
        "c03" => cases.iter().map(|c| guard(c, c03::run)).collect(),
        "c04" => cases.iter().map(|c| guard(c, c04::run)).collect(),
        "c07" => cases.iter().map(|c| guard(c, c07::run)).collect(),
        "c08" => cases.iter().map(|c| guard(c, c08::run)).collect(),
        "c09" => cases.iter().map(|c| guard(c, c09::run)).collect(),
        "c19" => cases.iter().map(|c| guard(c, c19::run)).collect(),
        "c20" => cases.iter().map(|c| guard(c, c20::run)).collect(),
        "fsops" => cases.iter().map(|c| guard(c, fsops::run)).collect(),
        "c11" => cases.iter().map(|c| guard(c, c11::run)).collect(),
        "c12" => cases.iter().map(|c| guard(c, c12::run)).collect(),
        "c13" => cases.iter().map(|c| guard(c, c13::run)).collect(),
        "c14" => cases.iter().map(|c| guard(c, c14::run)).collect(),
        "c18" => cases.iter().map(|c| guard(c, c18::run)).collect(),
        "lt" => cases.iter().map(|c| guard(c, lt::run)).collect(),
        other => {
            eprintln!("unknown stream {other}");
            std::process::exit(2);
        }
    };
    std::fs::write(&args[3], serde_json::to_string(&Value::Array(observed)).unwrap()).expect("write observed");
}
