//! Correspondence harness: runs the real libcnb.rs code on generated cases.
//! usage: harness <stream> <cases.json> <observed.json>
use serde_json::Value;

mod c01;
mod c02;
mod c03;
mod c04;
mod c07;
mod c08;
mod c09;
mod c11;
mod c12;
mod c13;
mod c14;
mod c18;
mod c19;
mod c20;
mod dump;
mod fsops;
mod fsutil;
mod lt;
mod util;

/// A panic inside the code under test is an observation ("panic"), never a crash of the harness:
/// the driver reports the case as the failing input.
fn guard(case: &Value, f: fn(&Value) -> Value) -> Value {
    match std::panic::catch_unwind(std::panic::AssertUnwindSafe(|| f(case))) {
        Ok(v) => v,
        Err(e) => {
            let msg = e
                .downcast_ref::<String>()
                .cloned()
                .or_else(|| e.downcast_ref::<&str>().map(|s| (*s).to_string()))
                .unwrap_or_else(|| "non-string panic payload".to_string());
            serde_json::json!({"id": case["id"], "panic": msg})
        }
    }
}

fn main() {
    let args: Vec<String> = std::env::args().collect();
    if args.get(1).map(String::as_str) == Some("c19_child") {
        c19::child();
        return;
    }
    if args.get(1).map(String::as_str) == Some("c20_child") {
        c20::child();
        return;
    }
    if args.get(1).map(String::as_str) == Some("c12_child") {
        c12::child();
        return;
    }
    if args.get(1).map(String::as_str) == Some("lt_child") {
        lt::child();
        return;
    }
    if args.get(1).map(String::as_str) == Some("execd_child") {
        c07::execd_child();
        return;
    }
    if args.len() < 4 {
        eprintln!("usage: harness <stream> <cases.json> <observed.json>");
        std::process::exit(2);
    }
    let input: Value = serde_json::from_str(&std::fs::read_to_string(&args[2]).expect("read cases")).expect("parse cases");
    let cases = input["cases"].as_array().expect("cases array");
    let run: fn(&Value) -> Value = match args[1].as_str() {
        "c01" => c01::run,
        "c02" => c02::run,
        "c03" => c03::run,
        "c04" => c04::run,
        "c07" => c07::run,
        "c08" => c08::run,
        "c09" => c09::run,
        "c19" => c19::run,
        "c20" => c20::run,
        "fsops" => fsops::run,
        "c11" => c11::run,
        "c12" => c12::run,
        "c13" => c13::run,
        "c14" => c14::run,
        "c18" => c18::run,
        "lt" => lt::run,
        other => {
            eprintln!("unknown stream {other}");
            std::process::exit(2);
        }
    };
    // one observation per line, flushed case by case: if the code under test takes the whole process down
    // (stack overflow, abort) the driver still knows which case did it -- the first one without a line
    use std::io::Write as _;
    let mut progress = std::fs::File::create(format!("{}.progress", args[3])).expect("create progress file");
    let mut observed: Vec<Value> = Vec::with_capacity(cases.len());
    for c in cases {
        writeln!(progress, "{}", c["id"]).expect("write progress");
        progress.flush().expect("flush progress");
        observed.push(guard(c, run));
    }
    std::fs::write(&args[3], serde_json::to_string(&Value::Array(observed)).unwrap()).expect("write observed");
}
