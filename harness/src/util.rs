use serde_json::{Value, json};
use std::ffi::{OsStr, OsString};
use std::os::unix::ffi::{OsStrExt, OsStringExt};

pub fn bytes_of(v: &Value) -> Vec<u8> {
    v.as_array().expect("bytes array").iter().map(|x| u8::try_from(x.as_u64().expect("byte")).expect("byte range")).collect()
}
pub fn os_of(v: &Value) -> OsString {
    OsString::from_vec(bytes_of(v))
}
pub fn string_of(v: &Value) -> String {
    String::from_utf8(bytes_of(v)).expect("utf8 string")
}
pub fn json_bytes(b: &[u8]) -> Value {
    json!(b.iter().map(|x| u64::from(*x)).collect::<Vec<u64>>())
}
pub fn json_os(s: &OsStr) -> Value {
    json_bytes(s.as_bytes())
}
