use serde_json::{Value, json};
use std::ffi::{OsStr, OsString};
use std::os::unix::ffi::{OsStrExt, OsStringExt};

pub fn bytes_of(v: &Value) -> Vec<u8> {
    v.as_array().expect("bytes array").iter().map(|x| u8::try_from(x.as_u64().expect("byte")).expect("byte range")).collect()
}
pub fn os_of(v: &Value) -> OsString {
    OsString::from_vec(bytes_of(v))
}
pub fn string_of(v: &Value) -> String {
    String::from_utf8(bytes_of(v)).expect("utf8 string")
}
pub fn json_bytes(b: &[u8]) -> Value {
    json!(b.iter().map(|x| u64::from(*x)).collect::<Vec<u64>>())
}
pub fn json_os(s: &OsStr) -> Value {
    json_bytes(s.as_bytes())
}


/// C20 runs every scenario in two processes whose inputs have the same CONTENT; attributes that are not
/// content are made to differ on purpose. Here: the modification time of the exec.d program sources the
/// test-side writes ($VERIF_SRC_MTIME = old | new), so that output depending on timestamps shows up.
pub fn age_source(path: &std::path::Path) {
    let when = match std::env::var("VERIF_SRC_MTIME").as_deref() {
        Ok("old") => std::time::SystemTime::UNIX_EPOCH + std::time::Duration::from_secs(86_400),
        Ok("new") => std::time::SystemTime::now() + std::time::Duration::from_secs(3_600),
        _ => return,
    };
    if let Ok(f) = std::fs::File::options().write(true).open(path) {
        let _ = f.set_modified(when);
    }
}

/// Rebuild a TOML table by inserting its keys in the iteration order of a `HashMap` (which differs from
/// process to process): buildpacks assemble metadata from hash maps, and what libcnb writes must not
/// depend on the order in which a table was filled (toml tables are sorted maps).
#[allow(dead_code)]
pub fn hash_order(t: toml::Table) -> toml::Table {
    fn value(v: toml::Value) -> toml::Value {
        match v {
            toml::Value::Table(t) => toml::Value::Table(hash_order(t)),
            toml::Value::Array(a) => toml::Value::Array(a.into_iter().map(value).collect()),
            o => o,
        }
    }
    let hm: std::collections::HashMap<String, toml::Value> = t.into_iter().map(|(k, v)| (k, value(v))).collect();
    hm.into_iter().collect()
}
