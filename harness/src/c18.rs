//! C18: Inventory::resolve / partial_resolve, Checksum parsing, TOML round trip.
use crate::util::*;
use libherokubuildpack::inventory::Inventory;
use libherokubuildpack::inventory::artifact::{Arch, Artifact, Os};
use libherokubuildpack::inventory::checksum::{Checksum, ChecksumParseError};
use libherokubuildpack::inventory::version::ArtifactRequirement;
use serde::{Deserialize, Serialize};
use serde_json::{Value, json};
use sha2::Sha256;
use std::cmp::Ordering;

/// product partial order on pairs
#[derive(Debug, Clone, Copy, PartialEq, Eq, Serialize, Deserialize)]
struct PV(u64, u64);
impl PartialOrd for PV {
    fn partial_cmp(&self, o: &Self) -> Option<Ordering> {
        if self == o {
            Some(Ordering::Equal)
        } else if self.0 <= o.0 && self.1 <= o.1 {
            Some(Ordering::Less)
        } else if self.0 >= o.0 && self.1 >= o.1 {
            Some(Ordering::Greater)
        } else {
            None
        }
    }
}
/// the product order with versions that compare to nothing, themselves included (first
/// component 99), as f64::NAN does
#[derive(Debug, Clone, Copy, PartialEq, Eq, Serialize, Deserialize)]
struct NV(u64, u64);
impl PartialOrd for NV {
    fn partial_cmp(&self, o: &Self) -> Option<Ordering> {
        if self.0 == 99 || o.0 == 99 {
            None
        } else {
            PV(self.0, self.1).partial_cmp(&PV(o.0, o.1))
        }
    }
}
impl ArtifactRequirement<NV, u64> for Req {
    fn satisfies_metadata(&self, m: &u64) -> bool {
        *m >= self.meta_min
    }
    fn satisfies_version(&self, v: &NV) -> bool {
        self.allowed.contains(&(v.0, v.1))
    }
}
/// lexicographic total order on pairs
#[derive(Debug, Clone, Copy, PartialEq, Eq, PartialOrd, Ord, Serialize, Deserialize)]
struct TV(u64, u64);

struct Req {
    allowed: Vec<(u64, u64)>,
    meta_min: u64,
}
impl ArtifactRequirement<PV, u64> for Req {
    fn satisfies_metadata(&self, m: &u64) -> bool {
        *m >= self.meta_min
    }
    fn satisfies_version(&self, v: &PV) -> bool {
        self.allowed.contains(&(v.0, v.1))
    }
}
impl ArtifactRequirement<TV, u64> for Req {
    fn satisfies_metadata(&self, m: &u64) -> bool {
        *m >= self.meta_min
    }
    fn satisfies_version(&self, v: &TV) -> bool {
        self.allowed.contains(&(v.0, v.1))
    }
}

fn os_of(v: &Value) -> Os {
    if v.as_str() == Some("linux") { Os::Linux } else { Os::Darwin }
}
fn arch_of(v: &Value) -> Arch {
    if v.as_str() == Some("arm64") { Arch::Arm64 } else { Arch::Amd64 }
}
fn pair(v: &Value) -> (u64, u64) {
    (v[0].as_u64().unwrap(), v[1].as_u64().unwrap())
}

/// the bundled requirement type: semver::VersionReq on Inventory<semver::Version, ..>.  Which artifacts a requirement
/// admits is taken from `VersionReq::matches` directly; versions are reported as ranks in their sorted order.
fn run_resolve_semver(case: &Value) -> Value {
    let mut inv: Inventory<semver::Version, (), u64> = Inventory::new();
    for a in case["arts"].as_array().unwrap() {
        inv.push(Artifact { version: semver::Version::parse(a["sv"].as_str().unwrap()).unwrap(), os: os_of(&a["os"]), arch: arch_of(&a["arch"]),
                            url: String::new(), checksum: "any:00".parse::<Checksum<()>>().unwrap(), metadata: 0 });
    }
    let mut sorted: Vec<semver::Version> = inv.artifacts.iter().map(|a| a.version.clone()).collect();
    sorted.sort();
    sorted.dedup();
    let ranks: Vec<usize> = inv.artifacts.iter().map(|a| sorted.iter().position(|v| *v == a.version).unwrap()).collect();
    let mut res = vec![];
    for q in case["queries"].as_array().unwrap() {
        let req = semver::VersionReq::parse(q["req"].as_str().unwrap()).unwrap();
        let t = inv.resolve(os_of(&q["os"]), arch_of(&q["arch"]), &req);
        let p = inv.partial_resolve(os_of(&q["os"]), arch_of(&q["arch"]), &req);
        let ti = t.map(|r| inv.artifacts.iter().position(|a| std::ptr::eq(a, r)).unwrap());
        let pi = p.map(|r| inv.artifacts.iter().position(|a| std::ptr::eq(a, r)).unwrap());
        let admitted: Vec<bool> = inv.artifacts.iter().map(|a| req.matches(&a.version)).collect();
        res.push(json!({"partial": pi, "total": ti, "pnan": pi, "admitted": admitted}));
    }
    json!({"id": case["id"], "results": res, "ranks": ranks})
}

fn run_resolve(case: &Value) -> Value {
    if case["semver"] == true {
        return run_resolve_semver(case);
    }
    let mut pinv: Inventory<PV, (), u64> = Inventory::new();
    let mut tinv: Inventory<TV, (), u64> = Inventory::new();
    let mut ninv: Inventory<NV, (), u64> = Inventory::new();
    for a in case["arts"].as_array().unwrap() {
        let (x, y) = pair(&a["ver"]);
        let cks = || "any:00".parse::<Checksum<()>>().unwrap();
        pinv.push(Artifact { version: PV(x, y), os: os_of(&a["os"]), arch: arch_of(&a["arch"]), url: String::new(), checksum: cks(), metadata: a["meta"].as_u64().unwrap() });
        ninv.push(Artifact { version: NV(x, y), os: os_of(&a["os"]), arch: arch_of(&a["arch"]), url: String::new(), checksum: cks(), metadata: a["meta"].as_u64().unwrap() });
        tinv.push(Artifact { version: TV(x, y), os: os_of(&a["os"]), arch: arch_of(&a["arch"]), url: String::new(), checksum: cks(), metadata: a["meta"].as_u64().unwrap() });
    }
    let mut res = vec![];
    for q in case["queries"].as_array().unwrap() {
        let req = Req { allowed: q["allowed"].as_array().unwrap().iter().map(pair).collect(), meta_min: q["meta_min"].as_u64().unwrap() };
        let p = pinv.partial_resolve(os_of(&q["os"]), arch_of(&q["arch"]), &req);
        let t = tinv.resolve(os_of(&q["os"]), arch_of(&q["arch"]), &req);
        let pi = p.map(|r| pinv.artifacts.iter().position(|a| std::ptr::eq(a, r)).unwrap());
        let ti = t.map(|r| tinv.artifacts.iter().position(|a| std::ptr::eq(a, r)).unwrap());
        let n = ninv.partial_resolve(os_of(&q["os"]), arch_of(&q["arch"]), &req);
        let ni = n.map(|r| ninv.artifacts.iter().position(|a| std::ptr::eq(a, r)).unwrap());
        res.push(json!({"partial": pi, "total": ti, "pnan": ni}));
    }
    json!({"id": case["id"], "results": res})
}

fn run_checksum512(case: &Value) -> Value {
    let s = string_of(&case["s"]);
    match s.parse::<Checksum<sha2::Sha512>>() {
        Ok(c) => {
            let shown = toml::Value::try_from(&c).ok().and_then(|v| v.as_str().map(str::to_string));
            let reparsed = shown.as_ref().and_then(|t| t.parse::<Checksum<sha2::Sha512>>().ok()).map(|c2| c2 == c);
            json!({"id": case["id"], "ok": true, "name": json_bytes(c.name.as_bytes()), "value": json_bytes(&c.value),
                   "shown": shown.map(|t| json_bytes(t.as_bytes())), "reparse_eq": reparsed})
        }
        Err(e) => {
            let k = match e {
                ChecksumParseError::MissingPrefix => "missing_prefix",
                ChecksumParseError::IncompatiblePrefix(_) => "incompatible_prefix",
                ChecksumParseError::InvalidValue(_) => "invalid_value",
                ChecksumParseError::InvalidChecksumLength(_) => "invalid_length",
            };
            json!({"id": case["id"], "ok": false, "err": k})
        }
    }
}

fn run_checksum(case: &Value) -> Value {
    if case["alg"] == 512 {
        return run_checksum512(case);
    }
    let s = string_of(&case["s"]);
    match s.parse::<Checksum<Sha256>>() {
        Ok(c) => {
            let shown = toml::Value::try_from(&c).ok().and_then(|v| v.as_str().map(str::to_string));
            let reparsed = shown.as_ref().and_then(|t| t.parse::<Checksum<Sha256>>().ok()).map(|c2| c2 == c);
            json!({"id": case["id"], "ok": true, "name": json_bytes(c.name.as_bytes()), "value": json_bytes(&c.value),
                   "shown": shown.map(|t| json_bytes(t.as_bytes())), "reparse_eq": reparsed})
        }
        Err(e) => {
            let k = match e {
                ChecksumParseError::MissingPrefix => "missing_prefix",
                ChecksumParseError::IncompatiblePrefix(_) => "incompatible_prefix",
                ChecksumParseError::InvalidValue(_) => "invalid_value",
                ChecksumParseError::InvalidChecksumLength(_) => "invalid_length",
            };
            json!({"id": case["id"], "ok": false, "err": k})
        }
    }
}

fn run_toml(case: &Value) -> Value {
    let mut inv: Inventory<semver::Version, Sha256, Option<String>> = Inventory::new();
    for a in case["arts"].as_array().unwrap() {
        let (x, y) = pair(&a["ver"]);
        let hexs: String = bytes_of(&a["digest"]).iter().map(|b| format!("{b:02x}")).collect();
        inv.push(Artifact {
            version: semver::Version::new(x, y, 0),
            os: os_of(&a["os"]),
            arch: arch_of(&a["arch"]),
            url: string_of(&a["url"]),
            checksum: format!("sha256:{hexs}").parse().unwrap(),
            metadata: if a["meta"].is_null() { None } else { Some(string_of(&a["meta"])) },
        });
    }
    let text = inv.to_string();
    let back = text.parse::<Inventory<semver::Version, Sha256, Option<String>>>();
    let eq = match &back {
        Ok(b) => b.artifacts == inv.artifacts,
        Err(_) => false,
    };
    json!({"id": case["id"], "text": json_bytes(text.as_bytes()), "rt_eq": eq, "parse_ok": back.is_ok()})
}

pub fn run(case: &Value) -> Value {
    match case["kind"].as_str().unwrap() {
        "resolve" => run_resolve(case),
        "checksum" => run_checksum(case),
        "toml" => run_toml(case),
        k => panic!("kind {k}"),
    }
}
