//! C11: deleting / recreating a layer on generated trees (run as an unprivileged uid).
use crate::fsutil::*;
use crate::util::*;
use libcnb::layer::verif_hooks;
use libcnb_data::layer::LayerName;
use serde_json::{Value, json};

fn io_res(r: std::io::Result<()>) -> Value {
    match r {
        Ok(()) => json!({"ok": true}),
        Err(e) => json!({"ok": false, "err": errno_name(&e)}),
    }
}

pub fn run(case: &Value) -> Value {
    let root = sandbox(&case["id"]);
    build_tree(&root, &case["init"]);
    let pre = snapshot(&root);
    let layers = path_of(&root, &case["layers"]);
    let name: LayerName = string_of(&case["name"]).parse().expect("layer name");
    let res = match case["op"].as_str().unwrap() {
        "delete_layer" => match verif_hooks::delete_layer(&layers, &name) {
            Ok(()) => json!({"ok": true}),
            Err(libcnb::layer::DeleteLayerError::IoError(e)) => json!({"ok": false, "err": errno_name(&e)}),
        },
        "rdr" => io_res(verif_hooks::remove_dir_recursively(&layers.join(name.as_str()))),
        // the public struct API: an uncached layer request deletes the existing layer and creates it afresh
        "recreate" => {
            let ctx = crate::c01::context(&layers);
            match ctx.uncached_layer(&name, libcnb::layer::UncachedLayerDefinition { build: true, launch: false }) {
                Ok(_) => json!({"ok": true}),
                Err(e) => json!({"ok": false, "err": "other", "text": format!("{e:?}").chars().take(160).collect::<String>()}),
            }
        }
        o => panic!("op {o}"),
    };
    let post = snapshot(&root);
    destroy(&root);
    json!({"id": case["id"], "res": res, "pre": pre, "post": post})
}
