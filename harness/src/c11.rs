//! C11: deleting / recreating a layer on generated trees (run as an unprivileged uid).
use crate::fsutil::*;
use crate::util::*;
use libcnb::layer::verif_hooks;
use libcnb_data::layer::LayerName;
use serde_json::{Value, json};

fn io_res(r: std::io::Result<()>) -> Value {
    match r {
        Ok(()) => json!({"ok": true}),
        Err(e) => json!({"ok": false, "err": errno_name(&e)}),
    }
}

fn cause(e: &(dyn std::error::Error + 'static)) -> Value {
    let mut cur: Option<&(dyn std::error::Error + 'static)> = Some(e);
    while let Some(x) = cur {
        if let Some(io) = x.downcast_ref::<std::io::Error>() {
            return json!({"ok": false, "err": errno_name(io)});
        }
        cur = x.source();
    }
    json!({"ok": false, "err": "parse", "text": format!("{e:?}").chars().take(160).collect::<String>()})
}

fn cause_res<E: std::error::Error + 'static>(r: Result<(), E>) -> Value {
    match r {
        Ok(()) => json!({"ok": true}),
        Err(e) => cause(&e),
    }
}

pub fn run(case: &Value) -> Value {
    let root = sandbox(&case["id"]);
    build_tree(&root, &case["init"]);
    let mut pre = snapshot(&root);
    let mut layers = path_of(&root, &case["layers"]);
    if case["layers_via"] == "dotdot" {
        // the same directory under a spelling that is not canonical: <layers>/../<layers>
        let last = layers.file_name().unwrap().to_os_string();
        layers.push("..");
        layers.push(last);
    }
    let name: LayerName = string_of(&case["name"]).parse().expect("layer name");
    let res = match case["op"].as_str().unwrap() {
        "delete_layer" => match verif_hooks::delete_layer(&layers, &name) {
            Ok(()) => json!({"ok": true}),
            Err(libcnb::layer::DeleteLayerError::IoError(e)) => json!({"ok": false, "err": errno_name(&e)}),
        },
        "rdr" => io_res(verif_hooks::remove_dir_recursively(&layers.join(name.as_str()))),
        // shared::read_layer through the hook: what it does to the directory (finding F10) and how it ends
        "read_layer" => match verif_hooks::read_layer(&layers, &name) {
            Ok(_) => json!({"ok": true}),
            Err(libcnb::layer::ReadLayerError::IoError(e)) => json!({"ok": false, "err": errno_name(&e)}),
            Err(libcnb::layer::ReadLayerError::LayerContentMetadataParseError(_)) => json!({"ok": false, "err": "parse"}),
        },
        // shared::write_layer / replace_layer_types through the hooks (call-level comparison with the regenerated
        // functions): the I/O cause of a failure is reached through Error::source
        "write_layer" => {
            let lcm = libcnb::data::layer_content_metadata::LayerContentMetadata {
                types: Some(libcnb::data::layer_content_metadata::LayerTypes { launch: true, build: false, cache: true }),
                metadata: libcnb::generic::GenericMetadata::default(),
            };
            match verif_hooks::write_layer(&layers, &name, &lcm) {
                Ok(()) => json!({"ok": true}),
                // (this variant does not name its field as the error's source)
                Err(libcnb::layer::WriteLayerError::WriteLayerMetadataError(inner)) => cause(&inner),
                Err(e) => cause(&e),
            }
        }
        "replace_types" => cause_res(verif_hooks::replace_layer_types(
            &layers,
            &name,
            libcnb::data::layer_content_metadata::LayerTypes { launch: false, build: true, cache: true },
        )),
        "replace_metadata" => {
            let mut t = toml::Table::new();
            t.insert("version".to_string(), toml::Value::String("2".to_string()));
            cause_res(verif_hooks::replace_layer_metadata(&layers, &name, Some(t)))
        }
        // the public struct API: an uncached layer request deletes the existing layer and creates it afresh
        "recreate" => {
            let ctx = crate::c01::context(&layers);
            match ctx.uncached_layer(&name, libcnb::layer::UncachedLayerDefinition { build: true, launch: false }) {
                Ok(_) => json!({"ok": true}),
                Err(e) => json!({"ok": false, "err": "other", "text": format!("{e:?}").chars().take(160).collect::<String>()}),
            }
        }
        // the public struct API: a cached layer request whose callbacks keep the restored layer
        "keep" => {
            let ctx = crate::c01::context(&layers);
            match ctx.cached_layer(
                &name,
                libcnb::layer::CachedLayerDefinition {
                    build: true,
                    launch: false,
                    invalid_metadata_action: &|_: &libcnb::generic::GenericMetadata| {
                        libcnb::layer::InvalidMetadataAction::<libcnb::generic::GenericMetadata>::DeleteLayer
                    },
                    restored_layer_action: &|_: &libcnb::generic::GenericMetadata, _| libcnb::layer::RestoredLayerAction::KeepLayer,
                },
            ) {
                Ok(_) => json!({"ok": true}),
                Err(e) => json!({"ok": false, "err": "other", "text": format!("{e:?}").chars().take(160).collect::<String>()}),
            }
        }
        // C01 at the level of the file system: a fresh layer, then entries somebody planted at its SBOM paths,
        // then LayerRef::write_sboms; the snapshot "before" is taken after the planting
        "write_sboms" => {
            let ctx = crate::c01::context(&layers);
            match ctx.uncached_layer(&name, libcnb::layer::UncachedLayerDefinition { build: true, launch: false }) {
                Ok(layer_ref) => {
                    build_tree(&root, &case["plant"]);
                    pre = snapshot(&root);
                    let sboms: Vec<libcnb::sbom::Sbom> = case["sboms"]
                        .as_array()
                        .unwrap()
                        .iter()
                        .map(|x| {
                            let f = match x[0].as_u64().unwrap() {
                                0 => libcnb::data::sbom::SbomFormat::CycloneDxJson,
                                1 => libcnb::data::sbom::SbomFormat::SpdxJson,
                                _ => libcnb::data::sbom::SbomFormat::SyftJson,
                            };
                            libcnb::sbom::Sbom::from_bytes(f, bytes_of(&x[1]))
                        })
                        .collect();
                    match layer_ref.write_sboms(&sboms) {
                        Ok(()) => json!({"ok": true}),
                        // (the inner error type is not exported: its I/O cause is reached through Error::source)
                        Err(libcnb::Error::LayerError(libcnb::layer::LayerError::WriteLayerError(libcnb::layer::WriteLayerError::ReplaceLayerSbomsError(inner)))) => {
                            match std::error::Error::source(&inner).and_then(|s| s.downcast_ref::<std::io::Error>()) {
                                Some(e) => json!({"ok": false, "err": errno_name(e)}),
                                None => json!({"ok": false, "err": "other", "text": format!("{inner:?}").chars().take(160).collect::<String>()}),
                            }
                        }
                        Err(e) => json!({"ok": false, "err": "other", "text": format!("{e:?}").chars().take(160).collect::<String>()}),
                    }
                }
                Err(e) => json!({"ok": false, "err": "setup", "text": format!("{e:?}").chars().take(160).collect::<String>()}),
            }
        }
        o => panic!("op {o}"),
    };
    let post = snapshot(&root);
    destroy(&root);
    json!({"id": case["id"], "res": res, "pre": pre, "post": post})
}
