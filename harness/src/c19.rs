//! C19: MappedWrite / TeeWrite chunking and streamed child output.
use crate::util::*;
use libherokubuildpack::command::CommandExt;
use libherokubuildpack::write::{mapped, mappers, tee};
use serde_json::{Value, json};
use std::io::Write;
use std::process::Command;
use std::time::{Duration, Instant};

fn mapper(kind: &str) -> Box<dyn Fn(Vec<u8>) -> Vec<u8> + Sync + Send> {
    match kind {
        "prefix" => Box::new(mappers::add_prefix("> ")),
        "dup" => Box::new(|b: Vec<u8>| b.repeat(2)),
        "len" => Box::new(|b: Vec<u8>| format!("[{}]", b.len()).into_bytes()),
        _ => Box::new(|b: Vec<u8>| b),
    }
}

/// A writer that accepts at most `max` bytes per `write` call (pipes, sockets, `&mut [u8]` and
/// small `LineWriter`s do this): `io::Write::write` may always write less than it was given.
struct Short {
    inner: Vec<u8>,
    max: usize,
}

impl Short {
    fn new(max: &Value) -> Self {
        Short { inner: Vec::new(), max: max.as_u64().map_or(usize::MAX, |m| usize::try_from(m).unwrap()) }
    }
}

impl Write for Short {
    fn write(&mut self, buf: &[u8]) -> std::io::Result<usize> {
        let n = buf.len().min(self.max);
        self.inner.extend_from_slice(&buf[..n]);
        Ok(n)
    }
    fn flush(&mut self) -> std::io::Result<()> {
        Ok(())
    }
}

pub fn run(case: &Value) -> Value {
    match case["kind"].as_str().unwrap() {
        "mapped" => {
            let mut out = Short::new(&case["max"]);
            {
                let f = mapper(case["mapper"].as_str().unwrap());
                let mut w = mapped(&mut out, u8::try_from(case["marker"].as_u64().unwrap()).unwrap(), move |b| f(b));
                for (ci, c) in case["chunks"].as_array().unwrap().iter().enumerate() {
                    w.write_all(&bytes_of(c)).unwrap();
                    // flush() between writes (auto-flushing wrappers, live progress output): it flushes the inner
                    // writer and is no boundary for the mapping
                    if case["flush_after"].as_array().is_some_and(|l| l.iter().any(|x| x.as_u64() == Some(ci as u64))) {
                        w.flush().unwrap();
                    }
                }
                if case["finish"] == "unwrap" {
                    let _ = w.unwrap();
                } // else: drop
            }
            json!({"id": case["id"], "out": json_bytes(&out.inner)})
        }
        "tee" => {
            let mut a = Short::new(&case["max_a"]);
            let mut b = Short::new(&case["max_b"]);
            {
                let mut w = tee(&mut a, &mut b);
                if case["vectored"] == true {
                    // all chunks offered at once as IoSlices, advancing by what the tee reports as written
                    let chunks: Vec<Vec<u8>> = case["chunks"].as_array().unwrap().iter().map(bytes_of).collect();
                    let total: usize = chunks.iter().map(Vec::len).sum();
                    let flat: Vec<u8> = chunks.concat();
                    let mut done = 0;
                    while done < total {
                        // re-slice the remaining input at the original chunk boundaries
                        let mut slices = vec![];
                        let mut pos = 0;
                        for c in &chunks {
                            let (s, e) = (pos.max(done), pos + c.len());
                            if e > s {
                                slices.push(std::io::IoSlice::new(&flat[s..e]));
                            }
                            pos += c.len();
                        }
                        let n = w.write_vectored(&slices).unwrap();
                        assert!(n > 0, "write_vectored wrote nothing");
                        done += n;
                    }
                } else {
                    for c in case["chunks"].as_array().unwrap() {
                        w.write_all(&bytes_of(c)).unwrap();
                    }
                }
                w.flush().unwrap();
            }
            json!({"id": case["id"], "a": json_bytes(&a.inner), "b": json_bytes(&b.inner)})
        }
        "command" => {
            let exe = std::env::current_exe().unwrap();
            let mut so_w = Short::new(&case["max"]);
            let mut se_w = Short::new(&case["max"]);
            let start = Instant::now();
            let mut cmd = Command::new(exe);
            cmd.arg("c19_child").env("VERIF_C19_SCRIPT", case["script"].to_string());
            // either entry point: output_and_write_streams (captures as well), or spawn_and_write_streams + wait, where
            // the supplied writers are the only destination of the child's output
            let res = if case["via"] == "spawn" {
                cmd.spawn_and_write_streams(&mut so_w, &mut se_w)
                    .and_then(|mut child| child.wait())
                    .map(|status| std::process::Output { status, stdout: vec![], stderr: vec![] })
            } else {
                cmd.output_and_write_streams(&mut so_w, &mut se_w)
            };
            let elapsed = start.elapsed();
            let (so, se) = (so_w.inner, se_w.inner);
            let res = res.map(|mut o| {
                if case["via"] == "spawn" {
                    o.stdout.clone_from(&so);
                    o.stderr.clone_from(&se);
                }
                o
            });
            match res {
                Ok(o) => json!({"id": case["id"], "ok": true, "code": o.status.code(), "stdout_eq": o.stdout == so, "stderr_eq": o.stderr == se,
                               "so_len": so.len(), "se_len": se.len(), "so_sum": checksum(&so), "se_sum": checksum(&se),
                               "slow": elapsed > Duration::from_secs(20)}),
                Err(e) => json!({"id": case["id"], "ok": false, "err": e.to_string()}),
            }
        }
        k => panic!("kind {k}"),
    }
}

/// order-sensitive checksum so that reordered or lost bytes are visible without shipping megabytes
pub fn checksum(b: &[u8]) -> u64 {
    let mut h: u64 = 1469598103934665603;
    for x in b {
        h ^= u64::from(*x);
        h = h.wrapping_mul(1099511628211);
    }
    h
}

/// the byte the child writes at position i of stream s
pub fn pattern(s: u64, i: u64) -> u8 {
    u8::try_from((i.wrapping_mul(31).wrapping_add(s * 7 + 3)) % 251).unwrap()
}

/// child: executes the script [{"s":0|1,"n":bytes,"delay_ms":..}]
pub fn child() {
    // watchdog: if the parent stops draining a pipe the child would block forever; the kernel
    // terminates it after 25 s so that the parent returns and the run is reported (slow, non-zero)
    #[allow(unsafe_code)]
    unsafe {
        libc::alarm(25);
    }
    let script: Value = serde_json::from_str(&std::env::var("VERIF_C19_SCRIPT").unwrap()).unwrap();
    let mut pos = [0u64, 0u64];
    let mut out = std::io::stdout();
    let mut err = std::io::stderr();
    for st in script.as_array().unwrap() {
        let s = st["s"].as_u64().unwrap();
        let n = st["n"].as_u64().unwrap();
        if let Some(d) = st["delay_ms"].as_u64() {
            std::thread::sleep(Duration::from_millis(d));
        }
        let idx = usize::try_from(s).unwrap();
        let data: Vec<u8> = (0..n).map(|i| pattern(s, pos[idx] + i)).collect();
        pos[idx] += n;
        if s == 0 {
            out.write_all(&data).unwrap();
            out.flush().unwrap();
        } else {
            err.write_all(&data).unwrap();
            err.flush().unwrap();
        }
    }
}
