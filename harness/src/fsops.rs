//! FS-model validation stream: primitive std::fs operations on a real sandbox.
use crate::fsutil::*;
use crate::util::*;
use serde_json::{Value, json};
use std::fs;
use std::os::unix::fs::PermissionsExt;

fn res_unit(r: std::io::Result<()>) -> Value {
    match r {
        Ok(()) => json!({"ok": true}),
        Err(e) => json!({"ok": false, "err": errno_name(&e)}),
    }
}

pub fn run(case: &Value) -> Value {
    let root = sandbox(&case["id"]);
    build_tree(&root, &case["init"]);
    let mut results = vec![];
    for op in case["ops"].as_array().unwrap() {
        let p = path_of(&root, &op["p"]);
        let r = match op["op"].as_str().unwrap() {
            "mkdir" => res_unit(fs::create_dir(&p)),
            "create_dir_all" => res_unit(fs::create_dir_all(&p)),
            "write" => res_unit(fs::write(&p, bytes_of(&op["c"]))),
            "read" => match fs::read(&p) {
                Ok(c) => json!({"ok": true, "c": json_bytes(&c)}),
                Err(e) => json!({"ok": false, "err": errno_name(&e)}),
            },
            "unlink" => res_unit(fs::remove_file(&p)),
            "rmdir" => res_unit(fs::remove_dir(&p)),
            "remove_dir_all" => res_unit(fs::remove_dir_all(&p)),
            "chmod" => res_unit(fs::set_permissions(&p, fs::Permissions::from_mode(u32::try_from(op["m"].as_u64().unwrap()).unwrap()))),
            "symlink" => res_unit(std::os::unix::fs::symlink(real_target(&root, &bytes_of(&op["t"])), &p)),
            "copy" => res_unit(fs::copy(&p, path_of(&root, &op["q"])).map(|_| ())),
            "readdir" => match fs::read_dir(&p) {
                Ok(rd) => {
                    let mut names: Vec<Vec<u8>> = rd.filter_map(|e| e.ok()).map(|e| bytes_of(&json_os(&e.file_name()))).collect();
                    names.sort();
                    json!({"ok": true, "names": names.iter().map(|n| json_bytes(n)).collect::<Vec<_>>()})
                }
                Err(e) => json!({"ok": false, "err": errno_name(&e)}),
            },
            "stat" | "lstat" => {
                let m = if op["op"] == "stat" { fs::metadata(&p) } else { fs::symlink_metadata(&p) };
                match m {
                    Ok(m) => {
                        let k = if m.file_type().is_symlink() { "l" } else if m.is_dir() { "d" } else { "f" };
                        json!({"ok": true, "k": k, "m": m.permissions().mode() & 0o7777})
                    }
                    Err(e) => json!({"ok": false, "err": errno_name(&e)}),
                }
            }
            "exists" => json!({"ok": true, "b": p.exists()}),
            "is_dir" => json!({"ok": true, "b": p.is_dir()}),
            "is_file" => json!({"ok": true, "b": p.is_file()}),
            o => panic!("op {o}"),
        };
        results.push(r);
    }
    let snap = snapshot(&root);
    destroy(&root);
    json!({"id": case["id"], "results": results, "snapshot": snap})
}
