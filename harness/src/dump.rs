//! Dumping libcnb-data values as JSON trees that mirror Serde.v's [sval] / Toml.v's [tv].
use crate::util::*;
use libcnb_data::buildpack::{
    Buildpack, BuildpackDescriptor, BuildpackTarget, ComponentBuildpackDescriptor, CompositeBuildpackDescriptor, Stack,
};
use libcnb_data::buildpack_plan::BuildpackPlan;
use libcnb_data::generic::GenericMetadata;
use libcnb_data::launch::{Launch, Process, WorkingDirectory};
use libcnb_data::layer_content_metadata::{LayerContentMetadata, LayerTypes};
use libcnb_data::package_descriptor::{PackageDescriptor, PlatformOs};
use libcnb_data::sbom::SbomFormat;
use libcnb_data::store::Store;
use serde_json::{Value, json};

pub fn tv(v: &toml::Value) -> Value {
    match v {
        toml::Value::String(s) => json!({"s": json_bytes(s.as_bytes())}),
        toml::Value::Integer(i) => json!({"i": i}),
        toml::Value::Boolean(b) => json!({"b": b}),
        toml::Value::Array(a) => json!({"a": a.iter().map(tv).collect::<Vec<_>>()}),
        toml::Value::Table(t) => tbl(t),
        other => json!({"x": other.to_string()}),
    }
}
pub fn tbl(t: &toml::Table) -> Value {
    let mut items: Vec<(Vec<u8>, Value)> = t.iter().map(|(k, v)| (k.as_bytes().to_vec(), tv(v))).collect();
    items.sort_by(|a, b| a.0.cmp(&b.0));
    json!({"t": items.iter().map(|(k, v)| json!([json_bytes(k), v])).collect::<Vec<_>>()})
}

pub fn s(x: &str) -> Value {
    json!({"str": json_bytes(x.as_bytes())})
}
pub fn b(x: bool) -> Value {
    json!({"bool": x})
}
pub fn list(x: Vec<Value>) -> Value {
    json!({"list": x})
}
pub fn opt(x: Option<Value>) -> Value {
    json!({"opt": x})
}
pub fn rec(x: Vec<(&str, Value)>) -> Value {
    json!({"rec": x.into_iter().map(|(k, v)| json!([json_bytes(k.as_bytes()), v])).collect::<Vec<_>>()})
}
pub fn vtbl(t: &toml::Table) -> Value {
    json!({"tbl": tbl(t)})
}
pub fn generic(m: &GenericMetadata) -> Value {
    opt(m.as_ref().map(vtbl))
}

fn sbom_idx(f: &SbomFormat) -> usize {
    match f {
        SbomFormat::CycloneDxJson => 0,
        SbomFormat::SpdxJson => 1,
        SbomFormat::SyftJson => 2,
    }
}

pub fn buildpack(bp: &Buildpack) -> Value {
    let mut sboms: Vec<usize> = bp.sbom_formats.iter().map(sbom_idx).collect();
    sboms.sort_unstable();
    rec(vec![
        ("id", s(bp.id.as_str())),
        ("name", opt(bp.name.as_deref().map(s))),
        ("version", s(&bp.version.to_string())),
        ("homepage", opt(bp.homepage.as_deref().map(s))),
        ("clear-env", b(bp.clear_env)),
        ("description", opt(bp.description.as_deref().map(s))),
        ("keywords", list(bp.keywords.iter().map(|k| s(k)).collect())),
        (
            "licenses",
            list(bp.licenses.iter().map(|l| rec(vec![("type", opt(l.r#type.as_deref().map(s))), ("uri", opt(l.uri.as_deref().map(s)))])).collect()),
        ),
        ("sbom-formats", list(sboms.into_iter().map(|i| json!({"unit": i})).collect())),
    ])
}

fn stack(st: &Stack) -> Value {
    rec(vec![("id", s(&st.id)), ("mixins", list(st.mixins.iter().map(|m| s(m)).collect()))])
}
fn target(t: &BuildpackTarget) -> Value {
    rec(vec![
        ("os", opt(t.os.as_deref().map(s))),
        ("arch", opt(t.arch.as_deref().map(s))),
        ("variant", opt(t.variant.as_deref().map(s))),
        ("distros", list(t.distros.iter().map(|d| rec(vec![("name", s(&d.name)), ("version", s(&d.version))])).collect())),
    ])
}

pub fn component(d: &ComponentBuildpackDescriptor<GenericMetadata>) -> Value {
    rec(vec![
        ("api", s(&d.api.to_string())),
        ("buildpack", buildpack(&d.buildpack)),
        ("stacks", list(d.stacks.iter().map(stack).collect())),
        ("targets", list(d.targets.iter().map(target).collect())),
        ("metadata", generic(&d.metadata)),
    ])
}
pub fn composite(d: &CompositeBuildpackDescriptor<GenericMetadata>) -> Value {
    rec(vec![
        ("api", s(&d.api.to_string())),
        ("buildpack", buildpack(&d.buildpack)),
        (
            "order",
            list(d.order.iter().map(|o| {
                rec(vec![("group", list(o.group.iter().map(|g| rec(vec![("id", s(g.id.as_str())), ("version", s(&g.version.to_string())), ("optional", b(g.optional))])).collect()))])
            }).collect()),
        ),
        ("metadata", generic(&d.metadata)),
    ])
}
pub fn descriptor(d: &BuildpackDescriptor<GenericMetadata>) -> Value {
    match d {
        BuildpackDescriptor::Component(c) => json!({"alt": [0, component(c)]}),
        BuildpackDescriptor::Composite(c) => json!({"alt": [1, composite(c)]}),
    }
}
pub fn plan(p: &BuildpackPlan) -> Value {
    rec(vec![("entries", list(p.entries.iter().map(|e| rec(vec![("name", s(&e.name)), ("metadata", vtbl(&e.metadata))])).collect()))])
}
pub fn layer_types(t: &LayerTypes) -> Value {
    rec(vec![("launch", b(t.launch)), ("build", b(t.build)), ("cache", b(t.cache))])
}
pub fn layer(l: &LayerContentMetadata<GenericMetadata>) -> Value {
    rec(vec![("types", opt(l.types.as_ref().map(layer_types))), ("metadata", generic(&l.metadata))])
}
pub fn process(p: &Process) -> Value {
    let wd = match &p.working_directory {
        WorkingDirectory::App => json!({"alt": [0, s("")]}),
        WorkingDirectory::Directory(d) => json!({"alt": [1, s(&d.to_string_lossy())]}),
    };
    rec(vec![
        ("type", s(p.r#type.as_str())),
        ("command", list(p.command.iter().map(|c| s(c)).collect())),
        ("args", list(p.args.iter().map(|c| s(c)).collect())),
        ("default", b(p.default)),
        ("working-dir", wd),
    ])
}
pub fn launch(l: &Launch) -> Value {
    rec(vec![
        ("labels", list(l.labels.iter().map(|x| rec(vec![("key", s(&x.key)), ("value", s(&x.value))])).collect())),
        ("processes", list(l.processes.iter().map(process).collect())),
        ("slices", list(l.slices.iter().map(|x| rec(vec![("paths", list(x.path_globs.iter().map(|p| s(p)).collect()))])).collect())),
    ])
}
pub fn store(st: &Store) -> Value {
    rec(vec![("metadata", vtbl(&st.metadata))])
}
pub fn package(p: &PackageDescriptor) -> Value {
    rec(vec![
        ("buildpack", rec(vec![("uri", s(&p.buildpack.uri.to_string()))])),
        ("dependencies", list(p.dependencies.iter().map(|d| rec(vec![("uri", s(&d.uri.to_string()))])).collect())),
        ("platform", rec(vec![("os", json!({"unit": match p.platform.os { PlatformOs::Linux => 0, PlatformOs::Windows => 1 }}))])),
    ])
}
