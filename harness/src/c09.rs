//! C09: validated newtypes and versions through FromStr / TryFrom / serde.
use crate::util::*;
use libcnb_data::buildpack::{BuildpackApi, BuildpackId, BuildpackVersion};
use libcnb_data::exec_d::ExecDProgramOutputKey;
use libcnb_data::launch::ProcessType;
use libcnb_data::layer::LayerName;
use serde::{Deserialize, Serialize};
use serde_json::{Value, json};
use std::fmt::Display;
use std::str::FromStr;

#[derive(Serialize)]
struct WS<'a> {
    x: &'a str,
}
#[derive(Deserialize)]
struct WD<T> {
    x: T,
}

fn ident<T>(s: &str) -> Value
where
    T: FromStr + Display + Serialize + for<'de> Deserialize<'de>,
{
    let parsed = s.parse::<T>().ok();
    let doc = toml::to_string(&WS { x: s }).expect("serialize wrapper");
    let de = toml::from_str::<WD<T>>(&doc).ok();
    json!({
        "parse": parsed.is_some(),
        "deser": de.is_some(),
        "display": parsed.as_ref().map(|p| json_bytes(p.to_string().as_bytes())),
        "ser": parsed.as_ref().and_then(|p| toml::Value::try_from(p).ok()).and_then(|v| v.as_str().map(|t| json_bytes(t.as_bytes()))),
        "deser_display": de.as_ref().map(|p| json_bytes(p.x.to_string().as_bytes())),
    })
}

pub fn run(case: &Value) -> Value {
    match case["kind"].as_str().unwrap() {
        "ident" => {
            let s = string_of(&case["s"]);
            json!({"id": case["id"],
                   "layer_name": ident::<LayerName>(&s), "process_type": ident::<ProcessType>(&s),
                   "buildpack_id": ident::<BuildpackId>(&s), "execd_key": ident::<ExecDProgramOutputKey>(&s)})
        }
        "version" => {
            let s = string_of(&case["s"]);
            let v = BuildpackVersion::try_from(s.clone()).ok();
            let doc = toml::to_string(&WS { x: &s }).unwrap();
            let de = toml::from_str::<WD<BuildpackVersion>>(&doc).ok().map(|w| w.x);
            json!({"id": case["id"],
                   "parsed": v.as_ref().map(|v| json!([v.major, v.minor, v.patch])),
                   "deser": de.as_ref().map(|v| json!([v.major, v.minor, v.patch])),
                   "display": v.as_ref().map(|v| json_bytes(v.to_string().as_bytes()))})
        }
        "api" => {
            let s = string_of(&case["s"]);
            let v = BuildpackApi::try_from(s.clone()).ok();
            let doc = toml::to_string(&WS { x: &s }).unwrap();
            let de = toml::from_str::<WD<BuildpackApi>>(&doc).ok().map(|w| w.x);
            json!({"id": case["id"],
                   "parsed": v.as_ref().map(|v| json!([v.major, v.minor])),
                   "deser": de.as_ref().map(|v| json!([v.major, v.minor])),
                   "display": v.as_ref().map(|v| json_bytes(v.to_string().as_bytes()))})
        }
        "vshow" => {
            let t = &case["v"];
            let v = BuildpackVersion::new(t[0].as_u64().unwrap(), t[1].as_u64().unwrap(), t[2].as_u64().unwrap());
            let shown = v.to_string();
            let back = BuildpackVersion::try_from(shown.clone()).ok();
            let a = BuildpackApi { major: t[0].as_u64().unwrap(), minor: t[1].as_u64().unwrap() };
            let ashown = a.to_string();
            let aback = BuildpackApi::try_from(ashown.clone()).ok();
            json!({"id": case["id"], "shown": json_bytes(shown.as_bytes()), "back_eq": back.as_ref() == Some(&v),
                   "api_shown": json_bytes(ashown.as_bytes()), "api_back_eq": aback.as_ref() == Some(&a)})
        }
        k => panic!("kind {k}"),
    }
}
