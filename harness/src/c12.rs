//! C12: fault injection.  A prepared layers directory (history of C01 / C02 operations, run without
//! faults) is followed by ONE operation executed in a child process under the LD_PRELOAD shim
//! (harness/shim/fault.c), once without a fault to count the file-system calls it makes below the
//! layers directory, then once per call position and errno with that call failing.
use crate::util::*;
use crate::{c01, c02, fsutil};
use serde_json::{Value, json};
use std::path::{Path, PathBuf};

fn apply(ctx: &libcnb::build::BuildContext<c01::TestBp>, layers: &Path, scratch: &Path, names: &[String], opi: usize, op: &Value, probes: &Value) -> Value {
    if op["op"] == "plant" {
        // a directory entry somebody else left in the layers directory: a symbolic link (dangling unless the target exists)
        let _ = std::fs::remove_file(layers.join(string_of(&op["path"])));
        std::os::unix::fs::symlink(string_of(&op["target"]), layers.join(string_of(&op["path"]))).unwrap();
        return json!({});
    }
    if op["op"] == "handle" { c02::step(ctx, layers, scratch, names, opi, op, probes) } else { c01::step(ctx, layers, scratch, names, opi, op) }
}

fn prepare(case: &Value, tag: &str) -> (PathBuf, Vec<String>) {
    let root = fsutil::sandbox(&json!(format!("{}_{tag}", case["id"])));
    std::fs::create_dir_all(root.join("layers")).unwrap();
    std::fs::create_dir_all(root.join("scratch")).unwrap();
    let names: Vec<String> = case["names"].as_array().unwrap().iter().map(string_of).collect();
    let ctx = c01::context(&root.join("layers"));
    for (opi, op) in case["prep"].as_array().unwrap().iter().enumerate() {
        apply(&ctx, &root.join("layers"), &root.join("scratch"), &names, opi, op, &case["probes"]);
    }
    (root, names)
}

/// `harness c12_child <root> <op.json>`: perform the single operation, print what it returned
pub fn child() {
    let args: Vec<String> = std::env::args().collect();
    let root = PathBuf::from(&args[2]);
    let v: Value = serde_json::from_str(&std::fs::read_to_string(&args[3]).unwrap()).unwrap();
    let names: Vec<String> = v["names"].as_array().unwrap().iter().map(string_of).collect();
    let ctx = c01::context(&root.join("layers"));
    let r = apply(&ctx, &root.join("layers"), &root.join("scratch2"), &names, 1000, &v["op"], &v["probes"]);
    // success = the request and every write reported Ok
    let ok = if v["op"]["op"] == "handle" {
        r["res"]["ok"] == true
    } else {
        r["res"].get("err").is_none() && r["writes"].as_array().is_some_and(|w| w.iter().all(|x| x["ok"] == true))
            && r["writes"].as_array().map(Vec::len) == v["op"]["writes"].as_array().map(Vec::len)
    };
    println!("{}", json!({"ok": ok, "res": r["res"], "writes": r.get("writes").map(|w| w.as_array().unwrap().iter().map(|x| x["ok"].clone()).collect::<Vec<_>>())}));
}

fn run_child(root: &Path, case: &Value, k: usize, errno: i32) -> (Value, Vec<String>, Value) {
    std::fs::create_dir_all(root.join("scratch2")).unwrap();
    let opfile = root.join("op.json");
    std::fs::write(&opfile, serde_json::to_string(&json!({"op": case["op"], "names": case["names"], "probes": case["probes"]})).unwrap()).unwrap();
    let log = root.join("fault.log");
    let _ = std::fs::remove_file(&log);
    let out = std::process::Command::new(std::env::current_exe().unwrap())
        .arg("c12_child")
        .arg(root)
        .arg(&opfile)
        .env("LD_PRELOAD", std::env::var("VERIF_FAULT_SHIM").expect("VERIF_FAULT_SHIM"))
        .env("VERIF_FAULT_PREFIX", root.join("layers"))
        .env("VERIF_FAULT_K", k.to_string())
        .env("VERIF_FAULT_ERRNO", errno.to_string())
        .env("VERIF_FAULT_LOG", &log)
        .env("VERIF_NO_SNAPSHOT", "1")
        .output()
        .unwrap();
    let res: Value = serde_json::from_str(String::from_utf8_lossy(&out.stdout).trim()).unwrap_or_else(|_| {
        json!({"ok": false, "crash": true, "status": format!("{:?}", out.status), "stderr": String::from_utf8_lossy(&out.stderr).chars().take(300).collect::<String>()})
    });
    let lines: Vec<String> = std::fs::read_to_string(&log).unwrap_or_default().lines().map(|l| l.split_once(' ').map_or(String::new(), |x| x.1.to_string())).collect();
    let names: Vec<String> = case["names"].as_array().unwrap().iter().map(string_of).collect();
    let snap = c01::abstract_store(&root.join("layers"), &names);
    (res, lines, snap)
}

pub fn run(case: &Value) -> Value {
    let (root, _) = prepare(case, "ok");
    let (res_ok, log_ok, snap_ok) = run_child(&root, case, 0, 5);
    fsutil::destroy(&root);
    let n = log_ok.len();
    let errnos: Vec<i32> = case["errnos"].as_array().unwrap().iter().map(|x| i32::try_from(x.as_i64().unwrap()).unwrap()).collect();
    let all = case["all_errnos"] == true;
    let mut runs = vec![];
    for k in 1..=n {
        let es: Vec<i32> = if all { errnos.clone() } else { vec![errnos[k % errnos.len()]] };
        for e in es {
            let (root, _) = prepare(case, &format!("k{k}e{e}"));
            let (res, log, snap) = run_child(&root, case, k, e);
            fsutil::destroy(&root);
            let prefix_ok = log.len() >= k && log[..k - 1] == log_ok[..k - 1] && log[k - 1].trim_end_matches(" FAULT") == log_ok[k - 1];
            runs.push(json!({"k": k, "errno": e, "ok": res["ok"], "crash": res.get("crash").is_some(), "calls": log.len(), "prefix_ok": prefix_ok,
                             "same_as_ok": snap == snap_ok, "call": log_ok[k - 1], "res": res["res"]}));
        }
    }
    json!({"id": case["id"], "n": n, "ok": res_ok["ok"], "res_ok": res_ok, "log_ok": log_ok, "runs": runs})
}
