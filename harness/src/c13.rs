//! C13: build_libcnb_buildpacks_dependency_graph + get_dependencies on generated directories.
use libcnb_data::buildpack::BuildpackId;
use libcnb_package::buildpack_dependency_graph::{
    BuildBuildpackDependencyGraphError, BuildpackDependencyGraphNode, build_libcnb_buildpacks_dependency_graph,
};
use libcnb_package::dependency_graph::{CreateDependencyGraphError, get_dependencies};
use serde_json::{Value, json};
use std::fs;
use std::path::PathBuf;

/// buildpack ids are case-sensitive: every third one has upper-case letters
fn bp_id(n: u64) -> String {
    if n % 3 == 1 { format!("Verif/B{n}") } else { format!("verif/b{n}") }
}

fn id_num(id: &BuildpackId) -> u64 {
    id.as_str().to_lowercase().trim_start_matches("verif/b").parse().expect("numeric id")
}

pub fn run(case: &Value) -> Value {
    let tmp = tempfile::tempdir().expect("tempdir");
    let nodes = case["nodes"].as_array().expect("nodes");
    // directory layout: flat siblings, or -- for nodes with a "parent" (an earlier node) -- nested inside
    // that buildpack's directory (a composite holding its components); discovery must find all of them
    let mut dirs: Vec<PathBuf> = vec![];
    for (k, node) in nodes.iter().enumerate() {
        let base = match node["parent"].as_u64() {
            Some(j) if usize::try_from(j).unwrap() < k => dirs[usize::try_from(j).unwrap()].join("buildpacks"),
            _ => tmp.path().join("ws"),
        };
        let dir = match node["dirname"].as_str() {
            Some(dn) => base.join(dn),
            None => base.join(format!("d{k:03}")),
        };
        dirs.push(dir.clone());
        fs::create_dir_all(&dir).unwrap();
        let id = node["id"].as_u64().unwrap();
        // a composite buildpack (buildpack.toml with an order), or -- "rs" -- a libcnb.rs buildpack (component
        // descriptor next to a Cargo.toml): its package.toml declares dependencies just the same
        if node["rs"] == true {
            fs::write(dir.join("buildpack.toml"), format!("api = \"0.10\"\n[buildpack]\nid = \"{}\"\nversion = \"0.0.1\"\n", bp_id(id))).unwrap();
            fs::write(dir.join("Cargo.toml"), format!("[package]\nname = \"bp{k}\"\nversion = \"0.0.1\"\nedition = \"2021\"\n")).unwrap();
        } else {
            fs::write(
                dir.join("buildpack.toml"),
                format!(
                    "api = \"0.10\"\n[buildpack]\nid = \"{}\"\nversion = \"0.0.1\"\n[[order]]\n[[order.group]]\nid = \"x/y\"\nversion = \"1.0.0\"\n",
                    bp_id(id)
                ),
            )
            .unwrap();
        }
        let mut pkg = format!("[buildpack]\nuri = \".\"\n");
        let mut uris: Vec<String> = node["deps"].as_array().unwrap().iter().map(|d| format!("libcnb:{}", bp_id(d.as_u64().unwrap()))).collect();
        if let Some(noise) = node["noise"].as_array() {
            for nz in noise {
                let pos = usize::try_from(nz[0].as_u64().unwrap()).unwrap().min(uris.len());
                uris.insert(pos, nz[1].as_str().unwrap().to_string());
            }
        }
        for u in uris {
            pkg.push_str(&format!("[[dependencies]]\nuri = \"{u}\"\n"));
        }
        // a buildpack without dependencies may have no package.toml at all
        if !(node["no_pkg"] == true && node["deps"].as_array().unwrap().is_empty() && node["noise"].as_array().is_none_or(Vec::is_empty)) {
            fs::write(dir.join("package.toml"), pkg).unwrap();
        }
        // "link": the directory lives outside the workspace and is linked into it (a shared buildpack)
        if node["link"] == true {
            let real = tmp.path().join("real").join(format!("d{k:03}"));
            fs::create_dir_all(real.parent().unwrap()).unwrap();
            fs::rename(&dir, &real).unwrap();
            std::os::unix::fs::symlink(&real, &dir).unwrap();
        }
    }
    let graph = match build_libcnb_buildpacks_dependency_graph(&tmp.path().join("ws")) {
        Ok(g) => g,
        Err(BuildBuildpackDependencyGraphError::CreateDependencyGraphError(CreateDependencyGraphError::MissingDependency(id))) => {
            return json!({"id": case["id"], "graph": null, "missing": id_num(&id), "nodes": [], "orders": []});
        }
        Err(e) => {
            return json!({"id": case["id"], "graph": null, "missing": null, "error": format!("{e:?}"), "nodes": [], "orders": []});
        }
    };
    let obs_nodes: Vec<Value> = graph
        .node_indices()
        .map(|i| {
            let n = &graph[i];
            json!({"id": id_num(&n.buildpack_id), "deps": n.dependencies.iter().map(id_num).collect::<Vec<_>>(),
                   "dir": n.path.file_name().unwrap().to_string_lossy()})
        })
        .collect();
    let adj: Vec<Vec<usize>> = graph.node_indices().map(|i| graph.neighbors(i).map(|j| j.index()).collect()).collect();
    let mut orders = vec![];
    for roots in case["root_lists"].as_array().expect("root_lists") {
        let root_nodes: Vec<BuildpackDependencyGraphNode> = roots
            .as_array()
            .unwrap()
            .iter()
            .map(|r| BuildpackDependencyGraphNode {
                buildpack_id: bp_id(r.as_u64().unwrap()).parse().unwrap(),
                path: PathBuf::from("/nonexistent"),
                dependencies: vec![],
            })
            .collect();
        let refs: Vec<&BuildpackDependencyGraphNode> = root_nodes.iter().collect();
        match get_dependencies(&graph, &refs) {
            Ok(order) => {
                let idxs: Vec<usize> = order
                    .iter()
                    .map(|n| graph.node_indices().find(|i| std::ptr::eq(&graph[*i], *n)).unwrap().index())
                    .collect();
                orders.push(json!(idxs));
            }
            Err(_) => orders.push(Value::Null),
        }
    }
    json!({"id": case["id"], "graph": adj, "missing": null, "nodes": obs_nodes, "orders": orders})
}
