//! A small Rust -> Gallina translator for straight-line imperative code: `let`, mutating method
//! calls on locals / `self` fields, `if` without `else`, `if`/`else`, `match` over unit variants,
//! early-exit-free blocks.  A block becomes a Gallina term that computes the tuple of the
//! variables it is asked to return; every mutation re-binds the variable with `let`.
//!
//! Everything outside the subset is reported through `miss` and translated to the (ill-typed)
//! term `UNTRANSLATED`, so the generated file does not compile and the obligations that depend
//! on it break -- the check driver then searches for a failing input.
//!
//! The meaning of the library calls (HashMap::get/insert, OsString::push, ...) is given by a
//! table of Gallina functions supplied by the caller: those are the environment model.
use quote::ToTokens;
use std::collections::BTreeSet;
use syn::{Block, Expr, Pat, Stmt};

pub struct Config {
    /// method name -> Gallina template for an expression; `{r}` receiver, `{0}`, `{1}` arguments
    pub methods: Vec<(&'static str, &'static str)>,
    /// mutating method name -> Gallina template for the NEW value of the receiver
    pub mutators: Vec<(&'static str, &'static str)>,
    /// method of `self` that transforms the whole state: name -> (Gallina function, state variables it
    /// takes and returns, in order)
    pub state_calls: Vec<(&'static str, &'static str, Vec<&'static str>)>,
    /// associated function / constructor path (squashed) -> Gallina term
    pub calls: Vec<(&'static str, &'static str)>,
    /// enum variant (last path segment) -> Gallina constructor
    pub variants: Vec<(&'static str, &'static str)>,
    /// Gallina boolean equality used for `==`
    pub eq: &'static str,
    /// what `mem::take` leaves behind (the Default of the places it is used on)
    pub take_default: &'static str,
    /// fallible functions (returning `Result`) -> Gallina template of a computation in the file-system monad `M`
    pub mcalls: Vec<(&'static str, &'static str)>,
    /// fallible METHODS (`recv.m(args)?`) -> template (`{r}` receiver)
    pub mmethods: Vec<(&'static str, &'static str)>,
    /// how a variable is rendered by `format!` / Display when it is not a string: variable -> Gallina template (`{v}`)
    pub display: Vec<(&'static str, &'static str)>,
}

pub struct Tr<'c> {
    pub cfg: &'c Config,
    pub missing: Vec<String>,
    /// `mem::take(&mut P)` met while translating the current statement: (fresh name, place).  The
    /// statement is prefixed with `let fresh := P in let P := <default> in`.
    takes: Vec<(String, String)>,
    fresh: usize,
}

fn squash(t: impl ToTokens) -> String {
    t.to_token_stream().to_string().split_whitespace().collect::<String>()
}

fn sanitize(id: &str) -> String {
    match id {
        "end" | "in" | "at" | "as" | "fix" | "fun" | "let" | "match" | "with" | "then" | "else" | "if" | "return" | "where" | "using" | "type" => format!("{id}_"),
        _ => id.to_string(),
    }
}

/// Gallina `list N` literal for a string
pub fn bytes_lit(st: &str) -> String {
    let parts: Vec<String> = st.as_bytes().iter().map(|b| b.to_string()).collect();
    if parts.is_empty() { "(@nil N)".to_string() } else { format!("[{}]", parts.join("; ")) }
}

/// `x`, `self.f`, `self.f.g` (also behind `&`, `&mut`, `*`, parentheses) -> flat variable name
pub fn place_name(e: &Expr) -> Option<String> {
    match e {
        Expr::Path(p) if p.path.segments.len() == 1 => Some(sanitize(&p.path.segments[0].ident.to_string())),
        Expr::Field(f) => {
            let base = place_name(&f.base)?;
            match &f.member {
                syn::Member::Named(i) => Some(format!("{base}_{i}")),
                syn::Member::Unnamed(i) => Some(format!("{base}_{}", i.index)),
            }
        }
        Expr::Reference(r) => place_name(&r.expr),
        Expr::Paren(p) => place_name(&p.expr),
        Expr::Group(g) => place_name(&g.expr),
        Expr::Unary(u) if matches!(u.op, syn::UnOp::Deref(_)) => place_name(&u.expr),
        _ => None,
    }
}

fn fill(tpl: &str, r: &str, args: &[String]) -> String {
    let mut s = tpl.replace("{r}", r);
    for (i, a) in args.iter().enumerate() {
        s = s.replace(&format!("{{{i}}}"), a);
    }
    s
}

fn tuple(vars: &[String]) -> String {
    match vars.len() {
        0 => "tt".to_string(),
        1 => vars[0].clone(),
        _ => format!("({})", vars.join(", ")),
    }
}

fn bind(vars: &[String], rhs: &str, rest: &str) -> String {
    match vars.len() {
        0 => rest.to_string(),
        1 => format!("let {} := {rhs} in\n{rest}", vars[0]),
        _ => format!("let '({}) := {rhs} in\n{rest}", vars.join(", ")),
    }
}

impl<'c> Tr<'c> {
    pub fn new(cfg: &'c Config) -> Self {
        Tr { cfg, missing: vec![], takes: vec![], fresh: 0 }
    }

    fn miss(&mut self, what: String) -> String {
        self.missing.push(what);
        "UNTRANSLATED".to_string()
    }

    // ---------------------------------------------------------------- expressions
    pub fn expr(&mut self, e: &Expr) -> String {
        match e {
            Expr::Paren(p) => self.expr(&p.expr),
            Expr::Group(g) => self.expr(&g.expr),
            Expr::Reference(r) => self.expr(&r.expr),
            Expr::Unary(u) => match u.op {
                syn::UnOp::Deref(_) => self.expr(&u.expr),
                syn::UnOp::Not(_) => format!("(negb {})", self.expr(&u.expr)),
                _ => self.miss(format!("unary operator in `{}`", squash(e))),
            },
            Expr::Binary(b) => {
                let (l, r) = (self.expr(&b.left), self.expr(&b.right));
                match b.op {
                    syn::BinOp::Eq(_) => format!("({} {l} {r})", self.cfg.eq),
                    syn::BinOp::Ne(_) => format!("(negb ({} {l} {r}))", self.cfg.eq),
                    syn::BinOp::And(_) => format!("({l} && {r})"),
                    syn::BinOp::Or(_) => format!("({l} || {r})"),
                    _ => self.miss(format!("binary operator in `{}`", squash(e))),
                }
            }
            Expr::Try(t) if place_name(&t.expr).is_some() => self.expr(&t.expr),
            // a field the configuration declares as a projection of a record value (key `.field` in `methods`)
            Expr::Field(f) if matches!(&f.member, syn::Member::Named(i) if self.cfg.methods.iter().any(|(k, _)| *k == format!(".{i}"))) => {
                let syn::Member::Named(i) = &f.member else { unreachable!() };
                let key = format!(".{i}");
                let tpl = self.cfg.methods.iter().find(|(k, _)| *k == key).map(|(_, t)| *t).unwrap();
                let r = self.expr(&f.base);
                fill(tpl, &r, &[])
            }
            Expr::Path(_) | Expr::Field(_) => match place_name(e) {
                Some(n) => n,
                None => {
                    let s = squash(e);
                    if let Some((_, g)) = self.cfg.calls.iter().find(|(k, _)| *k == s) {
                        return (*g).to_string();
                    }
                    // `Enum::Variant` used as a value
                    let last = s.rsplit("::").next().unwrap_or("").to_string();
                    match self.cfg.variants.iter().find(|(k, _)| *k == last) {
                        Some((_, g)) => (*g).to_string(),
                        None => self.miss(format!("path `{s}`")),
                    }
                }
            },
            // a struct literal the configuration gives a meaning to (key `Name{}` in `calls`; the template names the
            // variables it is built from)
            Expr::Struct(st) => {
                let key = format!("{}{{}}", st.path.segments.last().map(|s| s.ident.to_string()).unwrap_or_default());
                match self.cfg.calls.iter().find(|(k, _)| *k == key) {
                    Some((_, g)) => (*g).to_string(),
                    None => self.miss(format!("struct literal `{key}`")),
                }
            }
            Expr::Call(c) => {
                let f = squash(&c.func);
                if (f == "mem::take" || f == "std::mem::take") && c.args.len() == 1 {
                    return match place_name(&c.args[0]) {
                        Some(p) => {
                            self.fresh += 1;
                            let t = format!("taken_{}", self.fresh);
                            self.takes.push((t.clone(), p));
                            t
                        }
                        None => self.miss(format!("mem::take of `{}`", squash(&c.args[0]))),
                    };
                }
                let args: Vec<String> = c.args.iter().map(|a| self.expr(a)).collect();
                if let Some((_, g)) = self.cfg.calls.iter().find(|(k, _)| *k == f) {
                    return fill(g, "", &args);
                }
                // a closure stored in a field or local: `(self.mapping_fn)(x)`
                match place_name(&c.func) {
                    Some(p) => format!("({p} {})", args.join(" ")),
                    None => self.miss(format!("call of `{f}`")),
                }
            }
            Expr::Match(m) if m.arms.iter().any(|a| some_str_lit(&a.pat).is_some()) => {
                // `match x { Some("a") => A, Some("b") => B, Some(_) | None => D }` on an Option<&str>: a chain of
                // comparisons (byte strings are compared with beq)
                let scrut = self.expr(&m.expr);
                let mut chain: Vec<(String, String)> = vec![];
                let mut dflt_some: Option<String> = None;
                let mut dflt_none: Option<String> = None;
                for a in &m.arms {
                    let body = self.expr(&a.body);
                    if let Some(lit) = some_str_lit(&a.pat) {
                        chain.push((bytes_lit(&lit), body));
                    } else {
                        let ps = squash(&a.pat);
                        if ps.contains("Some(_)") || ps == "_" {
                            dflt_some = Some(body.clone());
                        }
                        if ps.contains("None") || ps == "_" {
                            dflt_none = Some(body.clone());
                        }
                    }
                }
                let (Some(ds), Some(dn)) = (dflt_some, dflt_none) else {
                    return self.miss(format!("string match without defaults `{}`", squash(&m.expr)));
                };
                let mut t = ds;
                for (lit, body) in chain.into_iter().rev() {
                    t = format!("(if beq s_ {lit} then {body} else {t})");
                }
                format!("(match {scrut} with Some s_ => {t} | None => {dn} end)")
            }
            Expr::Match(m) => {
                // a match used as a value: every arm is an expression
                let scrut = self.expr(&m.expr);
                let mut arms = String::new();
                for a in &m.arms {
                    let pat = self.value_pattern(&a.pat);
                    let body = self.expr(&a.body);
                    arms.push_str(&format!(" | {pat} => {body}"));
                }
                format!("(match {scrut} with{arms} end)")
            }
            Expr::MethodCall(m) if m.method == "to_string" && m.args.is_empty() => {
                // Display: the identity on strings, `Config::display` for everything else
                let r = self.expr(&m.receiver);
                let key = place_name(&m.receiver).unwrap_or_default();
                self.displayed(&key, r)
            }
            Expr::MethodCall(m) => {
                let name = m.method.to_string();
                let r = self.expr(&m.receiver);
                let args: Vec<String> = m.args.iter().map(|a| self.expr(a)).collect();
                match self.cfg.methods.iter().find(|(k, _)| *k == name) {
                    Some((_, tpl)) => fill(tpl, &r, &args),
                    None => self.miss(format!("method `{name}` in `{}`", squash(e))),
                }
            }
            Expr::Tuple(t) if t.elems.is_empty() => "tt".to_string(),
            Expr::Lit(l) => match &l.lit {
                syn::Lit::Str(st) => bytes_lit(&st.value()),
                syn::Lit::Bool(b) => b.value.to_string(),
                _ => self.miss(format!("literal `{}`", squash(e))),
            },
            Expr::Array(a) => {
                let items: Vec<String> = a.elems.iter().map(|x| self.expr(x)).collect();
                format!("[{}]", items.join("; "))
            }
            Expr::Macro(m) if m.mac.path.is_ident("format") => self.format_macro(&m.mac),
            _ => self.miss(format!("expression `{}`", squash(e))),
        }
    }

    /// `format!("lit {name} lit {}", arg)` -> concatenation of byte strings (Display of strings is the identity;
    /// other types through `Config::display`)
    fn format_macro(&mut self, mac: &syn::Macro) -> String {
        use syn::punctuated::Punctuated;
        let Ok(args) = mac.parse_body_with(Punctuated::<Expr, syn::Token![,]>::parse_terminated) else {
            return self.miss(format!("format! arguments `{}`", squash(&mac.tokens)));
        };
        let mut it = args.iter();
        let Some(Expr::Lit(syn::ExprLit { lit: syn::Lit::Str(fs), .. })) = it.next() else {
            return self.miss("format! without a literal format string".to_string());
        };
        let positional: Vec<&Expr> = it.collect();
        let mut next_pos = 0;
        let mut pieces: Vec<String> = vec![];
        let mut lit = String::new();
        let f = fs.value();
        let mut chars = f.chars().peekable();
        while let Some(c) = chars.next() {
            match c {
                '{' if chars.peek() == Some(&'{') => {
                    chars.next();
                    lit.push('{');
                }
                '}' if chars.peek() == Some(&'}') => {
                    chars.next();
                    lit.push('}');
                }
                '{' => {
                    let mut name = String::new();
                    for d in chars.by_ref() {
                        if d == '}' {
                            break;
                        }
                        name.push(d);
                    }
                    if !lit.is_empty() {
                        pieces.push(bytes_lit(&lit));
                        lit.clear();
                    }
                    if name.contains(':') {
                        pieces.push(self.miss(format!("format specifier `{{{name}}}`")));
                    } else if name.is_empty() {
                        match positional.get(next_pos) {
                            Some(a) => {
                                let t = self.expr(a);
                                let key = place_name(a).unwrap_or_default();
                                pieces.push(self.displayed(&key, t));
                            }
                            None => pieces.push(self.miss("format! positional argument".to_string())),
                        }
                        next_pos += 1;
                    } else {
                        let v = sanitize(&name);
                        pieces.push(self.displayed(&name, v));
                    }
                }
                other => lit.push(other),
            }
        }
        if !lit.is_empty() {
            pieces.push(bytes_lit(&lit));
        }
        match pieces.len() {
            0 => "(@nil N)".to_string(),
            1 => pieces.remove(0),
            _ => format!("({})", pieces.join(" ++ ")),
        }
    }

    /// `Enum::Variant` / `Enum::Variant(x)` as a Gallina pattern
    fn value_pattern(&mut self, p: &Pat) -> String {
        let (name, binders): (String, Vec<String>) = match p {
            Pat::Path(pp) => (pp.path.segments.last().map(|s| s.ident.to_string()).unwrap_or_default(), vec![]),
            Pat::Ident(i) => (i.ident.to_string(), vec![]),
            Pat::TupleStruct(ts) => {
                let mut b = vec![];
                for e in &ts.elems {
                    pat_idents(e, &mut b);
                }
                (ts.path.segments.last().map(|s| s.ident.to_string()).unwrap_or_default(), b)
            }
            Pat::Wild(_) => ("_".to_string(), vec![]),
            other => (squash(other), vec![]),
        };
        let con = match self.cfg.variants.iter().find(|(k, _)| *k == name) {
            Some((_, g)) => (*g).to_string(),
            None if name == "_" || name == "None" || name == "Some" => name,
            None => self.miss(format!("match pattern `{name}`")),
        };
        if binders.is_empty() { con } else { format!("{con} {}", binders.join(" ")) }
    }

    // ---------------------------------------------------------------- value functions and the result monad
    /// a block used as a value: `let`s followed by the value expression
    pub fn vstmts(&mut self, stmts: &[Stmt]) -> String {
        let Some((first, rest)) = stmts.split_first() else {
            return "tt".to_string();
        };
        match first {
            Stmt::Local(l) => {
                let (Pat::Ident(pi), Some(init)) = (&l.pat, &l.init) else {
                    return self.miss(format!("let `{}`", squash(&l.pat)));
                };
                let name = sanitize(&pi.ident.to_string());
                let rhs = self.expr(&init.expr);
                let k = self.vstmts(rest);
                format!("let {name} := {rhs} in\n{k}")
            }
            Stmt::Expr(e, None) if rest.is_empty() => self.expr(e),
            other => self.miss(format!("statement `{}` in a value block", squash(other))),
        }
    }

    /// a fallible expression (`Result<_, _>`) as a computation in `M`
    pub fn mexpr(&mut self, e: &Expr) -> String {
        match e {
            Expr::Paren(p) => self.mexpr(&p.expr),
            Expr::Reference(r) => self.mexpr(&r.expr),
            // error conversions do not change which operation failed or whether it failed
            Expr::MethodCall(m) if m.method == "map_err" => self.mexpr(&m.receiver),
            Expr::MethodCall(m) => {
                let name = m.method.to_string();
                let Some(tpl) = self.cfg.mmethods.iter().find(|(k, _)| *k == name).map(|(_, t)| *t) else {
                    return self.miss(format!("fallible method `{name}`"));
                };
                let r = self.expr(&m.receiver);
                let args: Vec<String> = m.args.iter().map(|a| self.expr(a)).collect();
                fill(tpl, &r, &args)
            }
            Expr::Call(c) => {
                let f = squash(&c.func);
                if f == "Ok" && c.args.len() == 1 {
                    let v = self.expr(&c.args[0]);
                    return format!("(ret {v})");
                }
                let Some(tpl) = self.cfg.mcalls.iter().find(|(k, _)| *k == f).map(|(_, t)| *t) else {
                    return self.miss(format!("fallible call `{f}`"));
                };
                // an argument that is itself a fallible call (default_on_not_found(fs::remove_file(..))) stays a computation
                let args: Vec<String> = c
                    .args
                    .iter()
                    .map(|a| {
                        let inner = match a {
                            Expr::Reference(r) => &*r.expr,
                            o => o,
                        };
                        match inner {
                            Expr::Call(ic) if self.cfg.mcalls.iter().any(|(k, _)| *k == squash(&ic.func)) => self.mexpr(inner),
                            _ => self.expr(a),
                        }
                    })
                    .collect();
                fill(tpl, "", &args)
            }
            other => self.miss(format!("fallible expression `{}`", squash(other))),
        }
    }

    /// the statements of a function returning `Result<(), _>` as a computation of type `M unit`
    pub fn mstmts(&mut self, stmts: &[Stmt]) -> String {
        let Some((first, rest)) = stmts.split_first() else {
            return "ret tt".to_string();
        };
        match first {
            Stmt::Local(l) => {
                let (Pat::Ident(pi), Some(init)) = (&l.pat, &l.init) else {
                    return self.miss(format!("let `{}`", squash(&l.pat)));
                };
                let name = sanitize(&pi.ident.to_string());
                if let Expr::Try(t) = &*init.expr {
                    let m = self.mexpr(&t.expr);
                    let k = self.mstmts(rest);
                    format!("{name} <- {m} ;;\n{k}")
                } else {
                    let rhs = self.expr(&init.expr);
                    let k = self.mstmts(rest);
                    format!("let {name} := {rhs} in\n{k}")
                }
            }
            // `use ..;` inside a block
            Stmt::Item(_) => self.mstmts(rest),
            // statements compiled only on other platforms
            Stmt::Expr(e, _) if crate::util::cfg_excludes_unix(expr_attrs(e)) => self.mstmts(rest),
            // `#[cfg(unix)] { .. }`: the block's statements are part of the sequence
            Stmt::Expr(Expr::Block(b), _) => {
                let mut all: Vec<Stmt> = b.block.stmts.clone();
                all.extend(rest.iter().cloned());
                self.mstmts(&all)
            }
            Stmt::Expr(Expr::Try(t), Some(_)) => {
                let m = self.mexpr(&t.expr);
                let k = self.mstmts(rest);
                format!("{m} ;;;\n{k}")
            }
            // a mutating call on a local (`file_name.push(ext)`)
            Stmt::Expr(Expr::MethodCall(m), Some(_)) if self.cfg.mutators.iter().any(|(k, _)| *k == m.method.to_string()) => {
                let tpl = self.cfg.mutators.iter().find(|(k, _)| *k == m.method.to_string()).map(|(_, t)| *t).unwrap();
                let Some(p) = place_name(&m.receiver) else {
                    return self.miss(format!("statement `{}`", squash(m)));
                };
                let args: Vec<String> = m.args.iter().map(|a| self.expr(a)).collect();
                let rhs = fill(tpl, &p, &args);
                let k = self.mstmts(rest);
                format!("let {p} := {rhs} in\n{k}")
            }
            Stmt::Expr(Expr::ForLoop(fl), _) => {
                let item = pat_term(&fl.pat);
                let iter = self.expr(&fl.expr);
                let body = self.mstmts(&fl.body.stmts);
                let k = self.mstmts(rest);
                format!("iterM (fun item_ =>\nlet '{item} := item_ in\n{body}) {iter} ;;;\n{k}")
            }
            Stmt::Expr(Expr::If(i), _) if !matches!(&*i.cond, Expr::Let(_)) && self.reads_state(&i.cond) => {
                // the condition looks at the file system (`path.exists()`): it is evaluated in the state the
                // statement runs in
                let c = self.expr(&i.cond);
                let t = self.mstmts(&i.then_branch.stmts);
                let f = match &i.else_branch {
                    None => "ret tt".to_string(),
                    Some((_, eb)) => match &**eb {
                        Expr::Block(b) => self.mstmts(&b.block.stmts),
                        other => self.miss(format!("else branch `{}`", squash(other))),
                    },
                };
                let k = self.mstmts(rest);
                format!("(fun st_ => (if {c} then\n{t}\nelse {f}) st_) ;;;\n{k}")
            }
            Stmt::Expr(Expr::If(i), _) if !matches!(&*i.cond, Expr::Let(_)) => {
                let c = self.expr(&i.cond);
                let ends_in_return = matches!(i.then_branch.stmts.last(), Some(Stmt::Expr(Expr::Return(_), _)));
                let t = self.mstmts(&i.then_branch.stmts);
                match (&i.else_branch, ends_in_return) {
                    // `if c { ..; return X; }`: the rest runs only when c is false
                    (None, true) => {
                        let k = self.mstmts(rest);
                        format!("if {c} then\n{t}\nelse\n{k}")
                    }
                    (None, false) => {
                        let k = self.mstmts(rest);
                        format!("(if {c} then\n{t}\nelse ret tt) ;;;\n{k}")
                    }
                    (Some((_, eb)), _) => {
                        let f = match &**eb {
                            Expr::Block(b) => self.mstmts(&b.block.stmts),
                            other => self.miss(format!("else branch `{}`", squash(other))),
                        };
                        if rest.is_empty() {
                            format!("if {c} then\n{t}\nelse\n{f}")
                        } else {
                            let k = self.mstmts(rest);
                            format!("(if {c} then\n{t}\nelse\n{f}) ;;;\n{k}")
                        }
                    }
                }
            }
            Stmt::Expr(Expr::Return(r), _) => match &r.expr {
                Some(v) => self.mvalue(v),
                None => "ret tt".to_string(),
            },
            Stmt::Expr(e, None) if rest.is_empty() => self.mvalue(e),
            other => self.miss(format!("statement `{}`", squash(other))),
        }
    }

    // ---------------------------------------------------------------- result monad with local mutable state
    /// Statements of a `Result`-returning function that also mutates locals: a computation `M (tuple of ret)`.
    /// `on_continue`: inside a loop body, what `continue` yields (the loop's state tuple).
    pub fn mst(&mut self, stmts: &[Stmt], scope: &mut Vec<String>, ret: &[String], on_continue: Option<&str>) -> String {
        let Some((first, rest)) = stmts.split_first() else {
            return format!("ret {}", tuple(ret));
        };
        match first {
            Stmt::Item(_) => self.mst(rest, scope, ret, on_continue),
            Stmt::Local(l) => {
                if crate::util::cfg_excludes_unix(&l.attrs) {
                    return self.mst(rest, scope, ret, on_continue);
                }
                let (Pat::Ident(pi), Some(init)) = (&l.pat, &l.init) else {
                    return self.miss(format!("let `{}`", squash(&l.pat)));
                };
                let name = sanitize(&pi.ident.to_string());
                // `let x = { use ..; EXPR };`
                let mut e: &Expr = &init.expr;
                if let Expr::Block(b) = e {
                    if let Some(Stmt::Expr(last, None)) = b.block.stmts.last() {
                        if b.block.stmts[..b.block.stmts.len() - 1].iter().all(|s| matches!(s, Stmt::Item(_))) {
                            e = last;
                        }
                    }
                }
                let head = match e {
                    Expr::Try(t) if place_name(&t.expr).is_none() => format!("{name} <- {} ;;", self.mexpr(&t.expr)),
                    // `f(g(..)?)`: the fallible argument is bound first
                    Expr::Call(c) if c.args.len() == 1 && matches!(&c.args[0], Expr::Try(t) if place_name(&t.expr).is_none()) => {
                        let Expr::Try(t) = &c.args[0] else { unreachable!() };
                        let m = self.mexpr(&t.expr);
                        self.fresh += 1;
                        let tmp = format!("tmp_{}", self.fresh);
                        let f = squash(&c.func);
                        let pure = match self.cfg.calls.iter().find(|(k, _)| *k == f) {
                            Some((_, g)) => fill(g, "", &[tmp.clone()]),
                            None => self.miss(format!("call of `{f}`")),
                        };
                        format!("{tmp} <- {m} ;;\nlet {name} := {pure} in")
                    }
                    other => format!("let {name} := {} in", self.expr(other)),
                };
                scope.push(name);
                let k = self.mst(rest, scope, ret, on_continue);
                scope.pop();
                format!("{head}\n{k}")
            }
            // `local.field = e;` on a record value the configuration gives an update for (key `.field=` in `methods`)
            Stmt::Expr(Expr::Assign(a), Some(_))
                if matches!(&*a.left, Expr::Field(f) if matches!(&f.member, syn::Member::Named(i)
                    if self.cfg.methods.iter().any(|(k, _)| *k == format!(".{i}=")))) =>
            {
                let Expr::Field(f) = &*a.left else { unreachable!() };
                let syn::Member::Named(i) = &f.member else { unreachable!() };
                let key = format!(".{i}=");
                let tpl = self.cfg.methods.iter().find(|(k, _)| *k == key).map(|(_, t)| *t).unwrap();
                let Some(base) = place_name(&f.base).filter(|b| scope.contains(b)) else {
                    return self.miss(format!("assignment `{}`", squash(&*a.left)));
                };
                let rhs = self.expr(&a.right);
                let k = self.mst(rest, scope, ret, on_continue);
                format!("let {base} := {} in\n{k}", fill(tpl, &base, &[rhs]))
            }
            Stmt::Expr(Expr::Continue(_), _) => match on_continue {
                Some(c) => c.to_string(),
                None => self.miss("continue outside a loop".to_string()),
            },
            // mutating call on a local in scope
            Stmt::Expr(Expr::MethodCall(m), Some(_)) if self.cfg.mutators.iter().any(|(k, _)| *k == m.method.to_string()) => {
                let tpl = self.cfg.mutators.iter().find(|(k, _)| *k == m.method.to_string()).map(|(_, t)| *t).unwrap();
                let Some(p) = place_name(&m.receiver).filter(|p| scope.contains(p)) else {
                    return self.miss(format!("statement `{}`", squash(m)));
                };
                let args: Vec<String> = m.args.iter().map(|a| self.expr(a)).collect();
                let rhs = fill(tpl, &p, &args);
                let k = self.mst(rest, scope, ret, on_continue);
                format!("let {p} := {rhs} in\n{k}")
            }
            Stmt::Expr(Expr::ForLoop(fl), _) => {
                let w = self.writes(&Expr::ForLoop(fl.clone()), scope);
                let wt = tuple(&w);
                let iter_bind = match &*fl.expr {
                    Expr::Try(t) => format!("it_ <- {} ;;", self.mexpr(&t.expr)),
                    other => format!("let it_ := {} in", self.expr(other)),
                };
                let mut ids = vec![];
                pat_idents(&fl.pat, &mut ids);
                for id in &ids {
                    scope.push(id.clone());
                }
                let cont = format!("ret {wt}");
                let body = self.mst(&fl.body.stmts, scope, &w, Some(&cont));
                for _ in &ids {
                    scope.pop();
                }
                let item = pat_term(&fl.pat);
                let k = self.mst(rest, scope, ret, on_continue);
                let binder = if w.len() == 1 { w[0].clone() } else { format!("'{wt}") };
                format!("{iter_bind}\n{binder} <- foldM (fun acc_ item_ =>\nlet '({wt}, {item}) := (acc_, item_) in\n{body}) it_ {wt} ;;\n{k}")
            }
            // `if c { continue; }` / `if c { return ..; }` guards, and ordinary conditionals
            Stmt::Expr(Expr::If(i), _) if !matches!(&*i.cond, Expr::Let(_)) => {
                let reads = self.reads_state(&i.cond);
                let c = self.expr(&i.cond);
                let exits = matches!(i.then_branch.stmts.last(), Some(Stmt::Expr(Expr::Continue(_) | Expr::Return(_), _)));
                let w = self.writes(&Expr::If(i.clone()), scope);
                let term = if exits && i.else_branch.is_none() {
                    let t = self.mst(&i.then_branch.stmts, scope, ret, on_continue);
                    let k = self.mst(rest, scope, ret, on_continue);
                    format!("if {c} then\n{t}\nelse\n{k}")
                } else if exits && matches!(&i.else_branch, Some((_, eb)) if matches!(&**eb, Expr::If(_))) {
                    // `if a { ..; return X; } else if b { .. }` = `if a { ..; return X; }` followed by `if b { .. }`
                    let t = self.mst(&i.then_branch.stmts, scope, ret, on_continue);
                    let Some((_, eb)) = &i.else_branch else { unreachable!() };
                    let mut all: Vec<Stmt> = vec![Stmt::Expr((**eb).clone(), None)];
                    all.extend(rest.iter().cloned());
                    let k = self.mst(&all, scope, ret, on_continue);
                    format!("if {c} then\n{t}\nelse\n{k}")
                } else {
                    let t = self.mst(&i.then_branch.stmts, scope, &w, on_continue);
                    let f = match &i.else_branch {
                        None => format!("ret {}", tuple(&w)),
                        Some((_, eb)) => match &**eb {
                            Expr::Block(b) => self.mst(&b.block.stmts, scope, &w, on_continue),
                            other => self.miss(format!("else branch `{}`", squash(other))),
                        },
                    };
                    let k = self.mst(rest, scope, ret, on_continue);
                    let binder = match w.len() {
                        0 => "_".to_string(),
                        1 => w[0].clone(),
                        _ => format!("'{}", tuple(&w)),
                    };
                    format!("{binder} <- (if {c} then\n{t}\nelse\n{f}) ;;\n{k}")
                };
                if reads { format!("(fun st_ => ({term}) st_)") } else { term }
            }
            // `if let Some(x) = e { .. }` (no else)
            Stmt::Expr(Expr::If(i), _) => {
                let Expr::Let(l) = &*i.cond else { unreachable!() };
                let (Some(x), true) = (some_binding(&l.pat), i.else_branch.is_none()) else {
                    return self.miss(format!("if-let `{}`", squash(&l.pat)));
                };
                let w = self.writes(&Expr::If(i.clone()), scope);
                let scrut = self.expr(&l.expr);
                scope.push(x.clone());
                let t = self.mst(&i.then_branch.stmts, scope, &w, on_continue);
                scope.pop();
                let k = self.mst(rest, scope, ret, on_continue);
                let binder = match w.len() {
                    0 => "_".to_string(),
                    1 => w[0].clone(),
                    _ => format!("'{}", tuple(&w)),
                };
                format!("{binder} <- (match {scrut} with\n| Some {x} =>\n{t}\n| None => ret {}\nend) ;;\n{k}", tuple(&w))
            }
            Stmt::Expr(Expr::Try(t), Some(_)) => {
                let m = self.mexpr(&t.expr);
                let k = self.mst(rest, scope, ret, on_continue);
                format!("{m} ;;;\n{k}")
            }
            Stmt::Expr(Expr::Return(r), _) => match &r.expr {
                Some(v) => self.mst_value(v),
                None => self.miss("bare return".to_string()),
            },
            Stmt::Expr(e, None) if rest.is_empty() => self.mst_value(e),
            other => self.miss(format!("statement `{}`", squash(other))),
        }
    }

    /// `Ok(state_var)` / `Ok(expr)` / a fallible call at the end of a stateful function
    fn mst_value(&mut self, e: &Expr) -> String {
        if let Expr::Call(c) = e {
            if squash(&c.func) == "Ok" && c.args.len() == 1 {
                return format!("ret {}", self.expr(&c.args[0]));
            }
        }
        self.mexpr(e)
    }

    /// does the (pure-looking) expression read the file system?  (its translation mentions the state variable)
    fn reads_state(&mut self, e: &Expr) -> bool {
        let saved = self.missing.len();
        let t = self.expr(e);
        self.missing.truncate(saved);
        t.contains("st_")
    }

    /// the value a `Result`-returning function ends with
    fn mvalue(&mut self, e: &Expr) -> String {
        let s = squash(e);
        if s == "Ok(())" {
            return "ret tt".to_string();
        }
        if let Expr::Call(c) = e {
            if squash(&c.func) == "Err" {
                let what = c.args.first().map(squash).unwrap_or_default();
                return match self.cfg.mcalls.iter().find(|(k, _)| what.starts_with(*k)) {
                    Some((_, tpl)) => (*tpl).to_string(),
                    None => self.miss(format!("error value `{what}`")),
                };
            }
        }
        self.mexpr(e)
    }

    fn displayed(&self, key: &str, term: String) -> String {
        match self.cfg.display.iter().find(|(k, _)| *k == key) {
            Some((_, tpl)) => tpl.replace("{v}", &term),
            None => term,
        }
    }

    // ---------------------------------------------------------------- assigned variables
    fn assigned_expr(&self, e: &Expr, out: &mut BTreeSet<String>) {
        match e {
            Expr::MethodCall(m) => {
                let name = m.method.to_string();
                if self.cfg.mutators.iter().any(|(k, _)| *k == name) {
                    let mut root: &Expr = &m.receiver;
                    while let Expr::MethodCall(inner) = root {
                        root = &inner.receiver;
                    }
                    if let Some(p) = place_name(root) {
                        out.insert(p);
                    }
                }
                if let Some((_, _, vars)) = self.cfg.state_calls.iter().find(|(k, _, _)| *k == name) {
                    out.extend(vars.iter().map(|v| (*v).to_string()));
                }
                self.assigned_expr(&m.receiver, out);
                for a in &m.args {
                    self.assigned_expr(a, out);
                }
            }
            Expr::Try(t) => self.assigned_expr(&t.expr, out),
            Expr::Call(c) => {
                let f = squash(&c.func);
                if (f == "mem::take" || f == "std::mem::take") && c.args.len() == 1 {
                    if let Some(p) = place_name(&c.args[0]) {
                        out.insert(p);
                    }
                }
                for a in &c.args {
                    self.assigned_expr(a, out);
                }
            }
            Expr::Reference(r) => self.assigned_expr(&r.expr, out),
            Expr::Assign(a) => {
                if let Some(p) = place_name(&a.left) {
                    out.insert(p);
                }
            }
            Expr::If(i) => {
                self.assigned_block(&i.then_branch, out);
                if let Some((_, e)) = &i.else_branch {
                    self.assigned_expr(e, out);
                }
            }
            Expr::Block(b) => self.assigned_block(&b.block, out),
            Expr::ForLoop(fl) => self.assigned_block(&fl.body, out),
            Expr::Match(m) => {
                // `match PLACE { Some(ref mut x) => .. }`: mutating the payload mutates the place
                let payload = m.arms.iter().find_map(|a| some_binding(&a.pat));
                let mut inner = BTreeSet::new();
                for a in &m.arms {
                    self.assigned_expr(&a.body, &mut inner);
                }
                if let Some(x) = payload {
                    if inner.remove(&x) {
                        if let Some(p) = place_name(&m.expr) {
                            out.insert(p);
                        }
                    }
                }
                out.extend(inner);
            }
            Expr::Paren(p) => self.assigned_expr(&p.expr, out),
            _ => {}
        }
    }

    fn assigned_block(&self, b: &Block, out: &mut BTreeSet<String>) {
        let mut locals: BTreeSet<String> = BTreeSet::new();
        let mut inner = BTreeSet::new();
        for s in &b.stmts {
            match s {
                Stmt::Local(l) => {
                    if let Pat::Ident(pi) = &l.pat {
                        locals.insert(sanitize(&pi.ident.to_string()));
                    }
                    if let Some(init) = &l.init {
                        self.assigned_expr(&init.expr, &mut inner);
                    }
                }
                Stmt::Expr(e, _) => self.assigned_expr(e, &mut inner),
                _ => {}
            }
        }
        for v in inner {
            if !locals.contains(&v) {
                out.insert(v);
            }
        }
    }

    /// variables (in the order of `scope`) that executing `e` as a statement may re-bind
    fn writes(&self, e: &Expr, scope: &[String]) -> Vec<String> {
        let mut set = BTreeSet::new();
        self.assigned_expr(e, &mut set);
        scope.iter().filter(|v| set.contains(*v)).cloned().collect()
    }

    // ---------------------------------------------------------------- statements
    /// Gallina term for "execute `stmts`, then yield the tuple `ret`"
    pub fn stmts(&mut self, stmts: &[Stmt], scope: &mut Vec<String>, ret: &[String]) -> String {
        let Some((first, rest)) = stmts.split_first() else {
            return tuple(ret);
        };
        match first {
            Stmt::Local(l) => {
                let Pat::Ident(pi) = &l.pat else {
                    return self.miss(format!("let pattern `{}`", squash(&l.pat)));
                };
                let name = sanitize(&pi.ident.to_string());
                let Some(init) = &l.init else {
                    return self.miss(format!("let without initialiser `{name}`"));
                };
                // `let _result = self.state_call();` -- the (infallible) result is dropped, the state changes
                if name.starts_with('_') {
                    if let Expr::MethodCall(m) = &*init.expr {
                        if self.cfg.state_calls.iter().any(|(k, _, _)| *k == m.method.to_string()) {
                            let k = self.stmts(rest, scope, ret);
                            return self.stmt_then(&init.expr, scope, k);
                        }
                    }
                }
                let rhs = self.expr(&init.expr);
                let takes = std::mem::take(&mut self.takes);
                scope.push(name.clone());
                let k = self.stmts(rest, scope, ret);
                scope.pop();
                self.with_takes(takes, format!("let {name} := {rhs} in\n{k}"))
            }
            Stmt::Expr(e, semi) => {
                // a trailing expression without `;` that is not a statement form is the block's value: only `()` accepted
                if semi.is_none() && rest.is_empty() && !matches!(e, Expr::If(_) | Expr::Match(_) | Expr::MethodCall(_) | Expr::Block(_) | Expr::Try(_) | Expr::ForLoop(_)) {
                    // the function's value: a variable that is part of the requested result
                    if let Some(v) = place_name(e) {
                        if ret.contains(&v) {
                            return tuple(ret);
                        }
                    }
                    if let Expr::Tuple(t) = e {
                        if t.elems.is_empty() {
                            return tuple(ret);
                        }
                    }
                    return self.miss(format!("block value `{}`", squash(e)));
                }
                // guard: `if C { return Ok(()); }` -- the rest runs only when C is false
                if let Expr::If(i) = e {
                    if i.else_branch.is_none() && is_return_ok_unit(&i.then_branch) {
                        let c = self.expr(&i.cond);
                        let k = self.stmts(rest, scope, ret);
                        return format!("if {c} then\n{}\nelse\n{k}", tuple(ret));
                    }
                }
                let k = self.stmts(rest, scope, ret);
                self.stmt_then(e, scope, k)
            }
            other => self.miss(format!("statement `{}`", squash(other))),
        }
    }

    /// `let fresh := P in let P := default in term` for every hoisted `mem::take(&mut P)`
    fn with_takes(&mut self, takes: Vec<(String, String)>, term: String) -> String {
        let mut t = term;
        for (fresh, place) in takes.into_iter().rev() {
            t = format!("let {fresh} := {place} in\nlet {place} := {} in\n{t}", self.cfg.take_default);
        }
        t
    }

    /// the expression statement `e` followed by the (already translated) continuation `k`
    fn stmt_then(&mut self, e: &Expr, scope: &mut Vec<String>, k: String) -> String {
        let head = self.stmt_expr(e, scope);
        let takes = std::mem::take(&mut self.takes);
        let body = match head {
            Some((vars, rhs)) => bind(&vars, &rhs, &k),
            None => k,
        };
        self.with_takes(takes, body)
    }

    /// one expression statement -> (re-bound variables, Gallina term computing their tuple)
    fn stmt_expr(&mut self, e: &Expr, scope: &mut Vec<String>) -> Option<(Vec<String>, String)> {
        match e {
            Expr::Paren(p) => self.stmt_expr(&p.expr, scope),
            Expr::Try(t) => self.stmt_expr(&t.expr, scope), // `?` on a call that the environment model makes infallible
            Expr::Tuple(t) if t.elems.is_empty() => None,
            Expr::MethodCall(m) => {
                let name = m.method.to_string();
                if let Some((_, g, vars)) = self.cfg.state_calls.iter().find(|(k, _, _)| *k == name) {
                    let vs: Vec<String> = vars.iter().map(|v| (*v).to_string()).collect();
                    return Some((vs.clone(), format!("{g} {}", vs.join(" "))));
                }
                // `place.m1(a).m2(b)`: builder-style chain of mutators on one place
                let mut chain: Vec<&syn::ExprMethodCall> = vec![m];
                let mut root: &Expr = &m.receiver;
                while let Expr::MethodCall(inner) = root {
                    chain.push(inner);
                    root = &inner.receiver;
                }
                chain.reverse();
                let Some(p) = place_name(root).filter(|p| scope.contains(p)) else {
                    return Some((vec![], self.miss(format!("statement `{}`", squash(e)))));
                };
                let mut cur = p.clone();
                for call in chain {
                    let n = call.method.to_string();
                    let Some(tpl) = self.cfg.mutators.iter().find(|(k, _)| *k == n).map(|(_, t)| *t) else {
                        return Some((vec![], self.miss(format!("statement `{}`", squash(e)))));
                    };
                    let args: Vec<String> = call.args.iter().map(|a| self.expr(a)).collect();
                    cur = fill(tpl, &cur, &args);
                }
                Some((vec![p], cur))
            }
            // `if let Some(x) = PLACE { .. }` (no else)
            Expr::If(i) if matches!(&*i.cond, Expr::Let(_)) => {
                let Expr::Let(l) = &*i.cond else { unreachable!() };
                let w = self.writes(e, scope);
                let (Some(x), true) = (some_binding(&l.pat), i.else_branch.is_none()) else {
                    return Some((vec![], self.miss(format!("if-let `{}`", squash(&l.pat)))));
                };
                let scrut = self.expr(&l.expr);
                scope.push(x.clone());
                let t = self.stmts(&i.then_branch.stmts, scope, &w);
                scope.pop();
                Some((w.clone(), format!("(match {scrut} with\n| Some {x} =>\n{t}\n| None =>\n{}\nend)", tuple(&w))))
            }
            // `for PAT in ITER { .. }`: a left fold over the collection's entries in iteration order
            Expr::ForLoop(fl) => {
                let w = self.writes(e, scope);
                let mut ids = vec![];
                pat_idents(&fl.pat, &mut ids);
                let iter = self.expr(&fl.expr);
                for id in &ids {
                    scope.push(id.clone());
                }
                let body = self.stmts(&fl.body.stmts, scope, &w);
                for _ in &ids {
                    scope.pop();
                }
                let item = pat_term(&fl.pat);
                Some((w.clone(), format!("(fold_left (fun acc_ item_ =>\nlet '{} := (acc_, item_) in\n{body}) {iter} {})", pair(&tuple(&w), &item), tuple(&w))))
            }
            Expr::If(i) => {
                let w = self.writes(e, scope);
                let c = self.expr(&i.cond);
                let t = self.stmts(&i.then_branch.stmts, scope, &w);
                let f = match &i.else_branch {
                    None => tuple(&w),
                    Some((_, eb)) => match &**eb {
                        Expr::Block(b) => self.stmts(&b.block.stmts, scope, &w),
                        Expr::If(_) => match self.stmt_expr(eb, scope) {
                            Some((vars, rhs)) => bind(&vars, &rhs, &tuple(&w)),
                            None => tuple(&w),
                        },
                        other => self.miss(format!("else branch `{}`", squash(other))),
                    },
                };
                Some((w, format!("(if {c} then\n{t}\nelse\n{f})")))
            }
            Expr::Block(b) => {
                let w = self.writes(e, scope);
                let t = self.stmts(&b.block.stmts, scope, &w);
                Some((w, format!("({t})")))
            }
            Expr::Match(m) => {
                let w = self.writes(e, scope);
                let scrut = self.expr(&m.expr);
                let place = place_name(&m.expr);
                let mut arms = String::new();
                for a in &m.arms {
                    if a.guard.is_some() {
                        arms.push_str(&self.miss(format!("match guard in `{}`", squash(&a.pat))));
                    }
                    // `Some(ref mut x)`: x is a variable of the arm; the place becomes `Some x` afterwards
                    let payload = some_binding(&a.pat);
                    let (cons, ret): (String, Vec<String>) = if let Some(x) = &payload {
                        let ret = w.iter().map(|v| if Some(v) == place.as_ref() { format!("(Some {x})") } else { v.clone() }).collect();
                        (format!("Some {x}"), ret)
                    } else {
                        let mut pats = vec![];
                        collect_variants(&a.pat, &mut pats);
                        let mut cons = vec![];
                        for p in pats {
                            match self.cfg.variants.iter().find(|(k, _)| *k == p) {
                                Some((_, g)) => cons.push((*g).to_string()),
                                None => cons.push(if p == "_" || p == "None" { p } else { self.miss(format!("match pattern `{p}`")) }),
                            }
                        }
                        (cons.join(" | "), w.clone())
                    };
                    if let Some(x) = &payload {
                        scope.push(x.clone());
                    }
                    let body = match &*a.body {
                        Expr::Block(b) => self.stmts(&b.block.stmts, scope, &ret),
                        Expr::Tuple(t) if t.elems.is_empty() => tuple(&ret),
                        Expr::Call(c) if squash(c) == "Ok(())" => tuple(&ret),
                        other => {
                            let k = tuple(&ret);
                            self.stmt_then(other, scope, k)
                        }
                    };
                    if payload.is_some() {
                        scope.pop();
                    }
                    arms.push_str(&format!("| {cons} =>\n{body}\n"));
                }
                Some((w, format!("(match {scrut} with\n{arms}end)")))
            }
            other => Some((vec![], self.miss(format!("statement `{}`", squash(other))))),
        }
    }
}

/// `Some(ref mut x)` / `Some(x)` -> x
fn some_binding(p: &Pat) -> Option<String> {
    if let Pat::TupleStruct(ts) = p {
        if ts.path.segments.last().is_some_and(|s| s.ident == "Some") && ts.elems.len() == 1 {
            if let Pat::Ident(i) = &ts.elems[0] {
                return Some(sanitize(&i.ident.to_string()));
            }
        }
    }
    None
}

/// `Some("literal")` -> the literal
fn some_str_lit(p: &Pat) -> Option<String> {
    if let Pat::TupleStruct(ts) = p {
        if ts.path.segments.last().is_some_and(|s| s.ident == "Some") && ts.elems.len() == 1 {
            if let Pat::Lit(l) = &ts.elems[0] {
                if let syn::Lit::Str(st) = &l.lit {
                    return Some(st.value());
                }
            }
        }
    }
    None
}

fn is_return_ok_unit(b: &Block) -> bool {
    b.stmts.len() == 1 && squash(&b.stmts[0]) == "returnOk(());"
}

fn expr_attrs(e: &Expr) -> &[syn::Attribute] {
    match e {
        Expr::Block(b) => &b.attrs,
        Expr::Try(t) => match &*t.expr {
            Expr::Call(c) => if t.attrs.is_empty() { &c.attrs } else { &t.attrs },
            _ => &t.attrs,
        },
        Expr::Call(c) => &c.attrs,
        Expr::MethodCall(m) => &m.attrs,
        Expr::If(i) => &i.attrs,
        _ => &[],
    }
}

fn collect_variants(p: &Pat, out: &mut Vec<String>) {
    match p {
        Pat::Or(o) => {
            for c in &o.cases {
                collect_variants(c, out);
            }
        }
        Pat::Wild(_) => out.push("_".into()),
        Pat::Path(pp) => out.push(pp.path.segments.last().map(|s| s.ident.to_string()).unwrap_or_default()),
        Pat::Ident(i) => out.push(i.ident.to_string()),
        Pat::Reference(r) => collect_variants(&r.pat, out),
        other => out.push(squash(other)),
    }
}

fn pair(a: &str, b: &str) -> String {
    format!("({a}, {b})")
}

/// a `for` pattern as a Gallina pattern: `(a, b)` / `x`
fn pat_term(p: &Pat) -> String {
    match p {
        Pat::Ident(i) => sanitize(&i.ident.to_string()),
        Pat::Tuple(t) => format!("({})", t.elems.iter().map(pat_term).collect::<Vec<_>>().join(", ")),
        Pat::Reference(r) => pat_term(&r.pat),
        Pat::Paren(pp) => pat_term(&pp.pat),
        _ => "_".to_string(),
    }
}

/// names bound by a `for` pattern such as `((a, b), c)` / `&x`, in source order
pub fn pat_idents(p: &Pat, out: &mut Vec<String>) {
    match p {
        Pat::Ident(i) => out.push(sanitize(&i.ident.to_string())),
        Pat::Tuple(t) => {
            for e in &t.elems {
                pat_idents(e, out);
            }
        }
        Pat::Reference(r) => pat_idents(&r.pat, out),
        Pat::Paren(pp) => pat_idents(&pp.pat, out),
        _ => {}
    }
}

/// indent a generated term for readability
pub fn indent(term: &str, by: usize) -> String {
    let pad = " ".repeat(by);
    term.lines().map(|l| format!("{pad}{l}")).collect::<Vec<_>>().join("\n")
}
