//! How every fallible file-system call site in the layer / runtime / toml-file code consumes its
//! Result -> GenIoSites.v.  Per statement containing a call to one of the I/O callees the
//! consumption is classified syntactically:
//!   Try          the call's value flows into `?`
//!   NotFoundTry  wrapped in default_on_not_found(...) and then `?`
//!   Tail         the statement is the tail expression of its block (the value is returned)
//!   Matched      scrutinee of a match / if-let (the arms decide; listed by name for review)
//!   Chained      consumed by a combinator chain that ends in a tail or `?` (and_then / map_err / map)
//!   Discarded    `let _ =`, `.ok();`, or an expression statement whose value is dropped
use crate::Out;
use crate::util::*;
use quote::ToTokens;
use std::fmt::Write as _;
use std::path::Path;
use syn::visit::Visit;

const CALLEES: &[&str] = &[
    "fs::write(", "fs::read_to_string(", "fs::read(", "fs::remove_file(", "fs::remove_dir(", "fs::remove_dir_all(", "fs::create_dir_all(",
    "fs::create_dir(", "fs::copy(", "fs::set_permissions(", "fs::read_dir(", "fs::symlink_metadata(", "fs::metadata(", "fs::rename(",
    "write_toml_file(", "read_toml_file(", "read_toml_file::<", "remove_dir_recursively(", ".write_to_layer_dir(", ".write_to_env_dir(",
    "read_from_layer_dir(", "read_from_env_dir(", "delete_layer(", "write_layer(", "replace_layer_metadata(", "replace_layer_types(",
    "replace_layer_sboms(", "replace_layer_exec_d_programs(", "read_layer(", "read_layer::<", "create_layer(", "handle_create_layer(",
    "handle_update_layer(", "cnb_runtime_build(", "write_sboms(",
];

fn squash(t: impl ToTokens) -> String {
    t.to_token_stream().to_string().split_whitespace().collect::<String>()
}

struct Sites {
    file: String,
    func: String,
    out: Vec<(String, String, String, String)>, // file, fn, callee, kind
}

fn callee_in(s: &str) -> Option<&'static str> {
    CALLEES.iter().copied().find(|c| s.contains(c))
}

impl Sites {
    fn classify_stmt(&mut self, text: &str, is_tail: bool) {
        // the innermost statements are visited separately; here only statements that directly hold a call
        let Some(c) = callee_in(text) else { return };
        let kind = if text.starts_with("let_=") || text.contains(".ok();") || text.ends_with(".ok()") {
            "Discarded"
        } else if text.contains("default_on_not_found(") {
            if text.contains(")?") { "NotFoundTry" } else if is_tail { "Tail" } else { "Discarded" }
        } else if text.starts_with("match") || text.starts_with("letlayer_data=match") || text.starts_with("iflet") {
            "Matched"
        } else if text.contains("?;") || text.ends_with('?') || text.contains(")?.") || text.contains("?)") || text.contains("?,") {
            "Try"
        } else if is_tail || text.starts_with("return") {
            if text.contains(".and_then(") || text.contains(".map_err(") || text.contains(".map(") { "Chained" } else { "Tail" }
        } else if text.starts_with("let") && !text.starts_with("let_") {
            // bound to a name: consumed later; the binding's uses are separate statements
            "Bound"
        } else {
            "Discarded"
        };
        self.out.push((self.file.clone(), self.func.clone(), c.trim_end_matches(['(', '<', ':']).to_string(), kind.to_string()));
    }

    fn block(&mut self, b: &syn::Block) {
        let n = b.stmts.len();
        for (i, st) in b.stmts.iter().enumerate() {
            let is_tail = i + 1 == n && matches!(st, syn::Stmt::Expr(_, None));
            self.stmt(st, is_tail);
        }
    }

    fn stmt(&mut self, st: &syn::Stmt, is_tail: bool) {
        // descend into nested blocks first (closures, match arms, if/for bodies), then classify the leaf
        struct Inner<'a>(&'a mut Sites, bool);
        impl<'ast> Visit<'ast> for Inner<'_> {
            fn visit_block(&mut self, b: &'ast syn::Block) {
                self.1 = true;
                self.0.block(b);
            }
        }
        let mut inner = Inner(self, false);
        match st {
            syn::Stmt::Local(l) => {
                if let Some(init) = &l.init {
                    inner.visit_expr(&init.expr);
                }
            }
            syn::Stmt::Expr(e, _) => inner.visit_expr(e),
            _ => {}
        }
        let had_blocks = inner.1;
        let text = squash(st);
        if had_blocks {
            // only the part before the first nested block belongs to this statement (e.g. the match scrutinee)
            let head: String = match st {
                syn::Stmt::Expr(syn::Expr::Match(m), _) => format!("match{}", squash(&m.expr)),
                syn::Stmt::Expr(syn::Expr::If(i), _) => format!("if{}", squash(&i.cond)),
                syn::Stmt::Expr(syn::Expr::ForLoop(f), _) => format!("for{}", squash(&f.expr)),
                syn::Stmt::Local(l) => match l.init.as_ref().map(|i| &*i.expr) {
                    Some(syn::Expr::Match(m)) => format!("let{}=match{}", squash(&l.pat), squash(&m.expr)),
                    Some(syn::Expr::If(i)) => format!("let{}=if{}", squash(&l.pat), squash(&i.cond)),
                    _ => String::new(),
                },
                _ => String::new(),
            };
            if head.is_empty() {
                // closures with block bodies (map_err(|e| {...})) do not change how the value is consumed
                self.classify_stmt(&text, is_tail);
            } else {
                self.classify_stmt(&head, false);
            }
        } else {
            self.classify_stmt(&text, is_tail);
        }
    }
}

pub fn translate(repo: &Path, out: &mut Out) {
    let files = [
        "libcnb/src/layer/shared.rs",
        "libcnb/src/layer/struct_api/handling.rs",
        "libcnb/src/layer/struct_api/mod.rs",
        "libcnb/src/layer/trait_api/handling.rs",
        "libcnb/src/layer_env.rs",
        "libcnb/src/runtime.rs",
        "libcnb/src/util.rs",
        "libcnb/src/sbom.rs",
        "libcnb-common/src/toml_file.rs",
    ];
    let mut all: Vec<(String, String, String, String)> = vec![];
    for f in files {
        let Some(file) = parse_file(&repo.join(f)) else {
            out.miss(format!("io sites: cannot parse {f}"));
            continue;
        };
        fn walk(items: &[syn::Item], f: &str, all: &mut Vec<(String, String, String, String)>) {
            for it in items {
                match it {
                    syn::Item::Fn(func) => {
                        let mut s = Sites { file: f.to_string(), func: func.sig.ident.to_string(), out: vec![] };
                        s.block(&func.block);
                        all.append(&mut s.out);
                    }
                    syn::Item::Impl(imp) => {
                        for ii in &imp.items {
                            if let syn::ImplItem::Fn(func) = ii {
                                let mut s = Sites { file: f.to_string(), func: format!("{}::{}", type_name(&imp.self_ty), func.sig.ident), out: vec![] };
                                s.block(&func.block);
                                all.append(&mut s.out);
                            }
                        }
                    }
                    syn::Item::Mod(m) => {
                        // test modules are not part of the shipped behaviour
                        if m.ident == "tests" || m.ident == "test" {
                            continue;
                        }
                        if let Some((_, items)) = &m.content {
                            walk(items, f, all);
                        }
                    }
                    _ => {}
                }
            }
        }
        walk(&file.items, f, &mut all);
    }
    let mut v = String::from("From Coq Require Import List NArith.\nImport ListNotations.\nFrom LV Require Import FaultProp.\nOpen Scope N_scope.\n");
    let rows: Vec<String> = all.iter().map(|(f, func, c, k)| format!("({}, {}, {}, {k})", coq_bytes(f), coq_bytes(func), coq_bytes(c))).collect();
    let _ = writeln!(v, "Definition io_sites : list (list N * list N * list N * consume) := [\n  {}\n].", rows.join(";\n  "));
    out.coq("GenIoSites.v").push_str(&v);
    out.json.insert(
        "io_sites".into(),
        serde_json::json!(all.iter().map(|(f, func, c, k)| serde_json::json!([f, func, c, k])).collect::<Vec<_>>()),
    );
}
