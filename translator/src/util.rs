use std::path::Path;
use syn::{Expr, File, ImplItem, ImplItemFn, Item, ItemFn, Pat};

pub fn parse_file(path: &Path) -> Option<File> {
    let src = std::fs::read_to_string(path).ok()?;
    syn::parse_file(&src).ok()
}

pub fn type_name(ty: &syn::Type) -> String {
    match ty {
        syn::Type::Path(p) => p.path.segments.last().map(|s| s.ident.to_string()).unwrap_or_default(),
        syn::Type::Reference(r) => type_name(&r.elem),
        _ => String::new(),
    }
}

/// Find `fn name` inside an inherent or trait impl for `ty` (trait_name = None for inherent).
pub fn find_impl_fn<'a>(file: &'a File, ty: &str, trait_name: Option<&str>, name: &str) -> Option<&'a ImplItemFn> {
    fn walk<'a>(items: &'a [Item], ty: &str, trait_name: Option<&str>, name: &str) -> Option<&'a ImplItemFn> {
        for item in items {
            match item {
                Item::Impl(imp) => {
                    if type_name(&imp.self_ty) != ty {
                        continue;
                    }
                    let tn = imp.trait_.as_ref().and_then(|(_, p, _)| p.segments.last()).map(|s| s.ident.to_string());
                    if tn.as_deref() != trait_name {
                        continue;
                    }
                    for ii in &imp.items {
                        if let ImplItem::Fn(f) = ii {
                            if f.sig.ident == name {
                                return Some(f);
                            }
                        }
                    }
                }
                Item::Mod(m) => {
                    if let Some((_, items)) = &m.content {
                        if let Some(f) = walk(items, ty, trait_name, name) {
                            return Some(f);
                        }
                    }
                }
                _ => {}
            }
        }
        None
    }
    walk(&file.items, ty, trait_name, name)
}

pub fn find_free_fn<'a>(file: &'a File, name: &str) -> Option<&'a ItemFn> {
    file.items.iter().find_map(|i| match i {
        Item::Fn(f) if f.sig.ident == name => Some(f),
        _ => None,
    })
}

/// Last path segment of a pattern like `ModificationBehavior::Append` or `Scope::Process(x)`.
pub fn pat_variant(p: &Pat) -> Option<String> {
    match p {
        Pat::Path(pp) => pp.path.segments.last().map(|s| s.ident.to_string()),
        Pat::TupleStruct(ts) => ts.path.segments.last().map(|s| s.ident.to_string()),
        Pat::Ident(i) => Some(i.ident.to_string()),
        Pat::Struct(s) => s.path.segments.last().map(|s| s.ident.to_string()),
        _ => None,
    }
}

pub fn expr_variant(e: &Expr) -> Option<String> {
    match e {
        Expr::Path(p) => p.path.segments.last().map(|s| s.ident.to_string()),
        Expr::Call(c) => expr_variant(&c.func),
        Expr::Reference(r) => expr_variant(&r.expr),
        Expr::Paren(p) => expr_variant(&p.expr),
        _ => None,
    }
}

pub fn lit_str(e: &Expr) -> Option<String> {
    match e {
        Expr::Lit(l) => match &l.lit {
            syn::Lit::Str(s) => Some(s.value()),
            _ => None,
        },
        Expr::Reference(r) => lit_str(&r.expr),
        Expr::Paren(p) => lit_str(&p.expr),
        Expr::Group(g) => lit_str(&g.expr),
        _ => None,
    }
}

pub fn lit_int(e: &Expr) -> Option<i128> {
    match e {
        Expr::Lit(l) => match &l.lit {
            syn::Lit::Int(i) => i.base10_parse::<i128>().ok(),
            _ => None,
        },
        Expr::Unary(u) => {
            if matches!(u.op, syn::UnOp::Neg(_)) {
                lit_int(&u.expr).map(|v| -v)
            } else {
                None
            }
        }
        Expr::Paren(p) => lit_int(&p.expr),
        Expr::Group(g) => lit_int(&g.expr),
        _ => None,
    }
}

/// Coq `list N` literal for the bytes of a string.
pub fn coq_bytes(s: &str) -> String {
    let parts: Vec<String> = s.as_bytes().iter().map(|b| b.to_string()).collect();
    format!("[{}]", parts.join("; "))
}

/// True if any `#[cfg(...)]` attribute on the item excludes unix (windows / not(unix)).
pub fn cfg_excludes_unix(attrs: &[syn::Attribute]) -> bool {
    use quote::ToTokens;
    for a in attrs {
        if a.path().is_ident("cfg") {
            let t = a.meta.to_token_stream().to_string().replace(' ', "");
            if t.contains("windows") || t.contains("not(target_family=\"unix\")") || t.contains("not(unix)") {
                return true;
            }
        }
    }
    false
}
