//! Facts of libcnb/src/util.rs, libcnb/src/layer/shared.rs, libcnb/src/sbom.rs -> GenLayerShared.v
use crate::Out;
use crate::util::*;
use quote::ToTokens;
use serde_json::json;
use std::fmt::Write as _;
use std::path::Path;
use syn::visit::Visit;

fn squash(t: impl ToTokens) -> String {
    t.to_token_stream().to_string().split_whitespace().collect::<String>()
}

struct Matches<'ast> {
    found: Vec<&'ast syn::ExprMatch>,
}
impl<'ast> Visit<'ast> for Matches<'ast> {
    fn visit_expr_match(&mut self, m: &'ast syn::ExprMatch) {
        self.found.push(m);
        syn::visit::visit_expr_match(self, m);
    }
}

pub fn translate(repo: &Path, out: &mut Out) {
    let mut v = String::from("From LV Require Import Base.\n\n");
    let mut j = serde_json::Map::new();
    // ---- util.rs: remove_dir_recursively
    if let Some(file) = parse_file(&repo.join("libcnb/src/util.rs")) {
        if let Some(f) = find_free_fn(&file, "remove_dir_recursively") {
            let body = squash(&f.block);
            let checks_symlink = body.contains("symlink_metadata()?.file_type().is_symlink()") && body.contains("returnfs::remove_file(dir)");
            let chmod = body.contains("Permissions::from_mode(0o777)") && body.contains("fs::set_permissions(dir,permissions)?;");
            let entry_type = body.contains("ifentry.file_type()?.is_dir(){remove_dir_recursively(&path)?;}else{fs::remove_file(path)?;}");
            let rmdir = body.ends_with("fs::remove_dir(dir)}");
            let _ = writeln!(v, "Definition rdr_checks_symlink : bool := {checks_symlink}.");
            let _ = writeln!(v, "Definition rdr_chmod_0777 : bool := {chmod}.");
            let _ = writeln!(v, "Definition rdr_entry_type_no_follow : bool := {entry_type}.");
            let _ = writeln!(v, "Definition rdr_ends_with_rmdir : bool := {rmdir}.");
            j.insert("remove_dir_recursively".into(), json!(body));
        } else {
            out.miss("util.rs: fn remove_dir_recursively");
        }
        if let Some(f) = find_free_fn(&file, "default_on_not_found") {
            let ok = squash(&f.block) == "{matchresult{Err(io_error)ifis_not_found_error_kind(&io_error)=>Ok(T::default()),other=>other,}}";
            let _ = writeln!(v, "Definition default_on_not_found_shape_ok : bool := {ok}.");
        } else {
            out.miss("util.rs: fn default_on_not_found");
        }
    } else {
        out.miss("util.rs: cannot parse");
    }

    // ---- bodies translated statement by statement (imp.rs) into the file-system monad: SBOM_FORMATS, cnb_sbom_path,
    //      delete_layer -> GenLayerSharedImp.v
    {
        let cfg = crate::imp::Config {
            methods: vec![("as_ref", "{r}"), ("as_str", "{r}"), ("join", "({r} ++ [{0}])")],
            mutators: vec![],
            state_calls: vec![],
            calls: vec![("cnb_sbom_path", "(gen_cnb_sbom_path {0} {1} {2})")],
            variants: vec![("CycloneDxJson", "CycloneDxJson"), ("SpdxJson", "SpdxJson"), ("SyftJson", "SyftJson")],
            eq: "beq",
            take_default: "(@nil N)",
            mcalls: vec![
                ("fs::remove_file", "(unlink {0})"),
                ("default_on_not_found", "(default_on_not_found {0})"),
                ("remove_dir_recursively", "(rdr {0})"),
            ],
            mmethods: vec![],
            display: vec![],
        };
        let mut g = String::from("From LV Require Import Base Toml FS LayerShared ImpPrims ImpTypes.\nOpen Scope N_scope.\n\n");
        // const SBOM_FORMATS: &[SbomFormat] = &[..]
        let mut formats: Option<Vec<String>> = None;
        if let Some(file) = parse_file(&repo.join("libcnb-data/src/sbom.rs")) {
            for it in &file.items {
                if let syn::Item::Const(c) = it {
                    if c.ident == "SBOM_FORMATS" {
                        let mut e: &syn::Expr = &c.expr;
                        while let syn::Expr::Reference(r) = e {
                            e = &r.expr;
                        }
                        if let syn::Expr::Array(a) = e {
                            formats = Some(a.elems.iter().filter_map(expr_variant).collect());
                        }
                    }
                }
            }
        }
        match formats {
            Some(fs) => {
                let _ = writeln!(g, "(* libcnb-data/src/sbom.rs *)\nDefinition SBOM_FORMATS : list sbom_format := [{}].", fs.join("; "));
            }
            None => out.miss("libcnb-data/src/sbom.rs: const SBOM_FORMATS"),
        }
        if let Some(file) = parse_file(&repo.join("libcnb/src/sbom.rs")) {
            if let Some(f) = find_free_fn(&file, "cnb_sbom_path") {
                let mut tr = crate::imp::Tr::new(&cfg);
                let term = tr.vstmts(&f.block.stmts);
                for m in &tr.missing {
                    out.miss(format!("libcnb/src/sbom.rs: cnb_sbom_path: {m}"));
                }
                let _ = writeln!(g, "(* libcnb/src/sbom.rs: fn cnb_sbom_path *)\nDefinition gen_cnb_sbom_path (sbom_format : sbom_format) (base_directory : path) (base_name : bytes) : path :=\n{}.", crate::imp::indent(&term, 2));
            } else {
                out.miss("libcnb/src/sbom.rs: fn cnb_sbom_path");
            }
        }
        if let Some(file) = parse_file(&repo.join("libcnb/src/layer/shared.rs")) {
            if let Some(f) = find_free_fn(&file, "delete_layer") {
                let mut tr = crate::imp::Tr::new(&cfg);
                let term = tr.mstmts(&f.block.stmts);
                for m in &tr.missing {
                    out.miss(format!("shared.rs: delete_layer: {m}"));
                }
                let _ = writeln!(g, "(* libcnb/src/layer/shared.rs: fn delete_layer *)\nDefinition gen_delete_layer (layers_dir : path) (layer_name : bytes) : M unit :=\n{}.", crate::imp::indent(&term, 2));
            }
        }
        // replace_layer_sboms: an `Sbom` is (format, data)
        let cfg2 = crate::imp::Config {
            methods: vec![("as_ref", "{r}"), ("as_str", "{r}"), ("clone", "{r}"), ("join", "({r} ++ [{0}])"), ("is_dir", "(is_dir {r} st_)"),
                          (".format", "(fst {r})"), (".data", "(snd {r})")],
            mutators: vec![],
            state_calls: vec![],
            calls: vec![("cnb_sbom_path", "(gen_cnb_sbom_path {0} {1} {2})")],
            variants: vec![],
            eq: "beq",
            take_default: "(@nil N)",
            mcalls: vec![
                ("fs::remove_file", "(unlink {0})"),
                ("default_on_not_found", "(default_on_not_found {0})"),
                ("fs::write", "(write_file {0} (Raw {1}))"),
                ("ReplaceLayerSbomsError::MissingLayer", "(fail EINVAL)"),
            ],
            mmethods: vec![],
            display: vec![],
        };
        if let Some(file) = parse_file(&repo.join("libcnb/src/layer/shared.rs")) {
            if let Some(f) = find_free_fn(&file, "replace_layer_sboms") {
                let mut tr = crate::imp::Tr::new(&cfg2);
                let term = tr.mstmts(&f.block.stmts);
                for m in &tr.missing {
                    out.miss(format!("shared.rs: replace_layer_sboms: {m}"));
                }
                let _ = writeln!(g, "(* libcnb/src/layer/shared.rs: fn replace_layer_sboms; MissingLayer is reported as EINVAL *)\nDefinition gen_replace_layer_sboms (layers_dir : path) (layer_name : bytes) (sboms : list (sbom_format * bytes)) : M unit :=\n{}.", crate::imp::indent(&term, 2));
            } else {
                out.miss("shared.rs: fn replace_layer_sboms");
            }
        }
        // read_layer: the value returned is (layer directory, parsed content metadata); parsing is a parameter
        let cfg3 = crate::imp::Config {
            methods: vec![("as_ref", "{r}"), ("as_str", "{r}"), ("clone", "{r}"), ("join", "({r} ++ [{0}])"),
                          ("exists", "(exists_ {r} st_)"), ("symlink_metadata", "(lstat {r} st_)"), ("is_err", "(res_is_err (snd {r}))")],
            mutators: vec![],
            state_calls: vec![],
            calls: vec![("ReadLayer{}", "(layer_dir_path, layer_content_metadata)")],
            variants: vec![],
            eq: "beq",
            take_default: "(@nil N)",
            mcalls: vec![
                ("fs::remove_file", "(unlink {0})"),
                ("fs::write", "(write_file {0} (Raw {1}))"),
                ("fs::read_to_string", "(read_string {0})"),
                ("toml::from_str::<LayerContentMetadata<M>>", "(lift_parse parse {0})"),
            ],
            mmethods: vec![],
            display: vec![],
        };
        if let Some(file) = parse_file(&repo.join("libcnb/src/layer/shared.rs")) {
            if let Some(f) = find_free_fn(&file, "read_layer") {
                let mut tr = crate::imp::Tr::new(&cfg3);
                let term = tr.mst(&f.block.stmts, &mut vec![], &[], None);
                for m in &tr.missing {
                    out.miss(format!("shared.rs: read_layer: {m}"));
                }
                let _ = writeln!(g, "(* libcnb/src/layer/shared.rs: fn read_layer; the result is the layer directory and the parsed content metadata *)\nDefinition gen_read_layer {{A}} (parse : bytes -> option A) (layers_dir : path) (layer_name : bytes) : M (option (path * A)) :=\n{}.", crate::imp::indent(&term, 2));
            } else {
                out.miss("shared.rs: fn read_layer");
            }
        }
        // write_layer: the directory and the content-metadata document (its TOML encoding is a parameter)
        let cfg4 = crate::imp::Config {
            methods: vec![("as_ref", "{r}"), ("as_str", "{r}"), ("clone", "{r}"), ("join", "({r} ++ [{0}])")],
            mutators: vec![],
            state_calls: vec![],
            calls: vec![],
            variants: vec![],
            eq: "beq",
            take_default: "(@nil N)",
            mcalls: vec![
                ("fs::create_dir_all", "(create_dir_all (S (length {0})) {0})"),
                ("write_toml_file", "(write_file {1} (Doc (enc {0})))"),
            ],
            mmethods: vec![],
            display: vec![],
        };
        if let Some(file) = parse_file(&repo.join("libcnb/src/layer/shared.rs")) {
            if let Some(f) = find_free_fn(&file, "write_layer") {
                let mut tr = crate::imp::Tr::new(&cfg4);
                let term = tr.mstmts(&f.block.stmts);
                for m in &tr.missing {
                    out.miss(format!("shared.rs: write_layer: {m}"));
                }
                let _ = writeln!(g, "(* libcnb/src/layer/shared.rs: fn write_layer; `enc` is the TOML encoding of the content metadata *)\nDefinition gen_write_layer {{T}} (enc : T -> tv) (layers_dir : path) (layer_name : bytes) (layer_content_metadata : T) : M unit :=\n{}.", crate::imp::indent(&term, 2));
            } else {
                out.miss("shared.rs: fn write_layer");
            }
        }
        // replace_layer_types / replace_layer_metadata: the content metadata is a pair (types, metadata); parsing and
        // encoding of the document are parameters
        let cfg5 = crate::imp::Config {
            methods: vec![("as_ref", "{r}"), ("as_str", "{r}"), ("clone", "{r}"), ("join", "({r} ++ [{0}])"),
                          (".types", "(fst {r})"), (".metadata", "(snd {r})"), (".types=", "({0}, snd {r})")],
            mutators: vec![],
            state_calls: vec![],
            calls: vec![("LayerContentMetadata{}", "(fst content_metadata, metadata)")],
            variants: vec![],
            eq: "beq",
            take_default: "(@nil N)",
            mcalls: vec![
                ("read_toml_file::<LayerContentMetadata>", "(read_doc parse {0})"),
                ("write_toml_file", "(write_file {1} (Doc (enc {0})))"),
            ],
            mmethods: vec![],
            display: vec![],
        };
        if let Some(file) = parse_file(&repo.join("libcnb/src/layer/shared.rs")) {
            for (name, sig) in [
                ("replace_layer_types", "(layer_types : Ty)"),
                ("replace_layer_metadata", "(metadata : Md)"),
            ] {
                if let Some(f) = find_free_fn(&file, name) {
                    let mut tr = crate::imp::Tr::new(&cfg5);
                    let term = tr.mst(&f.block.stmts, &mut vec![], &[], None);
                    for m in &tr.missing {
                        out.miss(format!("shared.rs: {name}: {m}"));
                    }
                    let _ = writeln!(g, "(* libcnb/src/layer/shared.rs: fn {name}; content metadata = (types, metadata) *)\nDefinition gen_{name} {{Ty Md}} (parse : bytes -> option (option Ty * Md)) (enc : option Ty * Md -> tv) (layers_dir : path) (layer_name : bytes) {sig} : M unit :=\n{}.", crate::imp::indent(&term, 2));
                } else {
                    out.miss(format!("shared.rs: fn {name}"));
                }
            }
        }
        out.coq("GenLayerSharedImp.v").push_str(&g);
    }
    // ---- shared.rs: delete_layer
    if let Some(file) = parse_file(&repo.join("libcnb/src/layer/shared.rs")) {
        if let Some(f) = find_free_fn(&file, "delete_layer") {
            let body = squash(&f.block);
            let dir = body.contains("default_on_not_found(remove_dir_recursively(&layer_dir))?;");
            let toml = body.contains("default_on_not_found(fs::remove_file(layer_toml))?;")
                && body.contains("letlayer_toml=layers_dir.as_ref().join(format!(\"{layer_name}.toml\"));")
                && body.contains("letlayer_dir=layers_dir.as_ref().join(layer_name.as_str());");
            let sboms = body.contains("forformatinSBOM_FORMATS{default_on_not_found(fs::remove_file(cnb_sbom_path(format,");
            let _ = writeln!(v, "Definition delete_layer_removes_dir : bool := {dir}.");
            let _ = writeln!(v, "Definition delete_layer_removes_toml : bool := {toml}.");
            let _ = writeln!(v, "Definition delete_layer_removes_sboms : bool := {sboms}.");
            j.insert("delete_layer".into(), json!(body));
        } else {
            out.miss("shared.rs: fn delete_layer");
        }
    } else {
        out.miss("shared.rs: cannot parse");
    }
    // ---- sbom suffix table: cnb_sbom_path match arms in SBOM_FORMATS order
    let mut table: Vec<(String, String)> = vec![];
    if let Some(file) = parse_file(&repo.join("libcnb/src/sbom.rs")) {
        if let Some(f) = find_free_fn(&file, "cnb_sbom_path") {
            let mut ms = Matches { found: vec![] };
            ms.visit_block(&f.block);
            if let Some(m) = ms.found.first() {
                for arm in &m.arms {
                    if let (Some(var), Some(s)) = (pat_variant(&arm.pat), lit_str(&arm.body)) {
                        table.push((var, s));
                    }
                }
            }
            let shape = squash(&f.block).contains(".join(format!(\"{base_name}.sbom.{suffix}\"))");
            let _ = writeln!(v, "Definition sbom_path_shape_ok : bool := {shape}.");
        }
    }
    let mut formats: Vec<String> = vec![];
    if let Some(file) = parse_file(&repo.join("libcnb-data/src/sbom.rs")) {
        for it in &file.items {
            if let syn::Item::Const(c) = it {
                if c.ident == "SBOM_FORMATS" {
                    let s = squash(&c.expr);
                    for part in s.trim_start_matches("&[").trim_end_matches(']').split(',') {
                        if let Some(var) = part.rsplit("::").next() {
                            if !var.is_empty() {
                                formats.push(var.to_string());
                            }
                        }
                    }
                }
            }
        }
    }
    if table.is_empty() || formats.is_empty() {
        out.miss("sbom.rs: cnb_sbom_path suffix table / SBOM_FORMATS");
    } else {
        let sfx: Vec<String> = formats
            .iter()
            .filter_map(|f| table.iter().find(|(v, _)| v == f).map(|(_, s)| coq_bytes(s)))
            .collect();
        let _ = writeln!(v, "Definition sbom_suffixes : list (list N) := [{}].", sfx.join("; "));
        let _ = writeln!(v, "Definition sbom_formats_all_have_suffix : bool := {}.", sfx.len() == formats.len() && table.len() == formats.len());
        j.insert("sbom_table".into(), json!(table));
        j.insert("sbom_formats".into(), json!(formats));
    }
    // exec.d copy loop: every program goes to <layer>/exec.d/<name>, name taken verbatim
    if let Some(file) = parse_file(&repo.join("libcnb/src/layer/shared.rs")) {
        match find_free_fn(&file, "replace_layer_exec_d_programs") {
            Some(f) => {
                let b = squash(&f.block);
                let ok = b.contains("for(name,path)inexec_d_programs{")
                    && b.contains("fs::copy(path,exec_d_dir.join(name)).map_err(ReplaceLayerExecdProgramsError::IoError)")
                    && b.contains("letexec_d_dir=layer_dir.join(\"exec.d\");")
                    && b.contains("ifexec_d_dir.is_dir(){fs::remove_dir_all(&exec_d_dir)?;}");
                let _ = writeln!(v, "Definition execd_copy_shape_ok : bool := {ok}.");
            }
            None => out.miss("shared.rs: fn replace_layer_exec_d_programs"),
        }
    }
    // trait API: what the Keep arm of handle_layer does, and the shape facts of the other arms
    match parse_file(&repo.join("libcnb/src/layer/trait_api/handling.rs")) {
        Some(file) => match find_free_fn(&file, "handle_layer") {
            Some(f) => {
                let b = squash(&f.block);
                let keep_start = b.find("ExistingLayerStrategy::Keep=>{");
                let keep_arm = keep_start.map(|i| {
                    let rest = &b[i..];
                    let end = rest.find("Err(ReadLayerError::LayerContentMetadataParseError(_))=>").unwrap_or(rest.len());
                    rest[..end].to_string()
                });
                match keep_arm {
                    Some(arm) => {
                        let only_types = arm.contains("replace_layer_types(&context.layers_dir,&layer_data.name,layer.types())") && !arm.contains("write_layer(");
                        let rereads = arm.contains("read_layer(&context.layers_dir,&layer_name)");
                        let _ = writeln!(v, "Definition trait_keep_refreshes_only : bool := {only_types}.");
                        let _ = writeln!(v, "Definition trait_keep_rereads : bool := {rereads}.");
                    }
                    None => out.miss("trait_api/handling.rs: Keep arm of handle_layer"),
                }
                let recreate = b.contains("ExistingLayerStrategy::Recreate=>{delete_layer(&context.layers_dir,&layer_name)")
                    && b.contains("handle_create_layer(context,&layer_name,&mutlayer)");
                let update = b.contains("ExistingLayerStrategy::Update=>{handle_update_layer(context,&layer_data,&mutlayer)}");
                let migrate = b.contains("MetadataMigration::RecreateLayer=>{delete_layer(&context.layers_dir,&layer_name)")
                    && b.contains("MetadataMigration::ReplaceMetadata(migrated_metadata)=>{write_layer(&context.layers_dir,&layer_name,&generic_layer_data.env,&LayerContentMetadata{types:generic_layer_data.content_metadata.types,metadata:migrated_metadata,},ExecDPrograms::Keep,Sboms::Keep,)")
                    && b.contains("handle_layer(context,layer_name,layer)");
                let _ = writeln!(v, "Definition trait_dispatch_shape_ok : bool := {}.", recreate && update && migrate);
            }
            None => out.miss("trait_api/handling.rs: fn handle_layer"),
        },
        None => out.miss("trait_api/handling.rs: cannot parse"),
    }
    out.coq("GenLayerShared.v").push_str(&v);
    out.json.insert("layer_shared".into(), serde_json::Value::Object(j));
}
