//! Shape facts of libcnb-test (docker.rs, pack.rs, test_runner.rs, test_context.rs,
//! container_context.rs) -> GenLibcnbTest.v
use crate::Out;
use crate::util::*;
use quote::ToTokens;
use std::fmt::Write as _;
use std::path::Path;
use syn::visit::Visit;

fn squash(t: impl ToTokens) -> String {
    t.to_token_stream().to_string().split_whitespace().collect::<String>()
}

/// string literals in source order, including those inside macro invocations (format!, args([..]))
struct Lits(Vec<String>);
impl<'ast> Visit<'ast> for Lits {
    fn visit_lit_str(&mut self, l: &'ast syn::LitStr) {
        self.0.push(l.value());
    }
    fn visit_macro(&mut self, m: &'ast syn::Macro) {
        for tt in m.tokens.clone() {
            collect_tt(&tt, &mut self.0);
        }
    }
}
fn collect_tt(tt: &proc_macro2::TokenTree, out: &mut Vec<String>) {
    match tt {
        proc_macro2::TokenTree::Literal(l) => {
            if let Ok(syn::Lit::Str(s)) = syn::parse_str::<syn::Lit>(&l.to_string()) {
                out.push(s.value());
            }
        }
        proc_macro2::TokenTree::Group(g) => {
            for t in g.stream() {
                collect_tt(&t, out);
            }
        }
        _ => {}
    }
}

fn coq_str_list(l: &[String]) -> String {
    let parts: Vec<String> = l.iter().map(|s| coq_bytes(s)).collect();
    format!("[{}]", parts.join("; "))
}


/// `impl From<ty> for Command { fn from(..) }` in `file`
fn from_impl<'a>(file: &'a syn::File, ty: &str) -> Option<&'a syn::ImplItemFn> {
    file.items.iter().find_map(|i| match i {
        syn::Item::Impl(imp)
            if type_name(&imp.self_ty) == "Command" && imp.trait_.as_ref().is_some_and(|(_, p, _)| squash(p) == format!("From<{ty}>")) =>
        {
            imp.items.iter().find_map(|ii| match ii {
                syn::ImplItem::Fn(f) if f.sig.ident == "from" => Some(f),
                _ => None,
            })
        }
        _ => None,
    })
}

/// the argv builders, statement by statement (imp.rs): the whole body of `fn from` becomes a Gallina function of
/// the command struct's fields that returns the argv (program name first)
fn emit_argv_builders(file: &syn::File, which: &[(&str, &str, &str)], v: &mut String, out: &mut Out) {
    let cfg = crate::imp::Config {
        methods: vec![("to_string_lossy", "{r}"), ("clone", "{r}")],
        mutators: vec![("args", "({r} ++ {0})"), ("arg", "({r} ++ [{0}])")],
        state_calls: vec![],
        calls: vec![("Command::new", "[{0}]"), ("Self::new", "[{0}]"), ("String::from", "{0}")],
        variants: vec![("Always", "PullAlways"), ("IfNotPresent", "PullIfNotPresent"), ("Never", "PullNever"), ("Id", "BpId"), ("Path", "BpPath")],
        eq: "beq",
        take_default: "(@nil N)",
        mcalls: vec![],
            mmethods: vec![],
        display: vec![("port", "(show_port {v})"), ("docker_port_command_port", "(show_port {v})")],
    };
    for (ty, name, params) in which {
        let Some(f) = from_impl(file, ty) else {
            out.miss(format!("libcnb-test: impl From<{ty}> for Command"));
            continue;
        };
        let mut tr = crate::imp::Tr::new(&cfg);
        let mut scope: Vec<String> = vec![];
        let term = tr.stmts(&f.block.stmts, &mut scope, &["command".to_string()]);
        for m in &tr.missing {
            out.miss(format!("libcnb-test: From<{ty}> for Command: {m}"));
        }
        let _ = writeln!(v, "(* impl From<{ty}> for Command *)\nDefinition {name} {params} : list bytes :=\n{}.", crate::imp::indent(&term, 2));
    }
}

pub fn translate(repo: &Path, out: &mut Out) {
    let mut v = String::from("From Coq Require Import List NArith.\nFrom LV Require Import Base ImpPrims Argv ArgvTypes.\nImport ListNotations.\nOpen Scope N_scope.\n");
    let base = repo.join("libcnb-test/src");
    match parse_file(&base.join("docker.rs")) {
        Some(file) => {
            for (ty, name) in [
                ("DockerRunCommand", "gen_docker_run_lits"),
                ("DockerExecCommand", "gen_docker_exec_lits"),
                ("DockerLogsCommand", "gen_docker_logs_lits"),
                ("DockerPortCommand", "gen_docker_port_lits"),
                ("DockerRemoveContainerCommand", "gen_docker_rm_lits"),
                ("DockerRemoveImageCommand", "gen_docker_rmi_lits"),
                ("DockerRemoveVolumeCommand", "gen_docker_volume_rm_lits"),
            ] {
                // impl From<X> for Command { fn from }
                let f = file.items.iter().find_map(|i| match i {
                    syn::Item::Impl(imp)
                        if type_name(&imp.self_ty) == "Command"
                            && imp.trait_.as_ref().is_some_and(|(_, p, _)| squash(p) == format!("From<{ty}>")) =>
                    {
                        imp.items.iter().find_map(|ii| match ii {
                            syn::ImplItem::Fn(f) if f.sig.ident == "from" => Some(f),
                            _ => None,
                        })
                    }
                    _ => None,
                });
                match f {
                    Some(f) => {
                        let mut l = Lits(vec![]);
                        l.visit_block(&f.block);
                        let _ = writeln!(v, "Definition {name} : list (list N) := {}.", coq_str_list(&l.0));
                    }
                    None => out.miss(format!("docker.rs: impl From<{ty}> for Command")),
                }
            }
            emit_argv_builders(
                &file,
                &[
                    ("DockerRunCommand", "gen_docker_run_argv", "(docker_run_command_container_name : bytes) (docker_run_command_detach docker_run_command_remove : bool) (docker_run_command_platform docker_run_command_entrypoint : option bytes) (docker_run_command_env : list (bytes * bytes)) (docker_run_command_exposed_ports : list N) (docker_run_command_bind_mounts : list (bytes * bytes)) (docker_run_command_image_name : bytes) (docker_run_command_command : option (list bytes))"),
                    ("DockerExecCommand", "gen_docker_exec_argv", "(docker_exec_command_container_name : bytes) (docker_exec_command_command : list bytes)"),
                    ("DockerLogsCommand", "gen_docker_logs_argv", "(docker_logs_command_container_name : bytes) (docker_logs_command_follow : bool)"),
                    ("DockerPortCommand", "gen_docker_port_argv", "(docker_port_command_container_name : bytes) (docker_port_command_port : N)"),
                    ("DockerRemoveContainerCommand", "gen_docker_rm_argv", "(docker_remove_container_command_container_name : bytes) (docker_remove_container_command_force : bool)"),
                    ("DockerRemoveImageCommand", "gen_docker_rmi_argv", "(docker_remove_image_command_image_name : bytes) (docker_remove_image_command_force : bool)"),
                    ("DockerRemoveVolumeCommand", "gen_docker_volume_rm_argv", "(docker_remove_volume_command_volume_names : list bytes) (docker_remove_volume_command_force : bool)"),
                ],
                &mut v,
                out,
            );
            // new() defaults of the removal commands: force = true
            for ty in ["DockerRemoveContainerCommand", "DockerRemoveImageCommand", "DockerRemoveVolumeCommand"] {
                match find_impl_fn(&file, ty, None, "new") {
                    Some(f) => {
                        let ok = squash(&f.block).contains("force:true");
                        let _ = writeln!(v, "Definition gen_{}_force : bool := {ok}.", ty.to_lowercase());
                    }
                    None => out.miss(format!("docker.rs: {ty}::new")),
                }
            }
        }
        None => out.miss("docker.rs: cannot parse"),
    }
    match parse_file(&base.join("pack.rs")) {
        Some(file) => {
            emit_argv_builders(
                &file,
                &[
                    ("PackBuildCommand", "gen_pack_build_argv", "(pack_build_command_image_name pack_build_command_builder pack_build_command_build_cache_volume_name pack_build_command_launch_cache_volume_name pack_build_command_path : bytes) (pack_build_command_pull_policy : pull_policy) (pack_build_command_buildpacks : list bp_ref) (pack_build_command_env : list (bytes * bytes)) (pack_build_command_trust_builder pack_build_command_trust_extra_buildpacks : bool)"),
                    ("PackSbomDownloadCommand", "gen_pack_sbom_argv", "(pack_command_image_name : bytes) (pack_command_output_dir : option bytes)"),
                ],
                &mut v,
                out,
            );
            let f = file.items.iter().find_map(|i| match i {
                syn::Item::Impl(imp)
                    if type_name(&imp.self_ty) == "Command"
                        && imp.trait_.as_ref().is_some_and(|(_, p, _)| squash(p) == "From<PackBuildCommand>") =>
                {
                    imp.items.iter().find_map(|ii| match ii {
                        syn::ImplItem::Fn(f) if f.sig.ident == "from" => Some(f),
                        _ => None,
                    })
                }
                _ => None,
            });
            match f {
                Some(f) => {
                    let mut l = Lits(vec![]);
                    l.visit_block(&f.block);
                    let _ = writeln!(v, "Definition gen_pack_build_lits : list (list N) := {}.", coq_str_list(&l.0));
                }
                None => out.miss("pack.rs: impl From<PackBuildCommand> for Command"),
            }
            match find_impl_fn(&file, "PackBuildCommand", None, "new") {
                Some(f) => {
                    let b = squash(&f.block);
                    let ok = b.contains("pull_policy:PullPolicy::IfNotPresent")
                        && b.contains("trust_builder:true")
                        && b.contains("trust_extra_buildpacks:true")
                        && b.contains("buildpacks:Vec::new()")
                        && b.contains("env:BTreeMap::new()");
                    let _ = writeln!(v, "Definition gen_pack_new_defaults_ok : bool := {ok}.");
                }
                None => out.miss("pack.rs: PackBuildCommand::new"),
            }
        }
        None => out.miss("pack.rs: cannot parse"),
    }
    match parse_file(&base.join("container_context.rs")) {
        Some(file) => match find_impl_fn(&file, "ContainerContext", Some("Drop"), "drop") {
            Some(f) => {
                let b = squash(&f.block);
                let removes = b.contains("util::run_command(DockerRemoveContainerCommand::new(&self.container_name))");
                // a panic is raised only on the branch where the thread is not already panicking
                let guarded = b.contains("ifstd::thread::panicking(){eprintln!(") && b.contains("}else{panic!(")
                    && b.matches("panic!(").count() == 1
                    && !b.contains("unwrap") && !b.contains("expect(");
                let _ = writeln!(v, "Definition gen_container_drop_removes : bool := {removes}.");
                let _ = writeln!(v, "Definition gen_container_drop_repaired : bool := {guarded}.");
            }
            None => out.miss("container_context.rs: impl Drop for ContainerContext"),
        },
        None => out.miss("container_context.rs: cannot parse"),
    }
    match parse_file(&base.join("test_runner.rs")) {
        Some(file) => {
            match find_impl_fn(&file, "TemporaryDockerResources", Some("Drop"), "drop") {
                Some(f) => {
                    let b = squash(&f.block);
                    let ok = b
                        == "{let_=util::run_command(DockerRemoveImageCommand::new(&self.image_name));let_=util::run_command(DockerRemoveVolumeCommand::new([&self.build_cache_volume_name,&self.launch_cache_volume_name,]));}";
                    let _ = writeln!(v, "Definition gen_resources_drop_shape_ok : bool := {ok}.");
                }
                None => out.miss("test_runner.rs: impl Drop for TemporaryDockerResources"),
            }
            match find_impl_fn(&file, "TestRunner", None, "build") {
                Some(f) => {
                    let b = squash(&f.block);
                    let ok = b.contains("letimage_name=util::random_docker_identifier();")
                        && b.contains("build_cache_volume_name:format!(\"{image_name}.build-cache\")")
                        && b.contains("launch_cache_volume_name:format!(\"{image_name}.launch-cache\")")
                        && b.contains("self.build_internal(docker_resources,config,f);");
                    let _ = writeln!(v, "Definition gen_build_names_ok : bool := {ok}.");
                }
                None => out.miss("test_runner.rs: TestRunner::build"),
            }
            match find_impl_fn(&file, "TestRunner", None, "build_internal") {
                Some(f) => {
                    let b = squash(&f.block);
                    // temp dirs are owned locals, the resources are moved into the TestContext that the closure owns
                    let owns = b.contains("letbuildpacks_target_dir=tempdir()")
                        && b.contains("lettemporary_app_dir=app::copy_app(&normalized_app_dir_path)")
                        && b.contains("lettest_context=TestContext{")
                        && b.contains("docker_resources,")
                        && b.ends_with("f(test_context);}")
                        && !b.contains("mem::forget")
                        && !b.contains("into_path()")
                        && !b.contains(".keep()");
                    let _ = writeln!(v, "Definition gen_build_internal_ownership_ok : bool := {owns}.");
                }
                None => out.miss("test_runner.rs: TestRunner::build_internal"),
            }
        }
        None => out.miss("test_runner.rs: cannot parse"),
    }
    match parse_file(&base.join("test_context.rs")) {
        Some(file) => {
            match find_impl_fn(&file, "TestContext", None, "start_container") {
                Some(f) => {
                    let b = squash(&f.block);
                    let ctx = b.find("letcontainer_context=ContainerContext{").unwrap_or(usize::MAX);
                    let run = b.find("util::run_command(docker_run_command)").unwrap_or(0);
                    let early = ctx < run && b.ends_with("f(container_context);}");
                    let detached = b.contains("docker_run_command.detach(true);");
                    let _ = writeln!(v, "Definition gen_early_container_context : bool := {early}.");
                    let _ = writeln!(v, "Definition gen_start_container_detaches : bool := {detached}.");
                }
                None => out.miss("test_context.rs: TestContext::start_container"),
            }
            match find_impl_fn(&file, "TestContext", None, "rebuild") {
                Some(f) => {
                    let ok = squash(&f.block) == "{self.runner.build_internal(self.docker_resources,config,f);}"
                        && squash(&f.sig).contains("(self,");
                    let _ = writeln!(v, "Definition gen_rebuild_moves_resources : bool := {ok}.");
                }
                None => out.miss("test_context.rs: TestContext::rebuild"),
            }
            match find_impl_fn(&file, "TestContext", None, "download_sbom_files") {
                Some(f) => {
                    let b = squash(&f.block);
                    let ok = b.starts_with("{lettemp_dir=tempdir()") && !b.contains("into_path()") && !b.contains(".keep()") && !b.contains("mem::forget");
                    let _ = writeln!(v, "Definition gen_sbom_tempdir_owned : bool := {ok}.");
                }
                None => out.miss("test_context.rs: TestContext::download_sbom_files"),
            }
        }
        None => out.miss("test_context.rs: cannot parse"),
    }
    out.coq("GenLibcnbTest.v").push_str(&v);
}
