//! Structural facts of libcnb-package/src/dependency_graph.rs -> GenDepGraph.v
use crate::Out;
use crate::util::*;
use quote::ToTokens;
use serde_json::json;
use std::fmt::Write as _;
use std::path::Path;
use syn::Stmt;

fn squash(t: impl ToTokens) -> String {
    t.to_token_stream().to_string().split_whitespace().collect::<String>()
}

pub fn translate(repo: &Path, out: &mut Out) {
    let path = repo.join("libcnb-package/src/dependency_graph.rs");
    let Some(file) = parse_file(&path) else {
        out.miss("dependency_graph.rs: cannot parse");
        return;
    };
    let mut v = String::new();
    let mut j = serde_json::Map::new();
    // get_dependencies: traversal kind, dfs shared across roots, loop shape
    if let Some(f) = find_free_fn(&file, "get_dependencies") {
        let mut traversal = String::new();
        let mut dfs_outside_loop = false;
        let mut loop_body = String::new();
        for st in &f.block.stmts {
            match st {
                Stmt::Local(l) => {
                    let s = squash(l);
                    if s.starts_with("letmutdfs=") {
                        dfs_outside_loop = true;
                        traversal = s.trim_start_matches("letmutdfs=").trim_end_matches(';').to_string();
                    }
                }
                Stmt::Expr(syn::Expr::ForLoop(fl), _) => {
                    loop_body = squash(&fl.body);
                }
                _ => {}
            }
        }
        let post = traversal == "DfsPostOrder::empty(&graph)";
        let body_ok = loop_body.contains("dfs.move_to(idx);whileletSome(visited)=dfs.next(&graph){order.push(&graph[visited]);}")
            && loop_body.contains(".ok_or(GetDependenciesError::UnknownRootNode(root_node.id()))?");
        let _ = writeln!(v, "Definition traversal_is_dfs_post_order : bool := {post}.");
        let _ = writeln!(v, "Definition dfs_shared_across_roots : bool := {dfs_outside_loop}.");
        let _ = writeln!(v, "Definition root_loop_shape_ok : bool := {body_ok}.");
        j.insert("traversal".into(), json!(traversal));
        j.insert("loop_body".into(), json!(loop_body));
    } else {
        out.miss("dependency_graph.rs: fn get_dependencies");
    }
    if let Some(f) = find_free_fn(&file, "create_dependency_graph") {
        let body = squash(&f.block);
        let missing_err = body.contains(".ok_or(CreateDependencyGraphError::MissingDependency(dependency))?");
        let edge_dir = body.contains("graph.add_edge(idx,dependency_idx,())");
        let first_match = body.contains(".find(|idx|graph[*idx].id()==dependency)");
        let _ = writeln!(v, "Definition missing_dependency_is_error : bool := {missing_err}.");
        let _ = writeln!(v, "Definition edge_from_node_to_dependency : bool := {edge_dir}.");
        let _ = writeln!(v, "Definition dependency_lookup_first_match : bool := {first_match}.");
        j.insert("create_body".into(), json!(body));
    } else {
        out.miss("dependency_graph.rs: fn create_dependency_graph");
    }
    out.coq("GenDepGraph.v").push_str(&v);
    out.json.insert("dep_graph".into(), serde_json::Value::Object(j));
}
