//! Inventory of order- / time- / randomness-sensitive constructs in the crates whose output C20
//! compares (libcnb, libcnb-data, libcnb-common), test modules excluded -> GenDeterminism.v
use crate::Out;
use crate::util::*;
use quote::ToTokens;
use std::fmt::Write as _;
use std::path::Path;
use syn::visit::Visit;

fn strip_tests(items: &[syn::Item]) -> String {
    let mut s = String::new();
    for it in items {
        match it {
            syn::Item::Mod(m) if m.ident == "tests" || m.ident == "test" => {}
            syn::Item::Mod(m) => {
                if let Some((_, inner)) = &m.content {
                    s.push_str(&strip_tests(inner));
                }
            }
            syn::Item::Use(_) => {}
            other => s.push_str(&other.to_token_stream().to_string().split_whitespace().collect::<String>()),
        }
    }
    s
}

struct Loops(Vec<String>);
impl<'ast> Visit<'ast> for Loops {
    fn visit_expr_for_loop(&mut self, f: &'ast syn::ExprForLoop) {
        self.0.push(f.expr.to_token_stream().to_string().split_whitespace().collect::<String>());
        syn::visit::visit_expr_for_loop(self, f);
    }
    fn visit_item_mod(&mut self, m: &'ast syn::ItemMod) {
        if m.ident != "tests" && m.ident != "test" {
            syn::visit::visit_item_mod(self, m);
        }
    }
}

fn rs_files(dir: &Path, out: &mut Vec<std::path::PathBuf>) {
    let Ok(rd) = std::fs::read_dir(dir) else { return };
    let mut entries: Vec<_> = rd.flatten().map(|e| e.path()).collect();
    entries.sort();
    for p in entries {
        if p.is_dir() {
            rs_files(&p, out);
        } else if p.extension().is_some_and(|e| e == "rs") && p.file_name().is_some_and(|n| n != "tests.rs") {
            out.push(p);
        }
    }
}

pub fn translate(repo: &Path, out: &mut Out) {
    let mut files = vec![];
    for d in ["libcnb/src", "libcnb-data/src", "libcnb-common/src"] {
        rs_files(&repo.join(d), &mut files);
    }
    let mut hash_rows = vec![];
    let mut clock_rows = vec![];
    let mut loops = vec![];
    for f in &files {
        let rel = f.strip_prefix(repo).unwrap().display().to_string();
        if rel.ends_with("verif_hooks.rs") {
            continue;
        }
        let Some(file) = parse_file(f) else {
            out.miss(format!("determinism: cannot parse {rel}"));
            continue;
        };
        let text = strip_tests(&file.items);
        let h = text.matches("HashMap<").count() + text.matches("HashSet<").count() + text.matches("HashMap::").count() + text.matches("HashSet::").count();
        if h > 0 {
            hash_rows.push((rel.clone(), h));
        }
        let c = ["SystemTime", "Instant::", "rand::", "fastrand", "process::id", "thread_rng", "RandomState"].iter().map(|k| text.matches(k).count()).sum::<usize>();
        if c > 0 {
            clock_rows.push((rel.clone(), c));
        }
        let mut l = Loops(vec![]);
        l.visit_file(&file);
        for e in l.0 {
            if e.contains("exec_d_programs") || e.contains(".process") || e.contains("HashMap") || e.contains("HashSet") {
                loops.push((rel.clone(), e));
            }
        }
    }
    let mut v = String::from("From Coq Require Import List NArith.\nImport ListNotations.\nOpen Scope N_scope.\n");
    let rows = |r: &Vec<(String, usize)>| r.iter().map(|(f, n)| format!("({}, {n})", coq_bytes(f))).collect::<Vec<_>>().join("; ");
    let _ = writeln!(v, "Definition hash_container_mentions : list (list N * N) := [{}].", rows(&hash_rows));
    let _ = writeln!(v, "Definition clock_or_random_mentions : list (list N * N) := [{}].", rows(&clock_rows));
    let _ = writeln!(
        v,
        "Definition unordered_loops : list (list N * list N) := [{}].",
        loops.iter().map(|(f, e)| format!("({}, {})", coq_bytes(f), coq_bytes(e))).collect::<Vec<_>>().join("; ")
    );
    // toml::Table is a sorted map only as long as no crate of the workspace switches on the `preserve_order` feature of
    // the toml crate (features unify across the build): every Cargo.toml is scanned for it
    let mut preserve = false;
    let mut manifests = vec![repo.join("Cargo.toml")];
    if let Ok(rd) = std::fs::read_dir(repo) {
        for e in rd.flatten() {
            let m = e.path().join("Cargo.toml");
            if m.is_file() {
                manifests.push(m);
            }
        }
    }
    for m in manifests {
        if std::fs::read_to_string(&m).is_ok_and(|t| t.contains("preserve_order")) {
            preserve = true;
        }
    }
    let _ = writeln!(v, "Definition toml_tables_sorted : bool := {}.", !preserve);
    out.coq("GenDeterminism.v").push_str(&v);
    out.json.insert("determinism".into(), serde_json::json!({"hash": hash_rows, "clock": clock_rows, "loops": loops}));
}
