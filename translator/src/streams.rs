//! Shape facts of libherokubuildpack/src/write.rs and command.rs -> GenStream.v
use crate::Out;
use crate::util::*;
use quote::ToTokens;
use std::fmt::Write as _;
use std::path::Path;

fn squash(t: impl ToTokens) -> String {
    t.to_token_stream().to_string().split_whitespace().collect::<String>()
}

pub fn translate(repo: &Path, out: &mut Out) {
    let mut v = String::new();
    if let Some(file) = parse_file(&repo.join("libherokubuildpack/src/write.rs")) {
        match find_impl_fn(&file, "MappedWrite", None, "map_and_write_current_buffer") {
            Some(f) => {
                let b = squash(&f.block);
                let skips = b.contains("ifself.buffer.is_empty(){returnOk(());}");
                let maps = b.contains("inner.write_all(&(self.mapping_fn)(mem::take(&mutself.buffer)))");
                let _ = writeln!(v, "Definition mapped_skips_empty_remainder : bool := {skips}.");
                let _ = writeln!(v, "Definition mapped_flush_shape_ok : bool := {maps}.");
            }
            None => out.miss("write.rs: MappedWrite::map_and_write_current_buffer"),
        }
        match find_impl_fn(&file, "MappedWrite", Some("Write"), "write") {
            Some(f) => {
                let ok = squash(&f.block)
                    == "{forbyteinbuf{self.buffer.push(*byte);if*byte==self.marker_byte{self.map_and_write_current_buffer()?;}}Ok(buf.len())}";
                let _ = writeln!(v, "Definition mapped_write_shape_ok : bool := {ok}.");
            }
            None => out.miss("write.rs: impl Write for MappedWrite"),
        }
        // ---- the bodies themselves, statement by statement (imp.rs): flush, one iteration of write's loop, drop
        let cfg = crate::imp::Config {
            methods: vec![("is_empty", "(is_empty {r})")],
            mutators: vec![("push", "({r} ++ [{0}])"), ("write_all", "({r} ++ {0})")],
            state_calls: vec![("map_and_write_current_buffer", "gen_mw_flush self_mapping_fn", vec!["self_buffer", "self_inner"])],
            calls: vec![],
            variants: vec![],
            eq: "N.eqb",
            take_default: "(@nil N)",
            mcalls: vec![],
            mmethods: vec![],
            display: vec![],
        };
        let state = vec!["self_buffer".to_string(), "self_inner".to_string()];
        let sig = "(self_mapping_fn : bytes -> bytes) (self_buffer : bytes) (self_inner : option bytes)";
        let mut emit = |name: &str, extra: &str, stmts: &[syn::Stmt], what: &str, v: &mut String, out: &mut Out| {
            let mut tr = crate::imp::Tr::new(&cfg);
            let mut scope = state.clone();
            let term = tr.stmts(stmts, &mut scope, &state);
            for m in &tr.missing {
                out.miss(format!("write.rs: {what}: {m}"));
            }
            let _ = writeln!(v, "(* {what} *)\nDefinition {name} {sig}{extra} : bytes * option bytes :=\n{}.", crate::imp::indent(&term, 2));
        };
        if let Some(f) = find_impl_fn(&file, "MappedWrite", None, "map_and_write_current_buffer") {
            emit("gen_mw_flush", "", &f.block.stmts, "MappedWrite::map_and_write_current_buffer", &mut v, out);
        }
        if let Some(f) = find_impl_fn(&file, "MappedWrite", Some("Write"), "write") {
            let st = &f.block.stmts;
            let frame_ok = st.len() == 2
                && squash(&st[1]) == "Ok(buf.len())"
                && matches!(&st[0], syn::Stmt::Expr(syn::Expr::ForLoop(fl), _) if squash(&fl.expr) == "buf" && squash(&fl.pat) == "byte");
            let _ = writeln!(v, "Definition mapped_write_frame_ok : bool := {frame_ok}.");
            if let Some(syn::Stmt::Expr(syn::Expr::ForLoop(fl), _)) = st.first() {
                emit("gen_mw_byte", " (self_marker_byte : N) (byte : N)", &fl.body.stmts, "MappedWrite::write, one iteration of `for byte in buf`", &mut v, out);
            } else {
                out.miss("write.rs: MappedWrite::write `for` loop");
            }
        }
        if let Some(f) = find_impl_fn(&file, "MappedWrite", Some("Drop"), "drop") {
            emit("gen_mw_drop", "", &f.block.stmts, "Drop for MappedWrite", &mut v, out);
        }
        match find_impl_fn(&file, "MappedWrite", Some("Drop"), "drop") {
            Some(f) => {
                let ok = squash(&f.block).contains("let_result=self.map_and_write_current_buffer();");
                let _ = writeln!(v, "Definition mapped_drop_flushes : bool := {ok}.");
            }
            None => out.miss("write.rs: impl Drop for MappedWrite"),
        }
        match find_impl_fn(&file, "TeeWrite", Some("Write"), "write") {
            Some(f) => {
                let ok = squash(&f.block) == "{self.inner_a.write_all(buf)?;self.inner_b.write_all(buf)?;Ok(buf.len())}";
                let _ = writeln!(v, "Definition tee_write_shape_ok : bool := {ok}.");
            }
            None => out.miss("write.rs: impl Write for TeeWrite"),
        }
    } else {
        out.miss("write.rs: cannot parse");
    }
    if let Some(file) = parse_file(&repo.join("libherokubuildpack/src/command.rs")) {
        match find_free_fn(&file, "write_child_process_output") {
            Some(f) => {
                let b = squash(&f.block);
                let two_threads = b.matches("scope.spawn(move|_|std::io::copy(").count() == 2
                    && b.contains("mem::take(&mutchild.stdout)")
                    && b.contains("mem::take(&mutchild.stderr)");
                // both threads are spawned before either is joined
                let spawn2 = b.find("letstderr_copy_thread=").unwrap_or(usize::MAX);
                let join1 = b.find("letstdout_copy_result=").unwrap_or(0);
                let parallel = two_threads && spawn2 < join1;
                let _ = writeln!(v, "Definition streams_copied_in_parallel : bool := {parallel}.");
            }
            None => out.miss("command.rs: fn write_child_process_output"),
        }
        match find_impl_fn(&file, "Command", Some("CommandExt"), "output_and_write_streams") {
            Some(f) => {
                let b = squash(&f.block);
                let ok = b.contains("tee(&mutstdout_buffer,stdout_write),tee(&mutstderr_buffer,stderr_write),")
                    && b.contains(".and_then(|mutchild|child.wait())");
                let _ = writeln!(v, "Definition output_tees_and_waits : bool := {ok}.");
            }
            None => out.miss("command.rs: output_and_write_streams"),
        }
    } else {
        out.miss("command.rs: cannot parse");
    }
    out.coq("GenStream.v").push_str("From LV Require Import Base ImpPrims.\nOpen Scope N_scope.\n");
    out.coq("GenStream.v").push_str(&v);
}
