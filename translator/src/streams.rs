//! Shape facts of libherokubuildpack/src/write.rs and command.rs -> GenStream.v
use crate::Out;
use crate::util::*;
use quote::ToTokens;
use std::fmt::Write as _;
use std::path::Path;

fn squash(t: impl ToTokens) -> String {
    t.to_token_stream().to_string().split_whitespace().collect::<String>()
}

pub fn translate(repo: &Path, out: &mut Out) {
    let mut v = String::new();
    if let Some(file) = parse_file(&repo.join("libherokubuildpack/src/write.rs")) {
        match find_impl_fn(&file, "MappedWrite", None, "map_and_write_current_buffer") {
            Some(f) => {
                let b = squash(&f.block);
                let skips = b.contains("ifself.buffer.is_empty(){returnOk(());}");
                let maps = b.contains("inner.write_all(&(self.mapping_fn)(mem::take(&mutself.buffer)))");
                let _ = writeln!(v, "Definition mapped_skips_empty_remainder : bool := {skips}.");
                let _ = writeln!(v, "Definition mapped_flush_shape_ok : bool := {maps}.");
            }
            None => out.miss("write.rs: MappedWrite::map_and_write_current_buffer"),
        }
        match find_impl_fn(&file, "MappedWrite", Some("Write"), "write") {
            Some(f) => {
                let ok = squash(&f.block)
                    == "{forbyteinbuf{self.buffer.push(*byte);if*byte==self.marker_byte{self.map_and_write_current_buffer()?;}}Ok(buf.len())}";
                let _ = writeln!(v, "Definition mapped_write_shape_ok : bool := {ok}.");
            }
            None => out.miss("write.rs: impl Write for MappedWrite"),
        }
        match find_impl_fn(&file, "MappedWrite", Some("Drop"), "drop") {
            Some(f) => {
                let ok = squash(&f.block).contains("let_result=self.map_and_write_current_buffer();");
                let _ = writeln!(v, "Definition mapped_drop_flushes : bool := {ok}.");
            }
            None => out.miss("write.rs: impl Drop for MappedWrite"),
        }
        match find_impl_fn(&file, "TeeWrite", Some("Write"), "write") {
            Some(f) => {
                let ok = squash(&f.block) == "{self.inner_a.write_all(buf)?;self.inner_b.write_all(buf)?;Ok(buf.len())}";
                let _ = writeln!(v, "Definition tee_write_shape_ok : bool := {ok}.");
            }
            None => out.miss("write.rs: impl Write for TeeWrite"),
        }
    } else {
        out.miss("write.rs: cannot parse");
    }
    if let Some(file) = parse_file(&repo.join("libherokubuildpack/src/command.rs")) {
        match find_free_fn(&file, "write_child_process_output") {
            Some(f) => {
                let b = squash(&f.block);
                let two_threads = b.matches("scope.spawn(move|_|std::io::copy(").count() == 2
                    && b.contains("mem::take(&mutchild.stdout)")
                    && b.contains("mem::take(&mutchild.stderr)");
                // both threads are spawned before either is joined
                let spawn2 = b.find("letstderr_copy_thread=").unwrap_or(usize::MAX);
                let join1 = b.find("letstdout_copy_result=").unwrap_or(0);
                let parallel = two_threads && spawn2 < join1;
                let _ = writeln!(v, "Definition streams_copied_in_parallel : bool := {parallel}.");
            }
            None => out.miss("command.rs: fn write_child_process_output"),
        }
        match find_impl_fn(&file, "Command", Some("CommandExt"), "output_and_write_streams") {
            Some(f) => {
                let b = squash(&f.block);
                let ok = b.contains("tee(&mutstdout_buffer,stdout_write),tee(&mutstderr_buffer,stderr_write),")
                    && b.contains(".and_then(|mutchild|child.wait())");
                let _ = writeln!(v, "Definition output_tees_and_waits : bool := {ok}.");
            }
            None => out.miss("command.rs: output_and_write_streams"),
        }
    } else {
        out.miss("command.rs: cannot parse");
    }
    out.coq("GenStream.v").push_str(&v);
}
