//! Shape facts of libcnb-data buildpack/version.rs and buildpack/api.rs -> GenVersion.v
use crate::Out;
use crate::util::*;
use quote::ToTokens;
use serde_json::json;
use std::fmt::Write as _;
use std::path::Path;

fn squash(t: impl ToTokens) -> String {
    t.to_token_stream().to_string().split_whitespace().collect::<String>()
}

pub fn translate(repo: &Path, out: &mut Out) {
    let mut v = String::from("From LV Require Import Base Version.\n\n");
    let mut j = serde_json::Map::new();
    // ---- version
    if let Some(file) = parse_file(&repo.join("libcnb-data/src/buildpack/version.rs")) {
        if let Some(f) = find_impl_fn(&file, "BuildpackVersion", Some("TryFrom"), "try_from") {
            let body = squash(&f.block);
            let split = body.contains("value.split('.')");
            let lz = body.contains("s.starts_with('0')&&s!=\"0\"");
            let three = body.contains("&[major,minor,patch]=>Ok(Self::new(major,minor,patch))");
            let digits_only = body.contains("is_ascii_digit");
            let _ = writeln!(v, "Definition version_splits_on_dot : bool := {split}.");
            let _ = writeln!(v, "Definition version_leading_zero_rule : bool := {lz}.");
            let _ = writeln!(v, "Definition version_exactly_three : bool := {three}.");
            let _ = writeln!(
                v,
                "Definition version_component_parser : bytes -> option N := {}.",
                if digits_only { "parse_u64_strict" } else { "parse_u64_rust" }
            );
            j.insert("version_try_from".into(), json!(body));
        } else {
            out.miss("version.rs: TryFrom<String> for BuildpackVersion");
        }
        if let Some(f) = find_impl_fn(&file, "BuildpackVersion", Some("Display"), "fmt") {
            let ok = squash(&f.block).contains("format!(\"{}.{}.{}\",self.major,self.minor,self.patch)");
            let _ = writeln!(v, "Definition version_display_shape_ok : bool := {ok}.");
        } else {
            out.miss("version.rs: Display for BuildpackVersion");
        }
    } else {
        out.miss("version.rs: cannot parse");
    }
    // ---- api
    if let Some(file) = parse_file(&repo.join("libcnb-data/src/buildpack/api.rs")) {
        if let Some(f) = find_impl_fn(&file, "BuildpackApi", Some("TryFrom"), "try_from") {
            let body = squash(&f.block);
            let split = body.contains("value.split_once('.').unwrap_or((&value,\"0\"))");
            let digits_only = body.contains("is_ascii_digit");
            let _ = writeln!(v, "Definition api_split_once_default_minor_zero : bool := {split}.");
            let _ = writeln!(
                v,
                "Definition api_component_parser : bytes -> option N := {}.",
                if digits_only { "parse_u64_strict" } else { "parse_u64_rust" }
            );
            j.insert("api_try_from".into(), json!(body));
        } else {
            out.miss("api.rs: TryFrom<String> for BuildpackApi");
        }
        if let Some(f) = find_impl_fn(&file, "BuildpackApi", Some("Display"), "fmt") {
            let ok = squash(&f.block).contains("format!(\"{}.{}\",self.major,self.minor)");
            let _ = writeln!(v, "Definition api_display_shape_ok : bool := {ok}.");
        } else {
            out.miss("api.rs: Display for BuildpackApi");
        }
    } else {
        out.miss("api.rs: cannot parse");
    }
    out.coq("GenVersion.v").push_str(&v);
    out.json.insert("versions".into(), serde_json::Value::Object(j));
}
