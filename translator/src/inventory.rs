//! Tables of libherokubuildpack/src/inventory.rs (+ sha2.rs) -> GenInventory.v
use crate::Out;
use crate::util::*;
use quote::ToTokens;
use serde_json::json;
use std::fmt::Write as _;
use std::path::Path;
use syn::visit::Visit;

fn squash(t: impl ToTokens) -> String {
    t.to_token_stream().to_string().split_whitespace().collect::<String>()
}

struct Matches<'ast> {
    found: Vec<&'ast syn::ExprMatch>,
}
impl<'ast> Visit<'ast> for Matches<'ast> {
    fn visit_expr_match(&mut self, m: &'ast syn::ExprMatch) {
        self.found.push(m);
        syn::visit::visit_expr_match(self, m);
    }
}
struct Closures<'ast> {
    found: Vec<&'ast syn::ExprClosure>,
}
impl<'ast> Visit<'ast> for Closures<'ast> {
    fn visit_expr_closure(&mut self, c: &'ast syn::ExprClosure) {
        self.found.push(c);
        syn::visit::visit_expr_closure(self, c);
    }
}

fn conjuncts(e: &syn::Expr, out: &mut Vec<String>) {
    match e {
        syn::Expr::Binary(b) if matches!(b.op, syn::BinOp::And(_)) => {
            conjuncts(&b.left, out);
            conjuncts(&b.right, out);
        }
        syn::Expr::Paren(p) => conjuncts(&p.expr, out),
        syn::Expr::Block(b) if b.block.stmts.len() == 1 => {
            if let syn::Stmt::Expr(e, None) = &b.block.stmts[0] {
                conjuncts(e, out);
            }
        }
        other => out.push(squash(other)),
    }
}

const EXPECTED_FILTER: [&str; 4] = [
    "artifact.os==os",
    "artifact.arch==arch",
    "requirement.satisfies_version(&artifact.version)",
    "requirement.satisfies_metadata(&artifact.metadata)",
];

pub fn translate(repo: &Path, out: &mut Out) {
    let path = repo.join("libherokubuildpack/src/inventory.rs");
    let Some(file) = parse_file(&path) else {
        out.miss("inventory.rs: cannot parse");
        return;
    };
    let mut v = String::new();
    let mut j = serde_json::Map::new();
    for fname in ["resolve", "partial_resolve"] {
        let Some(f) = find_impl_fn(&file, "Inventory", None, fname) else {
            out.miss(format!("inventory.rs: fn {fname}"));
            continue;
        };
        // the filter closure: the closure whose body is a conjunction mentioning artifact.os
        let mut cl = Closures { found: vec![] };
        cl.visit_block(&f.block);
        let mut filt: Vec<String> = vec![];
        for c in &cl.found {
            let mut cs = vec![];
            conjuncts(&c.body, &mut cs);
            if cs.iter().any(|s| s.contains("artifact.os")) {
                filt = cs;
                break;
            }
        }
        let mut sorted = filt.clone();
        sorted.sort();
        let mut exp: Vec<String> = EXPECTED_FILTER.iter().map(|s| (*s).to_string()).collect();
        exp.sort();
        let _ = writeln!(v, "Definition {fname}_filter_ok : bool := {}.", sorted == exp);
        j.insert(format!("{fname}_filter"), json!(filt));
        let body = squash(&f.block);
        if fname == "resolve" {
            let ok = body.contains(".max_by_key(|artifact|&artifact.version)");
            let _ = writeln!(v, "Definition resolve_uses_max_by_version : bool := {ok}.");
        } else {
            let ok = body.contains("|artifact|&artifact.version") && body.contains("partial_max_by_key(");
            let _ = writeln!(v, "Definition partial_resolve_keyed_by_version : bool := {ok}.");
            // arms of the partial_cmp match
            let mut ms = Matches { found: vec![] };
            ms.visit_block(&f.block);
            let mut replace: Vec<&str> = vec![];
            let mut seen_cmp = false;
            let mut cmp_ok = false;
            for m in &ms.found {
                let scrut = squash(&m.expr);
                if scrut.contains("partial_cmp") {
                    seen_cmp = true;
                    cmp_ok = scrut == "f(&item).partial_cmp(&f(&acc))";
                    for arm in &m.arms {
                        let pat = squash(&arm.pat);
                        let body = squash(&arm.body);
                        let takes_item = body == "Some(item)";
                        if !takes_item && body != "Some(acc)" {
                            out.miss("inventory.rs: partial_max_by_key arm body");
                        }
                        for (needle, name) in [("Greater", "Some Gt"), ("Equal", "Some Eq"), ("Less", "Some Lt")] {
                            if pat.contains(needle) && takes_item {
                                replace.push(name);
                            }
                        }
                        // a bare `None` alternative
                        let alts: Vec<&str> = pat.split('|').collect();
                        if alts.iter().any(|a| *a == "None") && takes_item {
                            replace.push("None");
                        }
                    }
                }
            }
            if seen_cmp {
                let arms: Vec<String> = ["Some Gt", "Some Eq", "Some Lt", "None"]
                    .iter()
                    .map(|k| format!("| {k} => {}", replace.contains(k)))
                    .collect();
                let _ = writeln!(
                    v,
                    "Definition replace_on (c : option comparison) : bool :=\n  match c with {} end.",
                    arms.join(" ")
                );
                let _ = writeln!(v, "Definition partial_cmp_item_vs_acc : bool := {cmp_ok}.");
                j.insert("replace_on".into(), json!(replace));
            } else {
                out.miss("inventory.rs: partial_max_by_key match on partial_cmp");
            }
        }
    }
    // sha2 digest names
    if let Some(sf) = parse_file(&repo.join("libherokubuildpack/src/inventory/sha2.rs")) {
        for ty in ["Sha256", "Sha512"] {
            if let Some(f) = find_impl_fn(&sf, ty, Some("Digest"), "name_compatible") {
                let body = squash(&f.block);
                let name = body.strip_prefix("{name==\"").and_then(|s| s.strip_suffix("\"}"));
                if let Some(n) = name {
                    let _ = writeln!(v, "Definition {}_name : list N := {}.", ty.to_lowercase(), coq_bytes(n));
                    j.insert(format!("{}_name", ty.to_lowercase()), json!(n));
                } else {
                    out.miss(format!("inventory/sha2.rs: {ty}::name_compatible shape"));
                }
            }
        }
    }
    out.coq("GenInventory.v").push_str("From Coq Require Import List NArith. Import ListNotations. Open Scope N_scope.\n");
    out.coq("GenInventory.v").push_str(&v);
    out.json.insert("inventory".into(), serde_json::Value::Object(j));
}
