//! Regex literals of the libcnb_newtype! invocations -> GenRegex.v (AST terms for Regex.v)
use crate::Out;
use crate::util::*;
use serde_json::json;
use std::fmt::Write as _;
use std::path::Path;

#[derive(Debug, Clone)]
enum Re {
    Lit(Vec<u32>),
    Class(Vec<(u32, u32)>),
    Seq(Vec<Re>),
    Alt(Vec<Re>),
    Start,
    End,
    NegLook(Box<Re>),
    Plus(Box<Re>),
    Star(Box<Re>),
}

struct P<'a> {
    s: &'a [char],
    i: usize,
}

impl P<'_> {
    fn peek(&self) -> Option<char> {
        self.s.get(self.i).copied()
    }
    fn eat(&mut self, c: char) -> bool {
        if self.peek() == Some(c) {
            self.i += 1;
            true
        } else {
            false
        }
    }
    fn starts(&self, t: &str) -> bool {
        let tc: Vec<char> = t.chars().collect();
        self.s[self.i..].starts_with(&tc)
    }
    fn alt(&mut self) -> Result<Re, String> {
        let mut alts = vec![self.seq()?];
        while self.eat('|') {
            alts.push(self.seq()?);
        }
        Ok(if alts.len() == 1 { alts.pop().unwrap() } else { Re::Alt(alts) })
    }
    fn seq(&mut self) -> Result<Re, String> {
        let mut items: Vec<Re> = vec![];
        while let Some(c) = self.peek() {
            if c == '|' || c == ')' {
                break;
            }
            let atom = self.atom()?;
            let atom = if self.eat('+') {
                Re::Plus(Box::new(atom))
            } else if self.eat('*') {
                Re::Star(Box::new(atom))
            } else if matches!(self.peek(), Some('?' | '{')) {
                return Err("quantifier outside the modelled subset".into());
            } else {
                atom
            };
            // merge adjacent literal characters
            match (items.last_mut(), &atom) {
                (Some(Re::Lit(a)), Re::Lit(b)) => a.extend(b.iter().copied()),
                _ => items.push(atom),
            }
        }
        Ok(if items.len() == 1 { items.pop().unwrap() } else { Re::Seq(items) })
    }
    fn atom(&mut self) -> Result<Re, String> {
        let c = self.peek().ok_or("unexpected end")?;
        match c {
            '^' => {
                self.i += 1;
                Ok(Re::Start)
            }
            '$' => {
                self.i += 1;
                Ok(Re::End)
            }
            '.' => {
                self.i += 1;
                Ok(Re::Class(vec![(0, 9), (11, 0x10FFFF)]))
            }
            '(' => {
                self.i += 1;
                if self.starts("?!") {
                    self.i += 2;
                    let inner = self.alt()?;
                    if !self.eat(')') {
                        return Err("unclosed look-ahead".into());
                    }
                    Ok(Re::NegLook(Box::new(inner)))
                } else if self.starts("?") {
                    Err("group flags outside the modelled subset".into())
                } else {
                    let inner = self.alt()?;
                    if !self.eat(')') {
                        return Err("unclosed group".into());
                    }
                    Ok(inner)
                }
            }
            '[' => self.class(),
            '\\' => {
                self.i += 1;
                let e = self.peek().ok_or("dangling escape")?;
                self.i += 1;
                match e {
                    '.' | '-' | '/' | '_' | '\\' | '[' | ']' | '(' | ')' | '+' | '*' | '?' | '^' | '$' | '|' => Ok(Re::Lit(vec![e as u32])),
                    'n' => Ok(Re::Lit(vec![10])),
                    _ => Err(format!("escape \\{e} outside the modelled subset")),
                }
            }
            '+' | '*' | '?' | '{' | ']' => Err(format!("unexpected {c}")),
            _ => {
                self.i += 1;
                Ok(Re::Lit(vec![c as u32]))
            }
        }
    }
    fn class(&mut self) -> Result<Re, String> {
        assert!(self.eat('['));
        if self.peek() == Some('^') {
            return Err("negated class outside the modelled subset".into());
        }
        let mut ranges: Vec<(u32, u32)> = vec![];
        loop {
            let c = self.peek().ok_or("unclosed class")?;
            if c == ']' {
                self.i += 1;
                break;
            }
            if self.starts("[:") {
                let rest: String = self.s[self.i..].iter().collect();
                let end = rest.find(":]").ok_or("bad posix class")?;
                let name = &rest[2..end];
                self.i += end + 2;
                match name {
                    "alnum" => ranges.extend([(48, 57), (65, 90), (97, 122)]),
                    "alpha" => ranges.extend([(65, 90), (97, 122)]),
                    "digit" => ranges.push((48, 57)),
                    "lower" => ranges.push((97, 122)),
                    "upper" => ranges.push((65, 90)),
                    _ => return Err(format!("posix class {name} outside the modelled subset")),
                }
                continue;
            }
            let mut lo = c;
            self.i += 1;
            if lo == '\\' {
                lo = self.peek().ok_or("dangling escape")?;
                self.i += 1;
            }
            // range?
            if self.peek() == Some('-') && self.s.get(self.i + 1).is_some_and(|n| *n != ']') {
                self.i += 1;
                let mut hi = self.peek().ok_or("bad range")?;
                self.i += 1;
                if hi == '\\' {
                    hi = self.peek().ok_or("dangling escape")?;
                    self.i += 1;
                }
                ranges.push((lo as u32, hi as u32));
            } else {
                ranges.push((lo as u32, lo as u32));
            }
        }
        Ok(Re::Class(ranges))
    }
}

fn coq(re: &Re) -> String {
    match re {
        Re::Lit(cs) => format!("(lit [{}])", cs.iter().map(u32::to_string).collect::<Vec<_>>().join("; ")),
        Re::Class(rs) => format!("(RChar [{}])", rs.iter().map(|(a, b)| format!("({a}, {b})")).collect::<Vec<_>>().join("; ")),
        Re::Seq(items) => format!("(cats [{}])", items.iter().map(coq).collect::<Vec<_>>().join("; ")),
        Re::Alt(items) => format!("(alts [{}])", items.iter().map(coq).collect::<Vec<_>>().join("; ")),
        Re::Start => "RStart".into(),
        Re::End => "REnd".into(),
        Re::NegLook(a) => format!("(RNegLook {})", coq(a)),
        Re::Plus(a) => format!("(RPlus {})", coq(a)),
        Re::Star(a) => format!("(RStar {})", coq(a)),
    }
}

/// find `libcnb_newtype!( ... , r"regex" )` invocations in a file: returns (type name, regex literal)
fn newtype_invocations(file: &syn::File) -> Vec<(String, String)> {
    let mut res = vec![];
    for item in &file.items {
        if let syn::Item::Macro(m) = item {
            if m.mac.path.segments.last().is_some_and(|s| s.ident == "libcnb_newtype") {
                // tokens: path , [attrs] macro_name , [attrs] Name , [attrs] ErrorName , regex
                let toks: Vec<proc_macro2::TokenTree> = m.mac.tokens.clone().into_iter().collect();
                let mut idents: Vec<String> = vec![];
                let mut lit: Option<String> = None;
                let mut depth_skip = false;
                for t in &toks {
                    match t {
                        proc_macro2::TokenTree::Punct(p) if p.as_char() == '#' => depth_skip = true,
                        proc_macro2::TokenTree::Group(_) if depth_skip => depth_skip = false,
                        proc_macro2::TokenTree::Ident(i) => idents.push(i.to_string()),
                        proc_macro2::TokenTree::Literal(l) => {
                            if let Ok(syn::Lit::Str(s)) = syn::parse_str::<syn::Lit>(&l.to_string()) {
                                lit = Some(s.value());
                            }
                        }
                        _ => {}
                    }
                }
                // the type name is the first CamelCase identifier
                let name = idents.iter().find(|i| i.chars().next().is_some_and(char::is_uppercase)).cloned();
                if let (Some(n), Some(l)) = (name, lit) {
                    res.push((n, l));
                }
            }
        }
    }
    res
}

pub fn translate(repo: &Path, out: &mut Out) {
    let mut v = String::from("From LV Require Import Base Regex.\n\n");
    let mut j = serde_json::Map::new();
    let targets = [
        ("libcnb-data/src/layer.rs", "LayerName", "layer_name"),
        ("libcnb-data/src/launch.rs", "ProcessType", "process_type"),
        ("libcnb-data/src/buildpack/id.rs", "BuildpackId", "buildpack_id"),
        ("libcnb-data/src/exec_d.rs", "ExecDProgramOutputKey", "execd_key"),
    ];
    for (path, ty, coq_name) in targets {
        let Some(file) = parse_file(&repo.join(path)) else {
            out.miss(format!("newtype regex: cannot parse {path}"));
            continue;
        };
        let inv = newtype_invocations(&file);
        let Some((_, lit)) = inv.iter().find(|(n, _)| n == ty) else {
            out.miss(format!("newtype regex: libcnb_newtype! for {ty} in {path}"));
            continue;
        };
        j.insert(coq_name.to_string(), json!(lit));
        let _ = writeln!(v, "Definition {coq_name}_lit : list N := {}.", coq_bytes(lit));
        let chars: Vec<char> = lit.chars().collect();
        let mut p = P { s: &chars, i: 0 };
        match p.alt() {
            Ok(re) if p.i == chars.len() => {
                let _ = writeln!(v, "Definition {coq_name}_re : re := {}.", coq(&re));
            }
            Ok(_) => out.miss(format!("newtype regex: trailing input in {lit:?} ({ty})")),
            Err(e) => out.miss(format!("newtype regex: {lit:?} ({ty}): {e}")),
        }
    }
    // the macro plumbing: run-time FromStr and compile-time macro must use the same $regex and is_match
    if let Some(src) = std::fs::read_to_string(repo.join("libcnb-data/src/newtypes.rs")).ok() {
        let sq: String = src.split_whitespace().collect();
        let runtime_ok = sq.contains("::fancy_regex::Regex::new($regex).and_then(|regex|regex.is_match(value)).unwrap_or(false)");
        let macro_ok = sq.contains("$crate::internals::verify_regex!($regex,$value,");
        let deser_ok = sq.contains("String::deserialize(d)?.parse::<$name>().map_err(::serde::de::Error::custom)");
        let display_ok = sq.contains("::std::write!(f,\"{}\",self.0)");
        let _ = writeln!(v, "Definition newtype_runtime_uses_is_match : bool := {runtime_ok}.");
        let _ = writeln!(v, "Definition newtype_macro_uses_same_regex : bool := {macro_ok}.");
        let _ = writeln!(v, "Definition newtype_deserialize_via_parse : bool := {deser_ok}.");
        let _ = writeln!(v, "Definition newtype_display_is_inner : bool := {display_ok}.");
    } else {
        out.miss("newtype regex: newtypes.rs");
    }
    if let Some(src) = std::fs::read_to_string(repo.join("libcnb-proc-macros/src/lib.rs")).ok() {
        let sq: String = src.split_whitespace().collect();
        let ok = sq.contains("fancy_regex::Regex::new(&input.regex.value())") && sq.contains("regex.is_match(&input.value.value()).unwrap_or(false)");
        let _ = writeln!(v, "Definition proc_macro_uses_is_match : bool := {ok}.");
    } else {
        out.miss("newtype regex: libcnb-proc-macros/src/lib.rs");
    }
    out.coq("GenRegex.v").push_str(&v);
    out.json.insert("regex".into(), serde_json::Value::Object(j));
}
