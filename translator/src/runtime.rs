//! Exit codes, supported API and shape facts of libcnb/src/runtime.rs -> GenRuntime.v
use crate::Out;
use crate::util::*;
use quote::ToTokens;
use serde_json::json;
use std::fmt::Write as _;
use std::path::Path;

fn squash(t: impl ToTokens) -> String {
    let s = t.to_token_stream().to_string().split_whitespace().collect::<String>();
    // drop statements that only exist with the optional `trace` feature
    let mut out = String::new();
    let mut rest = s.as_str();
    let pat = "#[cfg(feature=\"trace\")]";
    while let Some(i) = rest.find(pat) {
        out.push_str(&rest[..i]);
        let after = &rest[i + pat.len()..];
        match after.find(';') {
            Some(j) => rest = &after[j + 1..],
            None => {
                rest = "";
            }
        }
    }
    out.push_str(rest);
    out
}

pub fn translate(repo: &Path, out: &mut Out) {
    let mut v = String::from("From LV Require Import Base Runtime.\nFrom Coq Require Import ZArith.\n\n");
    let mut j = serde_json::Map::new();
    // exit codes
    let mut codes = std::collections::BTreeMap::new();
    if let Some(file) = parse_file(&repo.join("libcnb/src/exit_code.rs")) {
        for it in &file.items {
            if let syn::Item::Const(c) = it {
                if let Some(i) = lit_int(&c.expr) {
                    codes.insert(c.ident.to_string(), i);
                }
            }
        }
    }
    let names = ["GENERIC_SUCCESS", "GENERIC_UNSPECIFIED_ERROR", "GENERIC_CNB_API_VERSION_ERROR",
                 "GENERIC_UNEXPECTED_EXECUTABLE_NAME_ERROR", "DETECT_DETECTION_PASSED", "DETECT_DETECTION_FAILED"];
    if names.iter().all(|n| codes.contains_key(*n)) {
        let _ = writeln!(
            v,
            "Definition exit_codes : codes := mkCodes ({})%Z ({})%Z ({})%Z ({})%Z ({})%Z ({})%Z.",
            codes[names[0]], codes[names[1]], codes[names[2]], codes[names[3]], codes[names[4]], codes[names[5]]
        );
        j.insert("exit_codes".into(), json!(codes));
    } else {
        out.miss("exit_code.rs: constants");
    }
    // supported API
    if let Some(file) = parse_file(&repo.join("libcnb/src/lib.rs")) {
        let mut found = false;
        for it in &file.items {
            if let syn::Item::Const(c) = it {
                if c.ident == "LIBCNB_SUPPORTED_BUILDPACK_API" {
                    let s = squash(&c.expr);
                    let get = |k: &str| s.split(&format!("{k}:")).nth(1).and_then(|r| r.split(|ch: char| !ch.is_ascii_digit()).next().map(str::to_string));
                    if let (Some(ma), Some(mi)) = (get("major"), get("minor")) {
                        let _ = writeln!(v, "Definition supported_api : N * N := ({ma}, {mi}).");
                        j.insert("supported_api".into(), json!([ma, mi]));
                        found = true;
                    }
                }
            }
        }
        if !found {
            out.miss("lib.rs: LIBCNB_SUPPORTED_BUILDPACK_API");
        }
    }
    // shape facts of the runtime
    if let Some(file) = parse_file(&repo.join("libcnb/src/runtime.rs")) {
        if let Some(f) = find_free_fn(&file, "libcnb_runtime") {
            let b = squash(&f.block);
            let api_first = b.starts_with("{matchread_buildpack_descriptor::<BuildpackDescriptorApiOnly,B::Error>()");
            let api_cmp = b.contains("ifbuildpack_descriptor.api!=LIBCNB_SUPPORTED_BUILDPACK_API{") && b.matches("exit(exit_code::GENERIC_CNB_API_VERSION_ERROR)").count() == 2;
            let names = b.contains("Some(\"detect\")=>libcnb_runtime_detect(") && b.contains("Some(\"build\")=>libcnb_runtime_build(")
                && b.contains("exit(exit_code::GENERIC_UNEXPECTED_EXECUTABLE_NAME_ERROR)")
                // the name compared is the whole final path component of argv[0]
                && b.contains("letcurrent_exe=args.first();letcurrent_exe_file_name=current_exe.map(Path::new).and_then(Path::file_name).and_then(OsStr::to_str);")
                && b.contains("matchcurrent_exe_file_name{");
            let tail = b.ends_with("matchresult{Ok(code)=>exit(code),Err(libcnb_error)=>{buildpack.on_error(libcnb_error);exit(exit_code::GENERIC_UNSPECIFIED_ERROR);}}}");
            let usage = b.matches("exit(exit_code::GENERIC_UNSPECIFIED_ERROR);").count() == 3;
            let _ = writeln!(v, "Definition rt_api_checked_first : bool := {}.", api_first && api_cmp);
            let _ = writeln!(v, "Definition rt_dispatch_by_name : bool := {names}.");
            let _ = writeln!(v, "Definition rt_on_error_once_then_exit : bool := {tail}.");
            let _ = writeln!(v, "Definition rt_usage_errors_exit_unspecified : bool := {usage}.");
        } else {
            out.miss("runtime.rs: fn libcnb_runtime");
        }
        if let Some(f) = find_free_fn(&file, "libcnb_runtime_detect") {
            let b = squash(&f.block);
            let ok = b.contains("InnerDetectResult::Fail=>{Ok(exit_code::DETECT_DETECTION_FAILED)}")
                && b.contains("InnerDetectResult::Pass{build_plan}=>{ifletSome(build_plan)=build_plan{write_toml_file(&build_plan,build_plan_path).map_err(Error::CannotWriteBuildPlan).inspect_err(trace_error)?;}Ok(exit_code::DETECT_DETECTION_PASSED)}");
            let _ = writeln!(v, "Definition rt_detect_result_shape_ok : bool := {ok}.");
        } else {
            out.miss("runtime.rs: fn libcnb_runtime_detect");
        }
        if let Some(f) = find_free_fn(&file, "libcnb_runtime_build") {
            let b = squash(&f.block);
            let ok = b.contains("ifletSome(launch)=launch{write_toml_file(&launch,layers_dir.join(\"launch.toml\"))")
                && b.contains("ifletSome(store)=store{write_toml_file(&store,layers_dir.join(\"store.toml\"))")
                && b.contains("forbuild_sbominbuild_sboms{fs::write(cnb_sbom_path(&build_sbom.format,&layers_dir,\"build\"),&build_sbom.data,)")
                && b.contains("forlaunch_sbominlaunch_sboms{fs::write(cnb_sbom_path(&launch_sbom.format,&layers_dir,\"launch\"),&launch_sbom.data,)")
                && b.contains("Ok(exit_code::GENERIC_SUCCESS)");
            let store_tol = b.contains("Err(TomlFileError::IoError(io_error))ifis_not_found_error_kind(&io_error)=>Ok(None),");
            let _ = writeln!(v, "Definition rt_build_outputs_shape_ok : bool := {ok}.");
            let _ = writeln!(v, "Definition rt_missing_store_tolerated : bool := {store_tol}.");
        } else {
            out.miss("runtime.rs: fn libcnb_runtime_build");
        }
        if let Some(f) = find_free_fn(&file, "context_target") {
            let b = squash(&f.block);
            let mandatory = ["CNB_TARGET_OS", "CNB_TARGET_ARCH", "CNB_TARGET_DISTRO_NAME", "CNB_TARGET_DISTRO_VERSION"]
                .iter()
                .all(|n| b.contains(&format!("env::var(\"{n}\").map_err(")));
            let variant_ok_silent = b.contains("env::var(\"CNB_TARGET_ARCH_VARIANT\").ok()");
            let _ = writeln!(v, "Definition rt_target_mandatory_vars_ok : bool := {mandatory}.");
            let _ = writeln!(v, "Definition rt_arch_variant_error_silenced : bool := {variant_ok_silent}.");
        } else {
            out.miss("runtime.rs: fn context_target");
        }
    } else {
        out.miss("runtime.rs: cannot parse");
    }
    out.coq("GenRuntime.v").push_str(&v);
    out.json.insert("runtime".into(), serde_json::Value::Object(j));
}
