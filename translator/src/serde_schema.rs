//! serde-derive schemas of libcnb-data (and libherokubuildpack::inventory) -> GenSerde.v
use crate::Out;
use crate::util::*;
use quote::ToTokens;
use serde_json::json;
use std::collections::{BTreeMap, BTreeSet};
use std::fmt::Write as _;
use std::path::Path;

fn squash(t: impl ToTokens) -> String {
    t.to_token_stream().to_string().split_whitespace().collect::<String>()
}

static UNKNOWN_ATTRS: std::sync::Mutex<Vec<String>> = std::sync::Mutex::new(Vec::new());

#[derive(Default, Debug)]
struct SerdeAttrs {
    rename: Option<String>,
    rename_all: Option<String>,
    default: bool,
    skip_if: Option<String>,
    deny: bool,
    untagged: bool,
    try_from: Option<String>,
    de_with: Option<String>,
    ser_with: Option<String>,
}

fn serde_attrs(attrs: &[syn::Attribute]) -> SerdeAttrs {
    let mut a = SerdeAttrs::default();
    for at in attrs {
        if !at.path().is_ident("serde") {
            continue;
        }
        let _ = at.parse_nested_meta(|m| {
            let key = m.path.get_ident().map(|i| i.to_string()).unwrap_or_default();
            let val = || -> Option<String> { m.value().ok()?.parse::<syn::LitStr>().ok().map(|l| l.value()) };
            match key.as_str() {
                "rename" => a.rename = val(),
                "rename_all" => a.rename_all = val(),
                "default" => {
                    a.default = true;
                    let _ = val();
                }
                "skip_serializing_if" => a.skip_if = val(),
                "deny_unknown_fields" => a.deny = true,
                "untagged" => a.untagged = true,
                "try_from" => a.try_from = val(),
                "deserialize_with" => a.de_with = val(),
                "serialize_with" => a.ser_with = val(),
                "bound" => {
                    let _ = val();
                }
                other => {
                    // an attribute this translator does not understand (alias, flatten, other, ...) changes what the
                    // derive accepts: reported, so that the schema obligation breaks instead of silently passing
                    UNKNOWN_ATTRS.lock().unwrap().push(other.to_string());
                    let _ = val();
                }
            }
            Ok(())
        });
    }
    a
}

fn derives(attrs: &[syn::Attribute]) -> (bool, bool) {
    let mut de = false;
    let mut ser = false;
    for at in attrs {
        if at.path().is_ident("derive") {
            let t = squash(&at.meta);
            if t.contains("Deserialize") {
                de = true;
            }
            if t.contains("Serialize") {
                ser = true;
            }
        }
    }
    (de, ser)
}

fn apply_rename_all(rule: &str, ident: &str) -> String {
    match rule {
        "lowercase" => ident.to_lowercase(),
        "UPPERCASE" => ident.to_uppercase(),
        "kebab-case" => ident.replace('_', "-"),
        "snake_case" => {
            let mut s = String::new();
            for (i, c) in ident.chars().enumerate() {
                if c.is_uppercase() && i > 0 {
                    s.push('_');
                }
                s.push(c.to_ascii_lowercase());
            }
            s
        }
        _ => ident.to_string(),
    }
}

const VALIDATED: [(&str, u32); 9] = [
    ("LayerName", 0),
    ("ProcessType", 1),
    ("BuildpackId", 2),
    ("ExecDProgramOutputKey", 3),
    ("BuildpackVersion", 4),
    ("BuildpackApi", 5),
    ("URIReference", 6),
    ("Checksum", 7),
    ("Version", 8),
];

struct Ctx<'a> {
    params: &'a [String],
    refs: BTreeSet<String>,
    problems: Vec<String>,
}

fn ty_coq(ty: &syn::Type, cx: &mut Ctx, fa: &SerdeAttrs) -> String {
    if let Some(w) = &fa.de_with {
        if w == "deserialize_uri_reference" {
            return "(TyValidated 6)".into();
        }
        cx.problems.push(format!("unknown deserialize_with {w}"));
    }
    match ty {
        syn::Type::Path(tp) => {
            let seg = tp.path.segments.last().unwrap();
            let name = seg.ident.to_string();
            let args: Vec<&syn::Type> = match &seg.arguments {
                syn::PathArguments::AngleBracketed(ab) => ab
                    .args
                    .iter()
                    .filter_map(|a| if let syn::GenericArgument::Type(t) = a { Some(t) } else { None })
                    .collect(),
                _ => vec![],
            };
            let none = SerdeAttrs::default();
            match name.as_str() {
                "String" | "PathBuf" => "TyString".into(),
                "bool" => "TyBool".into(),
                "u8" | "u16" | "u32" | "u64" | "i8" | "i16" | "i32" | "i64" | "usize" | "isize" => "TyInt".into(),
                "Vec" if args.len() == 1 => format!("(TyVec {})", ty_coq(args[0], cx, &none)),
                "HashSet" if args.len() == 1 => format!("(TySet {})", ty_coq(args[0], cx, &none)),
                "Option" if args.len() == 1 => format!("(TyOption {})", ty_coq(args[0], cx, &none)),
                "Table" => "TyTable".into(),
                "Value" => "TyAny".into(),
                "GenericMetadata" => "(TyOption TyTable)".into(),
                "WorkingDirectory" => "TyWorkDir".into(),
                n if cx.params.iter().any(|p| p == n) => n.to_string(),
                n if VALIDATED.iter().any(|(v, _)| *v == n) => {
                    format!("(TyValidated {})", VALIDATED.iter().find(|(v, _)| *v == n).unwrap().1)
                }
                n => {
                    cx.refs.insert(n.to_string());
                    if args.is_empty() {
                        format!("s_{n}")
                    } else {
                        format!("(s_{n} {})", args.iter().map(|a| ty_coq(a, cx, &none)).collect::<Vec<_>>().join(" "))
                    }
                }
            }
        }
        other => {
            cx.problems.push(format!("unsupported type {}", squash(other)));
            "TyNever".into()
        }
    }
}

fn default_coq(ty: &syn::Type, platform_default: &Option<String>) -> Option<String> {
    let s = squash(ty);
    let head = s.split('<').next().unwrap_or("").rsplit("::").next().unwrap_or("").to_string();
    Some(match head.as_str() {
        "Vec" | "HashSet" => "(VList [])".into(),
        "bool" => "(VBool false)".into(),
        "Table" => "(VTbl [])".into(),
        "String" => "(VStr [])".into(),
        "Option" => "(VOpt None)".into(),
        "WorkingDirectory" => "(VAlt 0 (VStr []))".into(),
        "Platform" => platform_default.clone()?,
        _ => return None,
    })
}

struct Def {
    name: String,
    params: Vec<String>,
    body: String,
    refs: BTreeSet<String>,
    de: bool,
    ser: bool,
}

pub fn translate(repo: &Path, out: &mut Out) {
    let files = [
        "libcnb-data/src/buildpack/mod.rs",
        "libcnb-data/src/buildpack/target.rs",
        "libcnb-data/src/buildpack/stack.rs",
        "libcnb-data/src/buildpack_plan.rs",
        "libcnb-data/src/build_plan.rs",
        "libcnb-data/src/layer_content_metadata.rs",
        "libcnb-data/src/launch.rs",
        "libcnb-data/src/store.rs",
        "libcnb-data/src/package_descriptor.rs",
        "libcnb-data/src/sbom.rs",
        "libherokubuildpack/src/inventory.rs",
        "libherokubuildpack/src/inventory/artifact.rs",
        "libherokubuildpack/src/inventory/checksum.rs",
    ];
    let mut defs: Vec<Def> = vec![];
    let mut manual: Vec<String> = vec![];
    let mut enum_variants: BTreeMap<String, Vec<String>> = BTreeMap::new();
    let mut platform_default: Option<String> = None;
    let mut parsed = vec![];
    for f in files {
        match parse_file(&repo.join(f)) {
            Some(p) => parsed.push((f, p)),
            None => out.miss(format!("serde schema: cannot parse {f}")),
        }
    }
    // pass 1: unit enums (needed for defaults), manual impls
    for (f, file) in &parsed {
        for item in &file.items {
            match item {
                syn::Item::Enum(e) => {
                    let sa = serde_attrs(&e.attrs);
                    if !sa.untagged && e.variants.iter().all(|v| matches!(v.fields, syn::Fields::Unit)) {
                        let names: Vec<String> = e
                            .variants
                            .iter()
                            .map(|v| {
                                let va = serde_attrs(&v.attrs);
                                va.rename.unwrap_or_else(|| match &sa.rename_all {
                                    Some(r) => apply_rename_all(r, &v.ident.to_string()),
                                    None => v.ident.to_string(),
                                })
                            })
                            .collect();
                        enum_variants.insert(e.ident.to_string(), names);
                    }
                }
                syn::Item::Impl(imp) => {
                    if let Some((_, p, _)) = &imp.trait_ {
                        let tn = p.segments.last().map(|s| s.ident.to_string()).unwrap_or_default();
                        if tn == "Serialize" || tn == "Deserialize" {
                            manual.push(format!("{}:{}:{}", f.rsplit('/').next().unwrap_or(f), type_name(&imp.self_ty), tn));
                        }
                        if tn == "Default" && type_name(&imp.self_ty) == "Platform" {
                            let b = squash(imp);
                            if b.contains("Self{os:PlatformOs::Linux}") || b.contains("Self{os:Linux}") {
                                platform_default = Some("PLATFORM_DEFAULT".into());
                            }
                        }
                    }
                }
                _ => {}
            }
        }
    }
    if let (Some(_), Some(vs)) = (&platform_default, enum_variants.get("PlatformOs")) {
        if let Some(i) = vs.iter().position(|v| v == "linux") {
            platform_default = Some(format!("(VRec [({}, VUnit {i})])", coq_bytes("os")));
        }
    }
    // pass 2: structs and enums
    for (_f, file) in &parsed {
        for item in &file.items {
            match item {
                syn::Item::Struct(st) => {
                    let (de, ser) = derives(&st.attrs);
                    if !de && !ser {
                        continue;
                    }
                    let sa = serde_attrs(&st.attrs);
                    let name = st.ident.to_string();
                    let params: Vec<String> = st.generics.type_params().map(|p| p.ident.to_string()).collect();
                    let mut cx = Ctx { params: &params, refs: BTreeSet::new(), problems: vec![] };
                    let body = if sa.try_from.is_some() {
                        match VALIDATED.iter().find(|(v, _)| *v == name) {
                            Some((_, i)) => format!("(TyValidated {i})"),
                            None => {
                                out.miss(format!("serde schema: try_from type {name} has no validator"));
                                "TyNever".into()
                            }
                        }
                    } else if let syn::Fields::Named(named) = &st.fields {
                        let mut rows = vec![];
                        for fld in &named.named {
                            let fa = serde_attrs(&fld.attrs);
                            let ident = fld.ident.as_ref().unwrap().to_string();
                            let ident = ident.trim_start_matches("r#").to_string();
                            let key = fa.rename.clone().unwrap_or_else(|| match &sa.rename_all {
                                Some(r) => apply_rename_all(r, &ident),
                                None => ident.clone(),
                            });
                            let t = ty_coq(&fld.ty, &mut cx, &fa);
                            let dflt = if fa.default {
                                match default_coq(&fld.ty, &platform_default) {
                                    Some(d) => format!("(Some {d})"),
                                    None => {
                                        cx.problems.push(format!("unknown Default for field {name}.{ident}"));
                                        "None".into()
                                    }
                                }
                            } else {
                                "None".into()
                            };
                            let skip = match fa.skip_if.as_deref() {
                                None => "SkNever",
                                Some("Vec::is_empty" | "HashSet::is_empty") => "SkIfEmptyList",
                                Some("std::ops::Not::not") => "SkIfFalse",
                                Some("WorkingDirectory::is_app") => "SkIfAppDir",
                                Some(o) => {
                                    cx.problems.push(format!("unknown skip_serializing_if {o}"));
                                    "SkNever"
                                }
                            };
                            rows.push(format!("({}, {t}, {dflt}, {skip})", coq_bytes(&key)));
                        }
                        format!("(TyStruct {} [{}])", sa.deny, rows.join(";\n     "))
                    } else {
                        // tuple structs (newtypes) are modelled by hand where needed
                        continue;
                    };
                    for p in &cx.problems {
                        out.miss(format!("serde schema: {name}: {p}"));
                    }
                    { let refs = cx.refs; defs.push(Def { name, params: params.clone(), body, refs, de, ser }); }
                }
                syn::Item::Enum(e) => {
                    let (de, ser) = derives(&e.attrs);
                    if !de && !ser {
                        continue;
                    }
                    let sa = serde_attrs(&e.attrs);
                    let name = e.ident.to_string();
                    if name == "WorkingDirectory" {
                        continue; // TyWorkDir; shape checked below
                    }
                    let params: Vec<String> = e.generics.type_params().map(|p| p.ident.to_string()).collect();
                    let mut cx = Ctx { params: &params, refs: BTreeSet::new(), problems: vec![] };
                    let body = if sa.untagged {
                        let mut alts = vec![];
                        for v in &e.variants {
                            match &v.fields {
                                syn::Fields::Unnamed(u) if u.unnamed.len() == 1 => {
                                    alts.push(ty_coq(&u.unnamed[0].ty, &mut cx, &SerdeAttrs::default()));
                                }
                                syn::Fields::Unit => alts.push("TyNever".into()),
                                _ => cx.problems.push("unsupported untagged variant".into()),
                            }
                        }
                        format!("(TyUntagged [{}])", alts.join("; "))
                    } else if let Some(names) = enum_variants.get(&name) {
                        format!("(TyUnitEnum [{}])", names.iter().map(|n| coq_bytes(n)).collect::<Vec<_>>().join("; "))
                    } else {
                        out.miss(format!("serde schema: enum {name} outside the modelled subset"));
                        continue;
                    };
                    for p in &cx.problems {
                        out.miss(format!("serde schema: {name}: {p}"));
                    }
                    { let refs = cx.refs; defs.push(Def { name, params: params.clone(), body, refs, de, ser }); }
                }
                _ => {}
            }
        }
    }
    // WorkingDirectory shape
    let mut workdir_ok = false;
    if let Some((_, file)) = parsed.iter().find(|(f, _)| f.ends_with("launch.rs")) {
        let mut enum_ok = false;
        let mut ser_ok = false;
        for item in &file.items {
            match item {
                syn::Item::Enum(e) if e.ident == "WorkingDirectory" => {
                    let sa = serde_attrs(&e.attrs);
                    let (de, ser) = derives(&e.attrs);
                    let vs: Vec<String> = e.variants.iter().map(|v| squash(v)).collect();
                    enum_ok = sa.untagged && de && !ser && vs.len() == 2 && vs[0].ends_with("App") && vs[1].ends_with("Directory(PathBuf)");
                }
                syn::Item::Impl(imp) if type_name(&imp.self_ty) == "WorkingDirectory" => {
                    if let Some((_, p, _)) = &imp.trait_ {
                        if p.segments.last().is_some_and(|s| s.ident == "Serialize") {
                            let b = squash(imp);
                            ser_ok = b.contains("Self::App=>serializer.serialize_str(\".\"),Self::Directory(path)=>path.serialize(serializer),");
                        }
                    }
                }
                _ => {}
            }
        }
        workdir_ok = enum_ok && ser_ok;
    }
    // topological order
    let names: BTreeSet<String> = defs.iter().map(|d| d.name.clone()).collect();
    let mut emitted: BTreeSet<String> = BTreeSet::new();
    let mut v = String::from("From LV Require Import Base Toml Serde.\nFrom Coq Require Import ZArith.\n\n");
    let mut progress = true;
    while progress {
        progress = false;
        for d in &defs {
            if emitted.contains(&d.name) {
                continue;
            }
            if d.refs.iter().all(|r| emitted.contains(r) || !names.contains(r)) {
                for r in &d.refs {
                    if !names.contains(r) {
                        out.miss(format!("serde schema: {} refers to unknown type {r}", d.name));
                    }
                }
                let params = d.params.iter().map(|p| format!("({p} : sty)")).collect::<Vec<_>>().join(" ");
                let _ = writeln!(v, "(* derive: Deserialize={} Serialize={} *)", d.de, d.ser);
                let _ = writeln!(v, "Definition s_{} {} : sty :=\n  {}.\n", d.name, params, d.body);
                emitted.insert(d.name.clone());
                progress = true;
            }
        }
    }
    for d in &defs {
        if !emitted.contains(&d.name) {
            out.miss(format!("serde schema: cyclic or unresolved definition {}", d.name));
        }
    }
    let _ = writeln!(v, "Definition working_directory_shape_ok : bool := {workdir_ok}.");
    manual.sort();
    let _ = writeln!(
        v,
        "Definition manual_serde_impls : list (list N) := [{}].",
        manual.iter().map(|m| coq_bytes(m)).collect::<Vec<_>>().join("; ")
    );
    let mut j = serde_json::Map::new();
    j.insert("manual_impls".into(), json!(manual));
    j.insert("types".into(), json!(defs.iter().map(|d| d.name.clone()).collect::<Vec<_>>()));
    let mut unknown: Vec<String> = UNKNOWN_ATTRS.lock().unwrap().drain(..).collect();
    unknown.sort();
    unknown.dedup();
    for u in unknown {
        out.miss(format!("serde schema: attribute `{u}` is not understood by the schema translator"));
    }
    out.coq("GenSerde.v").push_str(&v);
    out.json.insert("serde".into(), serde_json::Value::Object(j));
}
