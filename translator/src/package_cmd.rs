//! Shape facts of `cargo libcnb package` and the libcnb-package assembly code -> GenPackage.v
use crate::Out;
use crate::util::*;
use quote::ToTokens;
use std::fmt::Write as _;
use std::path::Path;

fn squash(t: impl ToTokens) -> String {
    t.to_token_stream().to_string().split_whitespace().collect::<String>()
}

pub fn translate(repo: &Path, out: &mut Out) {
    let mut v = String::from("From Coq Require Import List NArith.\nImport ListNotations.\nOpen Scope N_scope.\n");
    match parse_file(&repo.join("libcnb-cargo/src/package/command.rs")).as_ref().and_then(|f| find_free_fn(f, "execute").map(squash)) {
        Some(b) => {
            if std::env::var_os("VERIF_TR_DEBUG").is_some() {
                eprintln!("{b}");
            }
            let wipes = b.contains("let_=fs::remove_dir_all(&buildpack_destination_dir);fs::create_dir_all(&buildpack_destination_dir)");
            let roots = b.contains(".find(|node|node.path==current_dir).map(|node|vec![node]).or_else(||{current_dir.eq(&workspace_root_path).then(||{buildpack_dependency_graph.node_weights().collect::<Vec<_>>()})}).unwrap_or_default()");
            let prints = b.contains(".filter(|(id,_)|root_nodes.iter().any(|node|node.buildpack_id==**id)).for_each(|(_,packaged_buildpack_dir)|{println!(\"{}\",packaged_buildpack_dir.to_string_lossy());});")
                && b.matches("println!(").count() - b.matches("eprintln!(").count() == 1
                && b.contains("letmutpackaged_buildpack_dirs=BTreeMap::new();");
            let order = b.contains("letbuild_order=get_dependencies(&buildpack_dependency_graph,&root_nodes)") && b.contains("ifbuild_order.is_empty(){returnErr(Error::NoBuildpacksFound);}");
            let default_dir = b.contains(".unwrap_or(workspace_root_path.join(\"packaged\"))");
            let _ = writeln!(v, "Definition cmd_wipes_destination : bool := {wipes}.");
            let _ = writeln!(v, "Definition cmd_roots_shape_ok : bool := {roots}.");
            let _ = writeln!(v, "Definition cmd_prints_roots_sorted : bool := {prints}.");
            let _ = writeln!(v, "Definition cmd_order_shape_ok : bool := {order}.");
            let _ = writeln!(v, "Definition cmd_default_package_dir_ok : bool := {default_dir}.");
        }
        None => out.miss("command.rs: fn execute"),
    }
    match parse_file(&repo.join("libcnb-package/src/output.rs")) {
        Some(f) => {
            if std::env::var_os("VERIF_TR_DEBUG").is_some() {
                eprintln!("{:?}", find_free_fn(&f, "default_buildpack_directory_name").map(squash));
                eprintln!("{:?}", find_free_fn(&f, "create_packaged_buildpack_dir_resolver").map(squash));
            }
            let a = find_free_fn(&f, "default_buildpack_directory_name").map(squash).is_some_and(|b| b.ends_with("->String{buildpack_id.replace('/',\"_\")}"));
            let r = find_free_fn(&f, "create_packaged_buildpack_dir_resolver").map(squash).is_some_and(|b| {
                b.contains("package_dir.join(&target_triple).join(matchcargo_profile{CargoProfile::Dev=>\"debug\",CargoProfile::Release=>\"release\",}).join(default_buildpack_directory_name(buildpack_id))")
            });
            let _ = writeln!(v, "Definition dir_name_shape_ok : bool := {}.", a && r);
        }
        None => out.miss("output.rs: cannot parse"),
    }
    match parse_file(&repo.join("libcnb-package/src/lib.rs")).as_ref().and_then(|f| find_free_fn(f, "assemble_buildpack_directory").map(squash)) {
        Some(b) => {
            let ok = b.contains("fs::copy(buildpack_descriptor_path.as_ref(),destination_path.as_ref().join(\"buildpack.toml\"),)?;")
                && b.contains("letbin_path=destination_path.as_ref().join(\"bin\");fs::create_dir_all(&bin_path)?;")
                && b.contains("fs::copy(&buildpack_binaries.buildpack_target_binary_path,bin_path.join(\"build\"),)?;")
                && b.contains("create_file_symlink(\"build\",bin_path.join(\"detect\"))?;")
                && b.contains("if!buildpack_binaries.additional_target_binary_paths.is_empty(){")
                && b.contains(".join(\".libcnb-cargo\").join(\"additional-bin\");")
                && b.contains("fs::copy(binary_path,additional_binaries_dir.join(binary_target_name),)?;");
            let _ = writeln!(v, "Definition assemble_shape_ok : bool := {ok}.");
        }
        None => out.miss("lib.rs: fn assemble_buildpack_directory"),
    }
    match parse_file(&repo.join("libcnb-package/src/cargo.rs")).as_ref().and_then(|f| find_free_fn(f, "determine_buildpack_cargo_target_name").map(squash)) {
        Some(b) => {
            let ok = b.contains("matchbinary_target_names.len(){0|1=>binary_target_names.pop().ok_or(DetermineBuildpackCargoTargetNameError::NoBinTargets),_=>binary_target_names.contains(&root_package.name).then_some(root_package.name.clone()).ok_or(DetermineBuildpackCargoTargetNameError::AmbiguousBinTargets),}");
            let _ = writeln!(v, "Definition main_target_shape_ok : bool := {ok}.");
        }
        None => out.miss("cargo.rs: fn determine_buildpack_cargo_target_name"),
    }
    match parse_file(&repo.join("libcnb-package/src/package.rs")) {
        Some(f) => {
            let lit = find_free_fn(&f, "package_libcnb_buildpack").map(squash).and_then(|b| {
                b.find("fs::write(destination.join(\"package.toml\"),\"").map(|i| {
                    let rest = &b[i + "fs::write(destination.join(\"package.toml\"),".len()..];
                    rest[..rest.find(",)").unwrap_or(rest.len())].to_string()
                })
            });
            match lit.and_then(|l| syn::parse_str::<syn::LitStr>(&l).ok()) {
                // whitespace inside the literal is lost by squashing; compare modulo spaces
                Some(l) => {
                    let _ = writeln!(v, "Definition libcnb_package_toml_nospace : list N := {}.", coq_bytes(&l.value()));
                }
                None => out.miss("package.rs: package.toml literal"),
            }
            let comp = find_free_fn(&f, "package_composite_buildpack").map(squash).is_some_and(|b| {
                b.contains("fs::copy(buildpack_directory.join(\"buildpack.toml\"),destination.join(\"buildpack.toml\"),)")
                    && b.contains("normalize_package_descriptor(&package_descriptor,&package_descriptor_path,buildpack_paths,)")
                    && b.contains("write_toml_file(&normalized_package_descriptor,destination.join(\"package.toml\"),)")
            });
            let _ = writeln!(v, "Definition composite_shape_ok : bool := {comp}.");
        }
        None => out.miss("package.rs: cannot parse"),
    }
    out.coq("GenPackage.v").push_str(&v);
}
