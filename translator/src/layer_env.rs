//! Tables of libcnb/src/layer_env.rs -> GenLayerEnv.v
use crate::Out;
use crate::util::*;
use quote::ToTokens;
use serde_json::json;
use std::fmt::Write as _;
use std::path::Path;
use syn::visit::Visit;
use syn::{Expr, Stmt};

fn squash_stmt(s: &Stmt) -> String {
    s.to_token_stream().to_string().split_whitespace().collect::<String>()
}
fn squash_expr(e: &Expr) -> String {
    e.to_token_stream().to_string().split_whitespace().collect::<String>()
}

fn beh_coq(v: &str) -> Option<&'static str> {
    Some(match v {
        "Append" => "Append",
        "Default" => "Default",
        "Delimiter" => "Delim",
        "Override" => "Override",
        "Prepend" => "Prepend",
        _ => return None,
    })
}

fn kind_coq(v: &str) -> Option<&'static str> {
    Some(match v {
        "All" => "KAll",
        "Build" => "KBuild",
        "Launch" => "KLaunch",
        "Process" => "KProcess",
        _ => return None,
    })
}

fn field_coq(v: &str) -> Option<&'static str> {
    Some(match v {
        "all" => "FAll",
        "build" => "FBuild",
        "launch" => "FLaunch",
        "process" => "FProcessOf",
        "layer_paths_build" => "FPathsBuild",
        "layer_paths_launch" => "FPathsLaunch",
        _ => return None,
    })
}

/// all `<base>.field` accesses in source order where base is the identifier `base`
struct FieldsOf<'a> {
    base: &'a str,
    found: Vec<String>,
}
impl<'ast> Visit<'ast> for FieldsOf<'_> {
    fn visit_expr_field(&mut self, f: &'ast syn::ExprField) {
        if let Expr::Path(p) = &*f.base {
            if p.path.is_ident(self.base) {
                if let syn::Member::Named(id) = &f.member {
                    self.found.push(id.to_string());
                }
            }
        }
        syn::visit::visit_expr_field(self, f);
    }
    fn visit_macro(&mut self, m: &'ast syn::Macro) {
        // vec![a, b, c] and friends: look inside when the body is a comma-separated expr list
        if let Ok(exprs) = m.parse_body_with(syn::punctuated::Punctuated::<Expr, syn::Token![,]>::parse_terminated) {
            for e in &exprs {
                let mut inner = FieldsOf { base: self.base, found: vec![] };
                inner.visit_expr(e);
                self.found.extend(inner.found);
            }
        }
    }
}

struct Matches<'ast> {
    found: Vec<&'ast syn::ExprMatch>,
}
impl<'ast> Visit<'ast> for Matches<'ast> {
    fn visit_expr_match(&mut self, m: &'ast syn::ExprMatch) {
        self.found.push(m);
        syn::visit::visit_expr_match(self, m);
    }
}

struct MethodCalls<'ast> {
    found: Vec<&'ast syn::ExprMethodCall>,
}
impl<'ast> Visit<'ast> for MethodCalls<'ast> {
    fn visit_expr_method_call(&mut self, m: &'ast syn::ExprMethodCall) {
        // pre-order on receiver so that source order is kept for chains
        syn::visit::visit_expr_method_call(self, m);
        self.found.push(m);
    }
}

fn squash(t: impl ToTokens) -> String {
    t.to_token_stream().to_string().split_whitespace().collect::<String>()
}

pub fn translate(repo: &Path, out: &mut Out) {
    let path = repo.join("libcnb/src/layer_env.rs");
    let Some(file) = parse_file(&path) else {
        out.miss("layer_env.rs: cannot parse");
        return;
    };
    let mut v = String::new();
    v.push_str("From LV Require Import Base LayerEnv ImpPrims.\n\n");
    let mut j = serde_json::Map::new();

    // ---- 1. ModificationBehavior order index
    let mut emitted_order = false;
    if let Some(cmp) = find_impl_fn(&file, "ModificationBehavior", Some("Ord"), "cmp") {
        let mut index_fn = None;
        for st in &cmp.block.stmts {
            if let Stmt::Item(syn::Item::Fn(f)) = st {
                if f.sig.ident == "index" {
                    index_fn = Some(f);
                }
            }
        }
        if let Some(f) = index_fn {
            let mut ms = Matches { found: vec![] };
            ms.visit_block(&f.block);
            if let Some(m) = ms.found.first() {
                let mut rows: Vec<(String, i128)> = vec![];
                for arm in &m.arms {
                    if let (Some(var), Some(i)) = (pat_variant(&arm.pat), lit_int(&arm.body)) {
                        if let Some(b) = beh_coq(&var) {
                            rows.push((b.to_string(), i));
                        }
                    }
                }
                let mut sorted = rows.clone();
                sorted.sort_by_key(|r| r.1);
                let mut ints: Vec<i128> = rows.iter().map(|r| r.1).collect();
                ints.sort();
                ints.dedup();
                let distinct = ints.len() == rows.len() && rows.len() == 5;
                let _ = writeln!(
                    v,
                    "Definition beh_order : list beh := [{}].",
                    sorted.iter().map(|r| r.0.clone()).collect::<Vec<_>>().join("; ")
                );
                let _ = writeln!(v, "Definition beh_index_distinct : bool := {distinct}.");
                j.insert("beh_order".into(), json!(sorted.iter().map(|r| r.0.clone()).collect::<Vec<_>>()));
                emitted_order = true;
            }
        }
        // shape of the comparison itself
        let tail = cmp.block.stmts.last().map(squash).unwrap_or_default();
        let ok = tail == "index(self).cmp(&index(other))";
        let _ = writeln!(v, "Definition beh_cmp_shape_ok : bool := {ok}.");
        j.insert("beh_cmp_tail".into(), json!(tail));
    }
    if !emitted_order {
        out.miss("layer_env.rs: impl Ord for ModificationBehavior / fn index");
    }

    // ---- 2. per-scope delta lists of LayerEnv::apply
    let mut emitted_scope = false;
    if let Some(apply) = find_impl_fn(&file, "LayerEnv", None, "apply") {
        let mut ms = Matches { found: vec![] };
        ms.visit_block(&apply.block);
        for m in &ms.found {
            if squash(&m.expr) != "scope" {
                continue;
            }
            let mut rows = vec![];
            for arm in &m.arms {
                let Some(k) = pat_variant(&arm.pat).and_then(|s| kind_coq(&s).map(str::to_string)) else { continue };
                let mut fo = FieldsOf { base: "self", found: vec![] };
                fo.visit_expr(&arm.body);
                let fields: Vec<String> = fo.found.iter().filter_map(|f| field_coq(f).map(str::to_string)).collect();
                let unknown = fo.found.iter().any(|f| field_coq(f).is_none());
                if unknown {
                    out.miss(format!("layer_env.rs: apply arm {k} touches an unknown field"));
                }
                rows.push((k, fields));
            }
            let _ = writeln!(
                v,
                "Definition scope_fields : scope_table := [{}].",
                rows.iter().map(|(k, fs)| format!("({k}, [{}])", fs.join("; "))).collect::<Vec<_>>().join("; ")
            );
            j.insert("scope_fields".into(), json!(rows));
            emitted_scope = true;
            break;
        }
        let tail = apply.block.stmts.last().map(squash).unwrap_or_default();
        let ok = tail == "deltas.iter().fold(env.clone(),|env,delta|delta.apply(&env))";
        let _ = writeln!(v, "Definition apply_fold_shape_ok : bool := {ok}.");
        j.insert("apply_fold_tail".into(), json!(tail));
    }
    if !emitted_scope {
        out.miss("layer_env.rs: LayerEnv::apply `match scope`");
    }

    // ---- 3. writer suffix table
    let mut emitted_w = false;
    if let Some(w) = find_impl_fn(&file, "LayerEnvDelta", None, "write_to_env_dir") {
        let mut ms = Matches { found: vec![] };
        ms.visit_block(&w.block);
        for m in &ms.found {
            let rows: Vec<(String, String)> = m
                .arms
                .iter()
                .filter_map(|a| Some((beh_coq(&pat_variant(&a.pat)?)?.to_string(), lit_str(&a.body)?)))
                .collect();
            if rows.len() == m.arms.len() && !rows.is_empty() {
                let _ = writeln!(
                    v,
                    "Definition writer_suffix : list (beh * bytes) := [{}].",
                    rows.iter().map(|(b, s)| format!("({b}, {})", coq_bytes(s))).collect::<Vec<_>>().join("; ")
                );
                j.insert("writer_suffix".into(), json!(rows));
                emitted_w = true;
                break;
            }
        }
        // directory handling shape: exists -> remove_dir_all ; non-empty -> create_dir_all
        let mut mc = MethodCalls { found: vec![] };
        mc.visit_block(&w.block);
        let calls: Vec<String> = mc.found.iter().map(|m| m.method.to_string()).collect();
        j.insert("writer_method_calls".into(), json!(calls));
        let body = squash(&w.block);
        let wipes = body.contains("ifpath.as_ref().exists(){") && body.contains("fs::remove_dir_all(path.as_ref())?;");
        let skips_empty = body.contains("if!self.entries.is_empty(){fs::create_dir_all(path.as_ref())?;");
        let _ = writeln!(v, "Definition writer_wipes_existing : bool := {wipes}.");
        let _ = writeln!(v, "Definition writer_skips_empty : bool := {skips_empty}.");
    }
    if !emitted_w {
        out.miss("layer_env.rs: write_to_env_dir suffix match");
    }

    // ---- 4. reader suffix table
    let mut emitted_r = false;
    if let Some(r) = find_impl_fn(&file, "LayerEnvDelta", None, "read_from_env_dir") {
        let mut ms = Matches { found: vec![] };
        ms.visit_block(&r.block);
        let mut no_ext: Option<String> = None;
        let mut table: Vec<(String, String)> = vec![];
        let mut unknown_ignored = false;
        for m in &ms.found {
            for arm in &m.arms {
                let pat = squash(&arm.pat);
                let body = squash(&arm.body);
                let body_beh = body
                    .strip_prefix("Some(ModificationBehavior::")
                    .and_then(|s| s.strip_suffix(")"))
                    .and_then(beh_coq);
                if pat == "None" {
                    if let Some(b) = body_beh {
                        no_ext = Some(b.to_string());
                    }
                } else if let Some(lit) = pat.strip_prefix("Some(\"").and_then(|s| s.strip_suffix("\")")) {
                    if let Some(b) = body_beh {
                        table.push((lit.to_string(), b.to_string()));
                    }
                } else if pat == "Some(_)|None" && body == "None" {
                    unknown_ignored = true;
                }
            }
        }
        if !table.is_empty() {
            let _ = writeln!(
                v,
                "Definition reader_suffix : list (bytes * beh) := [{}].",
                table.iter().map(|(s, b)| format!("({}, {b})", coq_bytes(s))).collect::<Vec<_>>().join("; ")
            );
            let _ = writeln!(
                v,
                "Definition reader_no_ext : option beh := {}.",
                no_ext.as_ref().map_or("None".to_string(), |b| format!("Some {b}"))
            );
            let _ = writeln!(v, "Definition reader_unknown_ignored : bool := {unknown_ignored}.");
            j.insert("reader_suffix".into(), json!(table));
            j.insert("reader_no_ext".into(), json!(no_ext));
            emitted_r = true;
        }
    }
    if !emitted_r {
        out.miss("layer_env.rs: read_from_env_dir suffix match");
    }

    // ---- 5. layer path specs
    let mut emitted_p = false;
    if let Some(r) = find_impl_fn(&file, "LayerEnv", None, "read_from_layer_dir") {
        // let X_path = layer_dir.as_ref().join("sub");
        let mut joins: Vec<(String, String)> = vec![];
        let mut specs: Vec<(String, String, String)> = vec![];
        for st in &r.block.stmts {
            if let Stmt::Local(l) = st {
                let Some(init) = &l.init else { continue };
                let name = match &l.pat {
                    syn::Pat::Ident(i) => i.ident.to_string(),
                    _ => continue,
                };
                if let Expr::MethodCall(mc) = &*init.expr {
                    if mc.method == "join" {
                        if let Some(s) = mc.args.first().and_then(lit_str) {
                            joins.push((name.clone(), s));
                        }
                    }
                }
                if name == "layer_path_specs" {
                    if let Expr::Array(arr) = &*init.expr {
                        for el in &arr.elems {
                            if let Expr::Tuple(t) = el {
                                let parts: Vec<&Expr> = t.elems.iter().collect();
                                if parts.len() == 3 {
                                    let var = lit_str(parts[0]);
                                    let kind = expr_variant(parts[1]).and_then(|s| kind_coq(&s).map(str::to_string));
                                    let pv = expr_variant(parts[2]);
                                    let sub = pv.and_then(|pv| joins.iter().find(|(n, _)| *n == pv).map(|(_, s)| s.clone()));
                                    if let (Some(a), Some(b), Some(c)) = (var, kind, sub) {
                                        specs.push((a, b, c));
                                    } else {
                                        out.miss("layer_env.rs: unrecognised layer_path_specs row");
                                    }
                                }
                            }
                        }
                    }
                }
            }
        }
        if !specs.is_empty() {
            let _ = writeln!(
                v,
                "Definition layer_path_specs : list (bytes * scope_kind * bytes) := [{}].",
                specs.iter().map(|(a, b, c)| format!("({}, {b}, {})", coq_bytes(a), coq_bytes(c))).collect::<Vec<_>>().join("; ")
            );
            j.insert("layer_path_specs".into(), json!(specs));
            emitted_p = true;
        }
        // the loop over the specs: test, targets, inserted behaviours
        for st in &r.block.stmts {
            if let Stmt::Expr(Expr::ForLoop(fl), _) = st {
                if squash(&fl.expr) != "layer_path_specs" {
                    continue;
                }
                let mut test = String::new();
                let mut targets: Vec<(String, String)> = vec![];
                let mut inserts: Vec<(String, String)> = vec![];
                for st in &fl.body.stmts {
                    if let Stmt::Expr(Expr::If(ife), _) = st {
                        test = squash(&ife.cond);
                        let mut ms = Matches { found: vec![] };
                        ms.visit_block(&ife.then_branch);
                        for m in &ms.found {
                            for arm in &m.arms {
                                let Some(k) = pat_variant(&arm.pat).and_then(|s| kind_coq(&s).map(str::to_string)) else { continue };
                                let mut fo = FieldsOf { base: "result_layer_env", found: vec![] };
                                fo.visit_expr(&arm.body);
                                for f in fo.found {
                                    if let Some(fc) = field_coq(&f) {
                                        targets.push((k.clone(), fc.to_string()));
                                    }
                                }
                            }
                        }
                        let mut mc = MethodCalls { found: vec![] };
                        mc.visit_block(&ife.then_branch);
                        for c in mc.found {
                            if c.method == "insert" {
                                let args: Vec<&Expr> = c.args.iter().collect();
                                if args.len() == 3 {
                                    if let Some(b) = expr_variant(args[0]).and_then(|s| beh_coq(&s).map(str::to_string)) {
                                        inserts.push((b, squash(args[2])));
                                    }
                                }
                            }
                        }
                    }
                }
                let _ = writeln!(v, "Definition layer_path_test_is_dir : bool := {}.", test == "path.is_dir()");
                let _ = writeln!(
                    v,
                    "Definition layer_path_targets : list (scope_kind * field) := [{}].",
                    targets.iter().map(|(a, b)| format!("({a}, {b})")).collect::<Vec<_>>().join("; ")
                );
                let ins_ok = inserts
                    == vec![
                        ("Prepend".to_string(), "path".to_string()),
                        ("Delim".to_string(), "PATH_LIST_SEPARATOR".to_string()),
                    ];
                let _ = writeln!(v, "Definition layer_path_inserts_ok : bool := {ins_ok}.");
                j.insert("layer_path_test".into(), json!(test));
                j.insert("layer_path_inserts".into(), json!(inserts));
            }
        }
        // env directory names read
        let read_dirs: Vec<String> =
            joins.iter().filter(|(n, _)| n.starts_with("env")).map(|(_, s)| s.clone()).collect();
        let _ = writeln!(
            v,
            "Definition read_env_dirs : list bytes := [{}].",
            read_dirs.iter().map(|s| coq_bytes(s)).collect::<Vec<_>>().join("; ")
        );
    }
    if !emitted_p {
        out.miss("layer_env.rs: read_from_layer_dir layer_path_specs");
    }

    // ---- 5b. reader: directories inside env dirs / per-process sub-directories (finding F2)
    {
        let skips = find_impl_fn(&file, "LayerEnvDelta", None, "read_from_env_dir")
            .map(|f| squash(&f.block).contains("ifpath.is_dir(){continue;}"))
            .unwrap_or(false);
        let procs = find_impl_fn(&file, "LayerEnv", None, "read_from_layer_dir")
            .map(|f| {
                let b = squash(&f.block);
                b.contains("result_layer_env.process.insert(") && b.contains("fs::read_dir(&env_launch_path)?")
            })
            .unwrap_or(false);
        let _ = writeln!(v, "Definition reader_skips_directories : bool := {skips}.");
        let _ = writeln!(v, "Definition reader_reads_process_dirs : bool := {procs}.");
        let _ = writeln!(v, "Definition reads_process : bool := {}.", skips && procs);
    }

    // ---- 6. env directory names written
    if let Some(w) = find_impl_fn(&file, "LayerEnv", None, "write_to_layer_dir") {
        let mut mc = MethodCalls { found: vec![] };
        mc.visit_block(&w.block);
        let dirs: Vec<String> = mc
            .found
            .iter()
            .filter(|m| m.method == "join")
            .filter_map(|m| m.args.first().and_then(lit_str))
            .collect();
        let _ = writeln!(
            v,
            "Definition write_env_dirs : list bytes := [{}].",
            dirs.iter().map(|s| coq_bytes(s)).collect::<Vec<_>>().join("; ")
        );
        j.insert("write_env_dirs".into(), json!(dirs));
    } else {
        out.miss("layer_env.rs: write_to_layer_dir");
    }

    // ---- 7. PATH_LIST_SEPARATOR (unix)
    let mut sep = None;
    for it in &file.items {
        if let syn::Item::Const(c) = it {
            if c.ident == "PATH_LIST_SEPARATOR" && !cfg_excludes_unix(&c.attrs) {
                sep = lit_str(&c.expr);
            }
        }
    }
    if let Some(s) = sep {
        let _ = writeln!(v, "Definition path_list_separator : bytes := {}.", coq_bytes(&s));
        j.insert("path_list_separator".into(), json!(s));
    } else {
        out.miss("layer_env.rs: PATH_LIST_SEPARATOR");
    }

    // ---- 8. the loop body of LayerEnvDelta::apply, translated statement by statement (imp.rs)
    if let Some(f) = find_impl_fn(&file, "LayerEnvDelta", None, "apply") {
        let cfg = crate::imp::Config {
            methods: vec![
                ("get", "(bget {0} {r})"),
                ("cloned", "{r}"),
                ("clone", "{r}"),
                ("unwrap_or_default", "(opt_default {r})"),
                ("contains_key", "(env_contains {0} {r})"),
                ("is_empty", "(is_empty {r})"),
                ("delimiter_for", "(delimiter_for {r} {0})"),
            ],
            mutators: vec![("insert", "(bset {0} {1} {r})"), ("push", "({r} ++ {0})")],
            state_calls: vec![],
            calls: vec![("OsString::new", "(@nil N)")],
            variants: vec![("Override", "Override"), ("Default", "Default"), ("Append", "Append"), ("Prepend", "Prepend"), ("Delimiter", "Delim")],
            eq: "beq",
            take_default: "(@nil N)",
            mcalls: vec![],
            mmethods: vec![],
            display: vec![],
        };
        let st = &f.block.stmts;
        // expected frame: let mut result_env = env.clone(); for PAT in &self.entries { BODY } result_env
        let frame_ok = st.len() == 3
            && squash_stmt(&st[0]) == "letmutresult_env=env.clone();"
            && squash_stmt(&st[2]) == "result_env"
            && matches!(&st[1], Stmt::Expr(Expr::ForLoop(fl), _) if squash_expr(&fl.expr) == "&self.entries");
        let _ = writeln!(v, "Definition apply_loop_frame_ok : bool := {frame_ok}.");
        if let Some(Stmt::Expr(Expr::ForLoop(fl), _)) = st.get(1) {
            let mut ids = vec![];
            crate::imp::pat_idents(&fl.pat, &mut ids);
            if ids == ["modification_behavior", "name", "value"] {
                let mut tr = crate::imp::Tr::new(&cfg);
                let mut scope = vec!["result_env".to_string()];
                let term = tr.stmts(&fl.body.stmts, &mut scope, &["result_env".to_string()]);
                for m in &tr.missing {
                    out.miss(format!("layer_env.rs: LayerEnvDelta::apply body: {m}"));
                }
                let _ = writeln!(
                    v,
                    "(* LayerEnvDelta::apply, one iteration of `for ((modification_behavior, name), value) in &self.entries` *)\nDefinition gen_delta_step (self : delta) (modification_behavior : beh) (result_env : env) (name value : bytes) : env :=\n{}.",
                    crate::imp::indent(&term, 2)
                );
                j.insert("gen_delta_step".into(), json!(term));
            } else {
                out.miss(format!("layer_env.rs: LayerEnvDelta::apply loop pattern binds {ids:?}"));
            }
        } else {
            out.miss("layer_env.rs: LayerEnvDelta::apply `for` loop");
        }
    } else {
        out.miss("layer_env.rs: LayerEnvDelta::apply");
    }

    // ---- 9. LayerEnvDelta::write_to_env_dir and LayerEnv::write_to_layer_dir in the file-system monad (imp.rs)
    {
        let cfg = crate::imp::Config {
            methods: vec![
                ("as_ref", "{r}"),
                ("clone", "{r}"),
                ("as_bytes", "{r}"),
                ("join", "({r} ++ [{0}])"),
                ("is_empty", "(is_empty {r})"),
                ("exists", "(exists_ {r} st_)"),
            ],
            mutators: vec![("push", "({r} ++ {0})")],
            state_calls: vec![],
            calls: vec![],
            variants: vec![("Override", "Override"), ("Default", "Default"), ("Append", "Append"), ("Prepend", "Prepend"), ("Delimiter", "Delim")],
            eq: "beq",
            take_default: "(@nil N)",
            mcalls: vec![
                ("fs::remove_dir_all", "(remove_dir_all {0})"),
                ("fs::create_dir_all", "(create_dir_all (S (length {0})) {0})"),
                ("fs::write", "(write_file {0} (Raw {1}))"),
            ],
            mmethods: vec![("write_to_env_dir", "(gen_write_to_env_dir {r} {0})")],
            display: vec![],
        };
        let mut g = String::from("From LV Require Import Base FS LayerEnv LayerShared ImpPrims ImpFacts ImpReader.\nOpen Scope N_scope.\n\n");
        if let Some(f) = find_impl_fn(&file, "LayerEnvDelta", None, "write_to_env_dir") {
            let mut tr = crate::imp::Tr::new(&cfg);
            let term = tr.mstmts(&f.block.stmts);
            for m in &tr.missing {
                out.miss(format!("layer_env.rs: write_to_env_dir: {m}"));
            }
            let _ = writeln!(g, "(* LayerEnvDelta::write_to_env_dir; self.entries in BTreeMap order *)\nDefinition gen_write_to_env_dir (self_entries : list ((beh * bytes) * bytes)) (path : path) : M unit :=\n{}.", crate::imp::indent(&term, 2));
        } else {
            out.miss("layer_env.rs: fn write_to_env_dir");
        }
        if let Some(f) = find_impl_fn(&file, "LayerEnv", None, "write_to_layer_dir") {
            let mut tr = crate::imp::Tr::new(&cfg);
            let term = tr.mstmts(&f.block.stmts);
            for m in &tr.missing {
                out.miss(format!("layer_env.rs: write_to_layer_dir: {m}"));
            }
            let _ = writeln!(g, "(* LayerEnv::write_to_layer_dir; the fields are the deltas' entry lists, self.process in map order *)\nDefinition gen_write_to_layer_dir (self_all self_build self_launch : list ((beh * bytes) * bytes)) (self_process : list (bytes * list ((beh * bytes) * bytes))) (layer_dir : path) : M unit :=\n{}.", crate::imp::indent(&term, 2));
        } else {
            out.miss("layer_env.rs: fn write_to_layer_dir");
        }

        // ---- LayerEnvDelta::read_from_env_dir: a loop that mutates a local and can fail (imp.rs, `mst`)
        {
            let rcfg = crate::imp::Config {
                methods: vec![
                    ("as_ref", "{r}"),
                    ("path", "(path ++ [{r}])"),
                    ("is_dir", "(is_dir {r} st_)"),
                    ("file_stem", "(file_stem_of {r})"),
                    ("extension", "(extension_of {r})"),
                    ("to_str", "(Some {r})"),
                    ("to_os_string", "{r}"),
                    ("clone", "{r}"),
                ],
                mutators: vec![("insert", "(dinsert {0} {1} {2} {r})")],
                state_calls: vec![],
                calls: vec![("Self::new", "delta_empty"), ("OsString::from_vec", "{0}"), ("Some", "(Some {0})")],
                variants: vec![("Override", "Override"), ("Default", "Default"), ("Append", "Append"), ("Prepend", "Prepend"), ("Delimiter", "Delim")],
                eq: "beq",
                take_default: "(@nil N)",
                mcalls: vec![("fs::read_dir", "(names_of {0})"), ("fs::read", "(read_bytes {0})")],
                mmethods: vec![],
                display: vec![],
            };
            if let Some(f) = find_impl_fn(&file, "LayerEnvDelta", None, "read_from_env_dir") {
                let mut tr = crate::imp::Tr::new(&rcfg);
                let mut scope: Vec<String> = vec![];
                let term = tr.mst(&f.block.stmts, &mut scope, &[], None);
                for m in &tr.missing {
                    out.miss(format!("layer_env.rs: read_from_env_dir: {m}"));
                }
                let _ = writeln!(g, "(* LayerEnvDelta::read_from_env_dir *)\nDefinition gen_read_from_env_dir (path : path) : M delta :=\n{}.", crate::imp::indent(&term, 2));
            } else {
                out.miss("layer_env.rs: fn read_from_env_dir");
            }
        }
        out.coq("GenLayerEnvImp.v").push_str(&g);
    }

    out.coq("GenLayerEnv.v").push_str(&v);
    out.json.insert("layer_env".into(), serde_json::Value::Object(j));
}
