"""Shared helpers for file-system based streams: tree generation and Coq rendering."""
from common import cq_bytes, cq_list

NAMES = [b"a", b"b", b"c", b"d"]
DIR_MODES = [0o755, 0o755, 0o755, 0o555, 0o700, 0o000, 0o311, 0o666]
FILE_MODES = [0o644, 0o644, 0o444, 0o000, 0o200, 0o755]
UNPRIV = ["setpriv", "--reuid=65534", "--regid=65534", "--clear-groups"]


def cq_path(p):
    return cq_list([cq_bytes(n) for n in p])


def cq_tv(t):
    """Python value (from tomllib / generators) -> Toml.tv term, table keys sorted (canonical form)"""
    if isinstance(t, bool):
        return f"(TBool {'true' if t else 'false'})"
    if isinstance(t, int):
        return f"(TInt ({t})%Z)"
    if isinstance(t, str):
        return f"(TStr {cq_bytes(t.encode('utf-8'))})"
    if isinstance(t, (list, tuple)):
        return "(TArr %s)" % cq_list([cq_tv(x) for x in t])
    if isinstance(t, dict):
        items = sorted(((k.encode("utf-8"), v) for k, v in t.items()), key=lambda kv: kv[0])
        return "(TTbl %s)" % cq_list(["(%s, %s)" % (cq_bytes(k), cq_tv(v)) for k, v in items])
    raise ValueError(f"unsupported TOML value {t!r}")


def cq_node(n):
    if n["k"] == "f":
        if "doc" in n:
            return f"(File {n['m']} (Doc {cq_tv(n['doc'])}))"
        return f"(File {n['m']} (Raw {cq_bytes(n['c'])}))"
    if n["k"] == "d":
        return f"(Dir {n['m']})"
    return f"(Link {cq_bytes(n['t'])})"


def cq_fs(nodes):
    return cq_list([f"({cq_path(n['p'])}, {cq_node(n)})" for n in nodes])


ROOT = [list(b"r")]
TARGETS = [b"a", b"b", b"../a", b"../b", b"a/b", b".", b"..", b"nope", b"/r/a", b"/r/b/a", b"/r", b"c", b"../c/d",
           b"./a", b"/r/a/b", b"/nope", b"b/c"]


def gen_tree(rng, names=NAMES, max_depth=3, p_link=0.2, modes=True, prefix=ROOT, root_mode=0o755):
    """Random tree as a list of nodes (parents before children) below the work root [prefix].
    The sandbox (model root []) contains only the work root, so a single '..' can never leave the
    modelled part of the real file system; targets use '..' only as their first component."""
    nodes = [{"p": list(prefix), "k": "d", "m": root_mode}]

    def rec(base, depth):
        for nm in names:
            r = rng.random()
            if r < 0.45:
                continue
            p = list(base) + [list(nm)]
            r = rng.random()
            if r < p_link:
                t = rng.choice(TARGETS + [bytes(nm)])
                nodes.append({"p": p, "k": "l", "t": list(t)})
            elif r < 0.6 and depth < max_depth:
                nodes.append({"p": p, "k": "d", "m": rng.choice(DIR_MODES) if modes else 0o755})
                rec(p, depth + 1)
            else:
                nodes.append({"p": p, "k": "f", "m": rng.choice(FILE_MODES) if modes else 0o644,
                              "c": [rng.choice([65, 66, 10, 0, 255]) for _ in range(rng.randint(0, 3))]})
    rec(list(prefix), 1)
    return nodes


def rand_path(rng, names=NAMES, max_len=3, prefix=ROOT):
    """work-root-relative random path; '.' may appear but never as the final component
    (rmdir/unlink of 'x/.' have their own errno rules that the modelled code never meets)"""
    n = rng.randint(1, max_len)
    comps = [list(rng.choice(names + ([b"."] if (rng.random() < 0.15 and i < n - 1) else []))) for i in range(n)]
    return list(prefix) + comps
