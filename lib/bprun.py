"""Running the test buildpack executable (harness/src/bin/testbp.rs) the way the lifecycle does."""
import json
import os
import shutil
import subprocess
import tomllib
from concurrent.futures import ThreadPoolExecutor

from common import CARGO_TARGET, NPROC

TESTBP = os.path.join(CARGO_TARGET, "debug", "testbp")
UID = 65534
FMT_FILE = {"cdx": "cdx.json", "spdx": "spdx.json", "syft": "syft.json"}
EXPECTED_PLAN = {"provides": [{"name": "verif"}], "requires": [{"name": "verif", "metadata": {}}],
                 "or": [{"provides": [{"name": "alt"}]}]}
EXPECTED_PLANS = {"pass_plan_or": {"or": [{"provides": [{"name": "node"}], "requires": [{"name": "node", "metadata": {}}]}]},
                  "pass_plan_empty": {}}   # empty lists are omitted by the writer
EXPECTED_LAUNCH = {"processes": [{"type": "web", "command": ["run"], "default": True}]}
EXPECTED_STORE = {"metadata": {"k": "new"}}
DESC = {
    "ok": 'api = "0.10"\n[buildpack]\nid = "verif/test"\nversion = "0.0.1"\n',
    "api_only": 'api = "0.10"\n',
    "api_other": 'api = "0.9"\n[buildpack]\nid = "verif/test"\nversion = "0.0.1"\n',
    "malformed": "not toml [",
}


def chown_r(path):
    for dp, dn, fn in os.walk(path):
        os.chown(dp, UID, UID)
        for f in fn:
            os.lchown(os.path.join(dp, f), UID, UID)


def exe_file(cfg):
    """file name the executable is invoked under: detect / build, or any other name for exe == 'other'"""
    return cfg.get("exe_name", "other") if cfg["exe"] == "other" else cfg["exe"]


def setup(cfg, root):
    """cfg: dict with exe, nargs, bpdir, desc, vars{os,arch,variant,dname,dver}, plat, plan, store, det, build{...},
    writable, pre, plus optional overrides: platform_tree, plan_text, store_text, desc_text, env_values"""
    shutil.rmtree(root, ignore_errors=True)
    for d in ["bp", "platform", "layers", "app", "out", "bin", "plandir"]:
        os.makedirs(os.path.join(root, d))
    if cfg.get("bp_form") == "symlink":
        os.symlink("bp", os.path.join(root, "bplink"))
    for n in {"detect", "build", "other", exe_file(cfg)}:
        os.symlink(TESTBP, os.path.join(root, "bin", n))
    if cfg["desc"] != "missing":
        with open(os.path.join(root, "bp", "buildpack.toml"), "w") as f:
            f.write(cfg.get("desc_text") or DESC[cfg["desc"]])
    # the layout <dir>/bin/<phase> with a valid <dir>/buildpack.toml: still no substitute for CNB_BUILDPACK_DIR
    with open(os.path.join(root, "buildpack.toml"), "w") as f:
        f.write(DESC["ok"])
    if cfg.get("prime"):
        # another buildpack's directory, used by an earlier detect call in the same process (VERIF_BP_PRIME)
        os.makedirs(os.path.join(root, "decoybp"))
        with open(os.path.join(root, "decoybp", "buildpack.toml"), "w") as f:
            f.write(DESC["ok"].replace("verif/test", "verif/decoy"))
    envd = os.path.join(root, "platform", "env")
    if cfg["plat"] != "env_missing":
        os.makedirs(envd)
        if "platform_tree" in cfg:
            for ent in cfg["platform_tree"]:
                p = os.path.join(envd.encode(), bytes(ent["name"]))
                if ent["k"] == "f":
                    with open(p, "wb") as f:
                        f.write(bytes(ent["c"]))
                elif ent["k"] == "d":
                    os.makedirs(p)
                    if ent.get("inner"):
                        open(os.path.join(p, b"inner"), "wb").write(b"x")
                else:
                    os.symlink(bytes(ent["t"]), p)
        else:
            open(os.path.join(envd, "FOO"), "w").write("bar")
        if cfg["plat"] == "bad":
            open(os.path.join(envd, "BAD"), "wb").write(b"\xff\xfe")
    is_build = cfg["exe"] == "build"
    plan_path = os.path.join(root, "plandir", "plan.toml")
    if is_build:
        if cfg["plan"] == "ok":
            open(plan_path, "w").write(cfg.get("plan_text") or '[[entries]]\nname = "x"\n')
        elif cfg["plan"] == "malformed":
            open(plan_path, "w").write("x = [")
        elif cfg["plan"] == "nonutf8":        # present but unreadable as text: an I/O error that is NOT "not found"
            open(plan_path, "wb").write(b'[[entries]]\nname = "caf\xe9"\n')
        elif cfg["plan"] == "isdir":
            os.makedirs(plan_path)
        if cfg["store"] == "ok":
            open(os.path.join(root, "layers", "store.toml"), "w").write(cfg.get("store_text") or '[metadata]\nk = "old"\n')
        elif cfg["store"] == "malformed":
            open(os.path.join(root, "layers", "store.toml"), "w").write("x = [")
        elif cfg["store"] == "nonutf8":
            open(os.path.join(root, "layers", "store.toml"), "wb").write(b'[metadata]\nowner = "caf\xe9"\n')
        elif cfg["store"] == "isdir":
            os.makedirs(os.path.join(root, "layers", "store.toml"))
    pre = {}
    if cfg.get("pre"):
        if not is_build:
            pre[plan_path] = b"junk = 1\n"
        else:
            pre[os.path.join(root, "layers", "launch.toml")] = b"junk = 2\n"
            for ph in ("build", "launch"):
                for s in FMT_FILE.values():
                    pre[os.path.join(root, "layers", f"{ph}.sbom.{s}")] = b"junk-sbom"
        for p, c in pre.items():
            open(p, "wb").write(c)
    json.dump({"detect": cfg["det"], "build": cfg["build"]}, open(os.path.join(root, "control.json"), "w"))
    chown_r(root)
    if not cfg["writable"]:
        for p in pre:
            os.chmod(p, 0o444)
        if is_build and os.path.exists(os.path.join(root, "layers", "store.toml")):
            os.chmod(os.path.join(root, "layers", "store.toml"), 0o444)
        os.chmod(os.path.join(root, "layers"), 0o555)
        os.chmod(os.path.join(root, "plandir"), 0o555)
    return pre


def classify(path, pre, expected_tree=None, expected_bytes=None):
    if not os.path.exists(path):
        return "absent"
    data = open(path, "rb").read()
    if path in pre and data == pre[path]:
        return "pre"
    if expected_bytes is not None:
        return "new" if data == expected_bytes else "other"
    try:
        return "new" if tomllib.loads(data.decode()) == expected_tree else "other"
    except Exception:
        return "other"


def run_one(cfg, root):
    pre = setup(cfg, root)
    is_build = cfg["exe"] == "build"
    plan_path = os.path.join(root, "plandir", "plan.toml")
    store_path = os.path.join(root, "layers", "store.toml")
    store_before = open(store_path, "rb").read() if os.path.isfile(store_path) else (b"<dir>" if os.path.isdir(store_path) else None)
    platform_arg = os.path.join(root, "platform")
    if cfg.get("odd_platform"):
        # the platform directory named through a path that is not UTF-8 (file names are bytes)
        platform_arg = os.path.join(root, "plat-caf\udce9")
        if not os.path.lexists(platform_arg):
            os.symlink("platform", platform_arg)
    full = [os.path.join(root, "layers"), platform_arg, plan_path] if is_build else \
           [platform_arg, plan_path]
    if cfg["exe"] == "other":
        full = [os.path.join(root, "platform"), plan_path]
    n = cfg["nargs"]
    args = (full + ["extra1", "extra2", "extra3"])[:n]
    env = {"PATH": "/usr/bin:/bin", "VERIF_BP_CONTROL": os.path.join(root, "control.json"), "VERIF_BP_OUT": os.path.join(root, "out")}
    # the lifecycle also exports the paths it passes as arguments (buildpack API >= 0.8); libcnb reads its arguments only
    env["CNB_PLATFORM_DIR"] = platform_arg
    env["CNB_APP_DIR"] = os.path.join(root, "app")
    # ... or not at all, or (a variable the platform or an outer process left in the environment) naming some
    # other directory: the app directory is the working directory the phase is started in
    if cfg.get("app_env") == "absent":
        del env["CNB_APP_DIR"]
    elif cfg.get("app_env") == "other":
        env["CNB_APP_DIR"] = os.path.join(root, "platform")
    if is_build:
        env["CNB_LAYERS_DIR"] = os.path.join(root, "layers")
        env["CNB_BP_PLAN_PATH"] = plan_path
    else:
        env["CNB_BUILD_PLAN_PATH"] = plan_path
    bp_env = {"symlink": os.path.join(root, "bplink"), "dotdot": os.path.join(root, "bp", "..", "bp")}.get(cfg.get("bp_form"), os.path.join(root, "bp"))
    if cfg["bpdir"]:
        env["CNB_BUILDPACK_DIR"] = bp_env
    vals = cfg.get("env_values", {})
    for k, var in [("os", "CNB_TARGET_OS"), ("arch", "CNB_TARGET_ARCH"), ("variant", "CNB_TARGET_ARCH_VARIANT"),
                   ("dname", "CNB_TARGET_DISTRO_NAME"), ("dver", "CNB_TARGET_DISTRO_VERSION")]:
        if cfg["vars"][k]:
            val = vals.get(k, {"os": "linux", "arch": "amd64", "variant": "v8", "dname": "ubuntu", "dver": "24.04"}[k])
            env[var] = bytes(val) if isinstance(val, list) else val
    if cfg.get("prime"):
        env["VERIF_BP_PRIME"] = os.path.join(root, "decoybp")
    env.update(cfg.get("extra_env", {}))
    if "LLVM_PROFILE_FILE" in os.environ:      # coverage measurement only (tools/coverage.sh)
        env["LLVM_PROFILE_FILE"] = os.environ["LLVM_PROFILE_FILE"]
    envb = {k.encode(): (v if isinstance(v, bytes) else os.fsencode(v)) for k, v in env.items()}
    p = subprocess.run(["setpriv", "--reuid=65534", "--regid=65534", "--clear-groups",
                        os.path.join(root, "bin", exe_file(cfg))] + args, cwd=os.path.join(root, "app"), env=envb,
                       stdout=subprocess.PIPE, stderr=subprocess.PIPE, timeout=60)

    def count(name):
        q = os.path.join(root, "out", name)
        return os.path.getsize(q) if os.path.exists(q) else 0
    o = {"exit": p.returncode, "detect_entered": count("detect_entered"), "build_entered": count("build_entered"),
         "on_error": count("on_error"), "stderr": p.stderr.decode("utf-8", "replace")[-300:], "bp_env": bp_env}
    o["plan"] = classify(plan_path, pre, EXPECTED_PLANS.get(cfg["det"], EXPECTED_PLAN)) if not is_build else "n/a"
    if not is_build and o["plan"] == "other":
        try:
            o["plan_doc"] = tomllib.loads(open(plan_path, "rb").read().decode())
        except Exception:
            o["plan_doc"] = None
    if is_build:
        o["launch"] = classify(os.path.join(root, "layers", "launch.toml"), pre, EXPECTED_LAUNCH)
        if not os.path.exists(store_path):
            o["store"] = "absent"
        else:
            now = open(store_path, "rb").read() if os.path.isfile(store_path) else b"<dir>"
            if store_before is not None and now == store_before:
                o["store"] = "pre"
            else:
                try:
                    want = {"metadata": {}} if cfg["build"].get("store") == "empty" else EXPECTED_STORE
                    o["store"] = "new" if tomllib.loads(now.decode()) == want else "other"
                except Exception:
                    o["store"] = "other"
        o["bsboms"] = {k: classify(os.path.join(root, "layers", f"build.sbom.{s}"), pre, expected_bytes=f"build-{k}".encode()) for k, s in FMT_FILE.items()}
        o["lsboms"] = {k: classify(os.path.join(root, "layers", f"launch.sbom.{s}"), pre, expected_bytes=f"launch-{k}".encode()) for k, s in FMT_FILE.items()}
    for name in ("detect_context.json", "build_context.json"):
        q = os.path.join(root, "out", name)
        if os.path.exists(q):
            o[name[:-5]] = json.load(open(q))
    # make the tree removable again
    for d in ("layers", "plandir"):
        os.chmod(os.path.join(root, d), 0o755)
    if cfg.get("want_tree"):
        tree = []
        for d in ("layers", "plandir"):
            for dp, dn, fn in os.walk(os.path.join(root, d)):
                dn.sort()
                for f in sorted(fn):
                    q = os.path.join(dp, f)
                    tree.append((os.path.relpath(q, root), open(q, "rb").read().hex()))
        o["tree"] = tree
    return o


def run_many(cases, workdir):
    os.makedirs(workdir, exist_ok=True)

    def one(c):
        root = os.path.join(workdir, f"bp_{c['id']}")
        try:
            return c["id"], run_one(c, root)
        finally:
            shutil.rmtree(root, ignore_errors=True)
    obs = {}
    with ThreadPoolExecutor(max_workers=NPROC) as ex:
        for cid, o in ex.map(one, cases):
            obs[cid] = o
    return obs
