"""A small TOML writer for generated documents (trees of dict / list / str / int / bool), checked
against tomllib, plus conversion of harness JSON dumps into Coq terms."""
import tomllib

from common import cq_bytes, cq_list, cq_bool
from fsgen import cq_tv


def _esc(s):
    out = []
    for ch in s:
        o = ord(ch)
        if ch == '"':
            out.append('\\"')
        elif ch == "\\":
            out.append("\\\\")
        elif ch == "\n":
            out.append("\\n")
        elif ch == "\t":
            out.append("\\t")
        elif ch == "\r":
            out.append("\\r")
        elif o < 0x20 or o == 0x7F:
            out.append("\\u%04X" % o)
        else:
            out.append(ch)
    return '"' + "".join(out) + '"'


def _key(k):
    return _esc(k)


def render_value(v):
    if isinstance(v, bool):
        return "true" if v else "false"
    if isinstance(v, int):
        return str(v)
    if isinstance(v, str):
        return _esc(v)
    if isinstance(v, list):
        return "[" + ", ".join(render_value(x) for x in v) + "]"
    if isinstance(v, dict):
        return "{" + ", ".join(f"{_key(k)} = {render_value(x)}" for k, x in v.items()) + "}"
    raise ValueError(v)


def render_doc(doc, style=0):
    """top-level table as key = value lines; style 1 uses [table] / [[array]] headers for the
    first level of nesting so that both TOML spellings are exercised"""
    lines = []
    later = []
    for k, v in doc.items():
        if style == 1 and isinstance(v, dict) and v:
            later.append((k, v, False))
        elif style == 1 and isinstance(v, list) and v and all(isinstance(x, dict) for x in v):
            later.append((k, v, True))
        else:
            lines.append(f"{_key(k)} = {render_value(v)}")
    for k, v, arr in later:
        if arr:
            for item in v:
                lines.append(f"[[{_key(k)}]]")
                for k2, v2 in item.items():
                    lines.append(f"{_key(k2)} = {render_value(v2)}")
        else:
            lines.append(f"[{_key(k)}]")
            for k2, v2 in v.items():
                lines.append(f"{_key(k2)} = {render_value(v2)}")
    text = "\n".join(lines) + "\n"
    back = tomllib.loads(text)
    if back != doc:
        raise AssertionError(f"TOML writer self-check failed: {doc!r} -> {text!r} -> {back!r}")
    return text


def cq_jtv(j):
    """harness tv dump ({"s":..}|{"i":..}|{"b":..}|{"a":[..]}|{"t":[[k,v]..]}) -> Toml.tv term"""
    if "s" in j:
        return f"(TStr {cq_bytes(j['s'])})"
    if "i" in j:
        return f"(TInt ({j['i']})%Z)"
    if "b" in j:
        return f"(TBool {cq_bool(j['b'])})"
    if "a" in j:
        return "(TArr %s)" % cq_list([cq_jtv(x) for x in j["a"]])
    if "t" in j:
        return "(TTbl %s)" % cq_list(["(%s, %s)" % (cq_bytes(k), cq_jtv(v)) for k, v in j["t"]])
    raise ValueError(f"unsupported toml value in dump: {j}")


def cq_sval(j):
    if "str" in j:
        return f"(VStr {cq_bytes(j['str'])})"
    if "bool" in j:
        return f"(VBool {cq_bool(j['bool'])})"
    if "list" in j:
        return "(VList %s)" % cq_list([cq_sval(x) for x in j["list"]])
    if "opt" in j:
        return "(VOpt None)" if j["opt"] is None else f"(VOpt (Some {cq_sval(j['opt'])}))"
    if "tbl" in j:
        t = cq_jtv(j["tbl"])           # (TTbl [...])
        return "(VTbl %s)" % t[len("(TTbl "):-1]
    if "rec" in j:
        return "(VRec %s)" % cq_list(["(%s, %s)" % (cq_bytes(k), cq_sval(v)) for k, v in j["rec"]])
    if "unit" in j:
        return f"(VUnit {j['unit']}%nat)"
    if "alt" in j:
        return f"(VAlt {j['alt'][0]}%nat {cq_sval(j['alt'][1])})"
    raise ValueError(j)
