"""Shared helpers for the libcnb-test properties (C16, C17): reading the stand-in's command log."""
import re

# link.txt is a symlink to app.txt: listed (and copied) with the content it leads to
FIXTURE_LISTING = [["app.txt", list(b"app")], ["link.txt", list(b"app")], ["sub/", []], ["sub/inner.txt", list(b"inner")]]
NAME_RE = re.compile(r"^libcnbtest_[a-z]{12}$")

RUN_FLAGS = {"--name": True, "--detach": False, "--rm": False, "--platform": True, "--entrypoint": True,
             "--env": True, "--publish": True, "--mount": True}


def s(argbytes):
    return bytes(argbytes).decode("utf-8", "surrogateescape")


def run_positionals(args):
    """docker run: options up to the first positional (reference grammar; mirrors Argv.parse_opts)."""
    flags, i = [], 0
    while i < len(args):
        a = args[i]
        if a == "--":
            return flags, args[i + 1:]
        if a.startswith("--") and len(a) > 2:
            name = a.split("=", 1)[0]
            if name not in RUN_FLAGS:
                return None, None
            if RUN_FLAGS[name] and "=" not in a:
                if i + 1 >= len(args):
                    return None, None
                flags.append((name, args[i + 1]))
                i += 2
            else:
                flags.append((name, None))
                i += 1
        elif a.startswith("-") and len(a) > 1:
            return None, None
        else:
            return flags, args[i:]
    return flags, []


class Names:
    def __init__(self):
        self.ids = {}
        self.ok = True

    def get(self, name):
        if not NAME_RE.match(name):
            self.ok = False
        if name not in self.ids:
            self.ids[name] = len(self.ids)
        return self.ids[name]


def events(log):
    """-> (list of Coq `option ev` terms, number of distinct names, names_ok)"""
    names = Names()
    out = []
    for e in log:
        prog = e["prog"]
        a = [s(x) for x in e["argv"]]
        ev = None
        try:
            if prog == "pack" and a[:1] == ["build"]:
                img = a[1]
                i = names.get(img)
                caches = [a[k + 1] for k in range(len(a) - 1) if a[k] == "--cache"]
                if caches == [f"type=build;format=volume;name={img}.build-cache", f"type=launch;format=volume;name={img}.launch-cache"]:
                    ev = f"EPack {i}"
            elif prog == "pack" and a[:2] == ["sbom", "download"]:
                ev = f"ESbom {names.get(a[2])}"
            elif prog == "docker" and a[:1] == ["run"]:
                flags, pos = run_positionals(a[1:])
                if flags is not None and pos:
                    fd = dict(flags)
                    c = names.get(fd["--name"])
                    img = names.get(pos[0])
                    det, rm = "--detach" in fd, "--rm" in fd
                    if det and not rm:
                        ev = f"ERunD {img} {c}"
                    elif rm and not det:
                        ev = f"ERunRm {img} {c}"
            elif prog == "docker" and a[:1] == ["logs"] and len(a) in (2, 3):
                if len(a) == 2:
                    ev = f"ELogs {names.get(a[1])} false"
                elif a[2] == "--follow":
                    ev = f"ELogs {names.get(a[1])} true"
            elif prog == "docker" and a[:1] == ["port"] and len(a) == 3:
                ev = f"EPort {names.get(a[1])}"
            elif prog == "docker" and a[:1] == ["exec"] and len(a) >= 3:
                ev = f"EExec {names.get(a[1])}"
            elif prog == "docker" and a[:1] == ["rm"] and len(a) == 3 and a[2] == "--force":
                ev = f"ERmC {names.get(a[1])}"
            elif prog == "docker" and a[:1] == ["rmi"] and len(a) == 3 and a[2] == "--force":
                ev = f"ERmI {names.get(a[1])}"
            elif prog == "docker" and a[:2] == ["volume", "remove"] and len(a) == 5 and a[4] == "--force":
                if a[2].endswith(".build-cache") and a[3] == a[2][:-len(".build-cache")] + ".launch-cache":
                    ev = f"ERmV {names.get(a[2][:-len('.build-cache')])}"
        except (IndexError, KeyError):
            ev = None
        out.append(f"(Some ({ev}))" if ev else "None")
    return out, len(names.ids), names.ok
