"""Shared machinery of the /verif checks: build stages, Coq case evaluation, decision, evidence.

Stages (DESIGN.md section 2): translate -> coq core -> hygiene -> harness build -> generate ->
run implementation -> evaluate in Coq -> decide + report.
"""
import fcntl
import hashlib
import json
import os
import re
import shutil
import subprocess
import sys
import time
from concurrent.futures import ThreadPoolExecutor

VERIF = os.path.dirname(os.path.dirname(os.path.abspath(__file__)))
REPO = os.environ.get("VERIF_REPO", "/repo")
BUILD = os.path.join(VERIF, "build")
COQ = os.path.join(VERIF, "coq")
GEN = os.path.join(COQ, "generated")
# VERIF_CARGO_SUFFIX: a separate target directory for instrumented builds (tools/coverage.sh)
CARGO_TARGET = os.path.join(BUILD, "cargo" + os.environ.get("VERIF_CARGO_SUFFIX", ""))
CARGO_TARGET_TR = os.path.join(BUILD, "cargo-tr")
HARNESS_BIN = os.path.join(CARGO_TARGET, "debug", "harness")
TRANSLATOR_BIN = os.path.join(CARGO_TARGET_TR, "debug", "verif-translator")
COQ_FLAGS = ["-Q", os.path.join(COQ, "theories"), "LV", "-Q", GEN, "LVGen"]
NPROC = 16

HYGIENE_RE = re.compile(
    r"\b(Admitted|admit|Axiom|Axioms|Parameter|Parameters|Conjecture|Conjectures|Admit Obligations)\b"
    r"|Unset Guard|bypass_check|type-in-type|impredicative-set|Unset Universe Checking|Unset Positivity"
)
# Print Assumptions allow-list (DESIGN.md section 4): empty.
ASSUMPTION_ALLOW = set()


def log(msg):
    print(f"[check] {msg}", file=sys.stderr, flush=True)


def env_offline():
    e = dict(os.environ)
    e["CARGO_NET_OFFLINE"] = "true"
    e.setdefault("RUSTFLAGS", "")
    if "--cfg libcnb_rs_verif" not in e["RUSTFLAGS"]:
        e["RUSTFLAGS"] = (e["RUSTFLAGS"] + " --cfg libcnb_rs_verif").strip()
    return e


class Lock:
    def __init__(self, name="build"):
        os.makedirs(BUILD, exist_ok=True)
        self.path = os.path.join(BUILD, f".{name}.lock")

    def __enter__(self):
        self.f = open(self.path, "w")
        fcntl.flock(self.f, fcntl.LOCK_EX)
        return self

    def __exit__(self, *a):
        fcntl.flock(self.f, fcntl.LOCK_UN)
        self.f.close()


def run(cmd, cwd=None, env=None, timeout=1800, check=False, stdin=None):
    p = subprocess.run(cmd, cwd=cwd, env=env, timeout=timeout, stdout=subprocess.PIPE,
                       stderr=subprocess.STDOUT, text=True, input=stdin)
    if check and p.returncode != 0:
        raise RuntimeError(f"command failed: {cmd}\n{p.stdout[-4000:]}")
    return p.returncode, p.stdout


def _sync_lock(crate_dir):
    src = os.path.join(REPO, "Cargo.lock")
    dst = os.path.join(crate_dir, "Cargo.lock")
    if not os.path.exists(dst):
        shutil.copyfile(src, dst)


# ----------------------------------------------------------------------------- stage 1
def translate():
    """Build and run the translator. Returns (ok, missing list, text)."""
    crate = os.path.join(VERIF, "translator")
    _sync_lock(crate)
    e = env_offline()
    e["CARGO_TARGET_DIR"] = CARGO_TARGET_TR
    e["RUSTFLAGS"] = ""
    rc, out = run(["cargo", "build", "--offline", "-q"], cwd=crate, env=e)
    if rc != 0:
        # one retry with a fresh lock file (e.g. /repo's Cargo.lock changed)
        shutil.copyfile(os.path.join(REPO, "Cargo.lock"), os.path.join(crate, "Cargo.lock"))
        rc, out = run(["cargo", "build", "--offline", "-q"], cwd=crate, env=e)
        if rc != 0:
            raise RuntimeError("translator build failed:\n" + out[-3000:])
    os.makedirs(GEN, exist_ok=True)
    rc, out = run([TRANSLATOR_BIN, REPO, GEN])
    if rc != 0:
        raise RuntimeError("translator crashed:\n" + out[-3000:])
    gj = json.load(open(os.path.join(GEN, "generated.json")))
    return gj


# ----------------------------------------------------------------------------- stage 2
def coq_makefile():
    mk = os.path.join(COQ, "Makefile")
    cp = os.path.join(COQ, "_CoqProject")
    if not os.path.exists(mk) or os.path.getmtime(mk) < os.path.getmtime(cp):
        run(["coq_makefile", "-f", "_CoqProject", "-o", "Makefile"], cwd=COQ, check=True)


def coq_make(targets, timeout=1500):
    """make -k the given .vo targets. Returns dict target -> (ok, log)."""
    coq_makefile()
    res = {}
    rc, out = run(["make", "-k", f"-j{NPROC}"] + targets, cwd=COQ, timeout=timeout)
    for t in targets:
        ok = os.path.exists(os.path.join(COQ, t)) and _uptodate(t)
        res[t] = ok
    return res, out


def _uptodate(target):
    rc, out = run(["make", "-q", target], cwd=COQ)
    return rc == 0


def coqc_file(vfile, timeout=900):
    rc, out = run(["coqc", "-noglob"] + COQ_FLAGS + [vfile], cwd=COQ, timeout=timeout)
    return rc, out


def props_status(prop_id):
    """Re-compile Props/<id>.v capturing Print Assumptions. Returns dict."""
    vfile = os.path.join(COQ, "theories", "Props", f"{prop_id}.v")
    if not os.path.exists(vfile):
        return {"ok": True, "theorems": [], "examples": [], "assumption_blocks": 0, "axioms": [], "bad_axioms": [], "log": ""}
    src = open(vfile).read()
    theorems = re.findall(r"^\s*(?:Theorem|Corollary)\s+(\w+)", src, re.M)
    examples = re.findall(r"^\s*(?:Example)\s+(\w+)", src, re.M)
    rc, out = coqc_file(vfile)
    blocks = []
    cur = None
    for line in out.splitlines():
        if line.startswith("Closed under the global context"):
            blocks.append([])
            cur = None
        elif line.startswith("Axioms:"):
            cur = []
            blocks.append(cur)
        elif cur is not None:
            m = re.match(r"^([A-Za-z_][\w.']*)\s*:", line)
            if m:
                cur.append(m.group(1))
            elif not line.startswith(" ") and line.strip():
                cur = None
    axioms = sorted({a for b in blocks for a in b})
    bad_axioms = [a for a in axioms if a not in ASSUMPTION_ALLOW]
    return {
        "ok": rc == 0,
        "theorems": theorems,
        "examples": examples,
        "assumption_blocks": len(blocks),
        "axioms": axioms,
        "bad_axioms": bad_axioms,
        "log": out[-3000:] if rc != 0 else "",
    }


# ----------------------------------------------------------------------------- stage 3
def hygiene():
    bad = []
    for root in (os.path.join(COQ, "theories"), GEN):
        for dp, _, fs in os.walk(root):
            for f in fs:
                if not f.endswith(".v"):
                    continue
                p = os.path.join(dp, f)
                text = open(p).read()
                # strip comments (nested)
                text = strip_coq_comments(text)
                for i, line in enumerate(text.splitlines(), 1):
                    if HYGIENE_RE.search(line):
                        bad.append(f"{os.path.relpath(p, VERIF)}:{i}: {line.strip()[:100]}")
    return bad


def strip_coq_comments(text):
    out = []
    depth = 0
    i = 0
    n = len(text)
    while i < n:
        if text.startswith("(*", i):
            depth += 1
            i += 2
        elif text.startswith("*)", i) and depth > 0:
            depth -= 1
            i += 2
        else:
            if depth == 0:
                out.append(text[i])
            elif text[i] == "\n":
                out.append("\n")
            i += 1
    return "".join(out)


# ----------------------------------------------------------------------------- stage 4
def build_harness(bins=None):
    crate = os.path.join(VERIF, "harness")
    _sync_lock(crate)
    e = env_offline()
    e["CARGO_TARGET_DIR"] = CARGO_TARGET
    cmd = ["cargo", "build", "--offline", "-q"]
    rc, out = run(cmd, cwd=crate, env=e, timeout=2400)
    if rc != 0:
        shutil.copyfile(os.path.join(REPO, "Cargo.lock"), os.path.join(crate, "Cargo.lock"))
        rc, out = run(cmd, cwd=crate, env=e, timeout=2400)
    return rc == 0, out


class ImplementationPanic(Exception):
    """the code under test panicked on a generated case (observed by the harness under catch_unwind)"""
    def __init__(self, case, message):
        super().__init__(message)
        self.case = case
        self.message = message


def run_harness(stream, cases, workdir, extra_env=None, shards=NPROC, timeout=1200, prefix=None):
    """Run the harness on cases (list of dicts with 'id'), sharded. Returns dict id -> observed."""
    os.makedirs(workdir, exist_ok=True)
    if not cases:
        return {}
    shards = max(1, min(shards, len(cases)))
    chunks = [cases[i::shards] for i in range(shards)]
    e = dict(os.environ)
    if extra_env:
        e.update(extra_env)

    def one(i):
        cin = os.path.join(workdir, f"cases_{stream}_{i}.json")
        cout = os.path.join(workdir, f"observed_{stream}_{i}.json")
        json.dump({"cases": chunks[i]}, open(cin, "w"))
        cmd = (prefix or []) + [HARNESS_BIN, stream, cin, cout]
        p = subprocess.run(cmd, env=e, stdout=subprocess.PIPE, stderr=subprocess.STDOUT, text=True, timeout=timeout)
        if p.returncode != 0:
            # the process died (stack overflow, abort, signal): the last id in the progress file is the case it died on
            try:
                last = open(cout + ".progress").read().split()[-1]
                culprit = next(c for c in chunks[i] if str(c["id"]) == last)
            except Exception:
                raise RuntimeError(f"harness {stream} shard {i} failed rc={p.returncode}:\n{p.stdout[-3000:]}")
            raise ImplementationPanic(culprit, f"the harness process died (exit status {p.returncode}) while running this case: "
                                               + p.stdout[-400:].strip())
        return json.load(open(cout))

    obs = {}
    with ThreadPoolExecutor(max_workers=shards) as ex:
        for res in ex.map(one, range(shards)):
            for o in res:
                obs[o["id"]] = o
    panics = sorted(i for i, o in obs.items() if isinstance(o, dict) and o.get("panic") is not None)
    if panics:
        by_id = {c["id"]: c for c in cases}
        first = min(panics, key=lambda i: len(json.dumps(by_id[i])))
        raise ImplementationPanic(by_id[first], f"{len(panics)} of {len(cases)} cases panicked; first: {obs[first]['panic'][:400]}")
    return obs


# ----------------------------------------------------------------------------- Coq term rendering
def cq_bytes(b):
    if isinstance(b, str):
        b = b.encode()
    return "[" + ";".join(str(int(x)) for x in b) + "]"


def cq_list(items):
    return "[" + "; ".join(items) + "]"


def cq_bool(b):
    return "true" if b else "false"


def cq_opt(x, f=lambda t: t):
    return "None" if x is None else f"(Some {f(x)})"


def cq_pair(a, b):
    return f"({a}, {b})"


def cq_N(n):
    return str(int(n))


# ----------------------------------------------------------------------------- stage 7
def _big_stack():
    """long byte strings (tens of thousands of list elements) overflow coqc's default 8 MB stack"""
    import resource
    try:
        hard = resource.getrlimit(resource.RLIMIT_STACK)[1]
        resource.setrlimit(resource.RLIMIT_STACK, (hard, hard))
    except (ValueError, OSError):
        pass


def coq_eval(prop_id, hold_mod, agree_mod, terms, workdir, per_shard=400, want_branch=True, timeout=1500,
             extra_imports="", scope="N_scope"):
    """terms: list of (id:int, gallina_term). Returns dict with failing ids and branch histogram.
    agree_mod may be None (tie broken: only the verified oracle is evaluated)."""
    os.makedirs(workdir, exist_ok=True)
    for f in os.listdir(workdir):
        if f.startswith("cases_") and f.endswith((".v", ".vo", ".glob", ".out")):
            os.remove(os.path.join(workdir, f))
    shards = [terms[i:i + per_shard] for i in range(0, len(terms), per_shard)]

    def one(i):
        name = f"cases_{prop_id}_{i}"
        vf = os.path.join(workdir, name + ".v")
        with open(vf, "w") as f:
            f.write("From LV Require Import Base.\n")
            f.write(extra_imports)
            f.write(f"From LV.Checks Require Import {hold_mod}.\n")
            if agree_mod:
                f.write(f"From LV.Checks Require Import {agree_mod}.\n")
            f.write(f"Open Scope {scope}.\n")
            f.write("Definition cases : list (N * case) := [\n")
            f.write(";\n".join(f"({cid}%N, {t})" for cid, t in shards[i]))
            f.write("\n].\n")
            f.write("Eval vm_compute in failing_ids holds cases.\n")
            if agree_mod:
                f.write("Eval vm_compute in failing_ids agrees cases.\n")
            if want_branch:
                f.write("Eval vm_compute in map (fun ic => branch_of (snd ic)) cases.\n")
        p = subprocess.run(["coqc", "-noglob"] + COQ_FLAGS + ["-Q", workdir, "LVRun", vf],
                           stdout=subprocess.PIPE, stderr=subprocess.STDOUT, text=True, timeout=timeout,
                           preexec_fn=_big_stack)
        return p.returncode, p.stdout

    bad_hold, bad_agree, branches = [], [], {}
    errors = []
    with ThreadPoolExecutor(max_workers=NPROC) as ex:
        for i, (rc, out) in enumerate(ex.map(one, range(len(shards)))):
            if rc != 0:
                errors.append(f"shard {i}: {out[-1500:]}")
                continue
            blocks = re.findall(r"^\s*=\s*(.*?)^\s*:\s*list", out, re.S | re.M)
            nums = [[int(x) for x in re.findall(r"\d+", b)] for b in blocks]
            k = 0
            bad_hold += nums[k]; k += 1
            if agree_mod:
                bad_agree += nums[k]; k += 1
            if want_branch:
                for b in nums[k]:
                    branches[b] = branches.get(b, 0) + 1
    return {"bad_hold": bad_hold, "bad_agree": bad_agree, "branches": branches, "errors": errors,
            "evaluated": len(terms)}


# ----------------------------------------------------------------------------- findings / replay / evidence
def known_findings():
    p = os.path.join(VERIF, "KNOWN_FINDINGS.json")
    if not os.path.exists(p):
        return []
    return json.load(open(p))


def write_replay(prop_id, payload):
    d = os.path.join(VERIF, "replays", prop_id)
    os.makedirs(d, exist_ok=True)
    body = json.dumps(payload, sort_keys=True, indent=1)
    h = hashlib.sha1(body.encode()).hexdigest()[:12]
    path = os.path.join(d, f"{h}.json")
    payload = dict(payload)
    payload["rerun"] = f"./check {prop_id} --replay {os.path.relpath(path, VERIF)}"
    json.dump(payload, open(path, "w"), sort_keys=True, indent=1)
    return path


def write_evidence(prop_id, tier, seed, coverage, assumptions, wall_s, violations):
    d = os.path.join(VERIF, "evidence")
    os.makedirs(d, exist_ok=True)
    ev = {
        "property_id": prop_id,
        "tier": tier,
        "seed": seed,
        "level": "proof",
        "coverage": coverage,
        "assumptions": assumptions,
        "wall_s": round(wall_s, 2),
        "violations": violations,
    }
    json.dump(ev, open(os.path.join(d, f"{prop_id}.json"), "w"), indent=1, sort_keys=True)
    return ev


def src_hash(paths):
    h = hashlib.sha256()
    for p in sorted(paths):
        if os.path.isdir(p):
            for dp, dn, fs in os.walk(p):
                dn.sort()
                for f in sorted(fs):
                    fp = os.path.join(dp, f)
                    h.update(fp.encode())
                    h.update(open(fp, "rb").read())
        elif os.path.exists(p):
            h.update(p.encode())
            h.update(open(p, "rb").read())
    return h.hexdigest()


class Timer:
    def __init__(self):
        self.t0 = time.time()

    def s(self):
        return time.time() - self.t0
