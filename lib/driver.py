"""Generic check driver: one property through stages 1-8 (DESIGN.md section 2)."""
import json
import os
import random
import sys

from common import *  # noqa


def finding_matches(entry, prop_id, key):
    return entry.get("property") == prop_id and entry.get("status") == "known" and entry.get("match") == key


def run_property(prop, tier, seed, replay=None):
    T = Timer()
    pid = prop.id
    workdir = os.path.join(BUILD, "run", pid)
    os.makedirs(workdir, exist_ok=True)
    notes = []
    broken = []          # names of obligations / correspondences that no longer check

    # ---- stages 1-4 under the build lock
    with Lock():
        gj = translate()
        for m in gj.get("missing", []):
            if any(m.startswith(pfx) for pfx in prop.translator_prefixes):
                broken.append(f"translator: {m}")
        targets = list(prop.coq_targets)
        res, mklog = coq_make(targets)
        hyg = hygiene()
        ok_h, hlog = build_harness()
        if not ok_h:
            raise RuntimeError("harness build failed (the repository does not compile against the harness):\n" + hlog[-4000:])
        pst = props_status(pid)
    hold_ok = res.get(prop.hold_target, False)
    agree_ok = res.get(prop.agree_target, False) if prop.agree_target else False
    for t, ok in res.items():
        if not ok and t != f"theories/Props/{pid}.vo":
            broken.append(f"coq target {t} does not build")
    if not pst["ok"]:
        # find the first failing theorem by name from the error location
        broken.append(f"Props/{pid}.v no longer compiles: " + first_error(pst["log"]))
    if pst["bad_axioms"]:
        broken.append("Print Assumptions lists axioms outside the allow-list: " + ", ".join(pst["bad_axioms"]))
    if pst["ok"] and pst["assumption_blocks"] < len(pst["theorems"]):
        broken.append("a theorem of Props is not followed by Print Assumptions")
    if hyg:
        broken.append("hygiene: " + "; ".join(hyg[:5]))
    if not hold_ok:
        raise RuntimeError(f"verified oracle {prop.hold_target} does not build; cannot judge anything:\n" + mklog[-4000:])

    # ---- stage 5: generate
    rng = random.Random(seed)
    replay_stream = None
    if replay:
        rp = json.load(open(replay))
        replay_stream = rp.get("stream")
        cases = [rp["input"]] if "input" in rp and rp["input"] is not None and not replay_stream else []
        for i, c in enumerate(cases):
            c["id"] = i
        if not cases:
            # broken-obligation replay (or the replay of an extra stream's input): re-run the normal generation
            cases = prop.corpus() + prop.gen(rng, tier)
            for i, c in enumerate(cases):
                c["id"] = i
    else:
        corpus = prop.corpus()
        cases = corpus + prop.gen(rng, tier)
        for i, c in enumerate(cases):
            c["id"] = i

    # ---- stage 6: run implementation
    try:
        obs = prop.run_impl(cases, workdir)
    except ImplementationPanic as ip:
        # the implementation returned nothing at all on a concrete input: that input is the replay
        orig = next((c for c in cases if c.get("id") == ip.case.get("id")), ip.case)
        path = write_replay(pid, {"property": pid, "kind": "counterexample", "seed": seed, "input": orig,
                                  "observed": {"panic": ip.message}, "judgement": "implementation-panic",
                                  "explain": "the code under test panicked on this input; the model, and every "
                                             "property decided through it, requires a returned value"})
        coverage = {"obligations": len(pst["theorems"]) + 1, "discharged": len(pst["theorems"]) if pst["ok"] else 0,
                    "checker_cmd": f"cd coq && make -k theories/Props/{pid}.vo", "trusted_base": prop.trusted_base,
                    "theorems": pst["theorems"], "evaluations": len(cases), "distinct_nontrivial": 0, "rule": prop.rule,
                    "samples": [{"input": orig, "observed": {"panic": ip.message}}],
                    "broken_obligations": broken + [f"correspondence {prop.stream}: implementation panicked: {ip.message[:300]}"],
                    "translator_missing": gj.get("missing", [])}
        write_evidence(pid, tier, seed, coverage, prop.assumptions, T.s(), 1)
        print(f"VIOLATION property={pid} replay={os.path.relpath(path, VERIF)}")
        log(f"{pid}: {len(cases)} cases, implementation panic, {T.s():.1f}s, exit 1")
        return 1

    # ---- stage 7: evaluate in Coq
    def evaluate(cs, ob, wd):
        terms = [(c["id"], prop.to_coq(c, ob[c["id"]])) for c in cs]
        return coq_eval(pid, prop.hold_mod, prop.agree_mod if agree_ok else None, terms, wd,
                        per_shard=prop.per_shard, extra_imports=getattr(prop, "extra_imports", ""),
                        scope=getattr(prop, "scope", "N_scope"))

    ev = evaluate(cases, obs, workdir)
    if ev["errors"]:
        raise RuntimeError("case evaluation failed in Coq:\n" + "\n".join(ev["errors"][:2]))

    # ---- extra validation streams (environment models): a disagreement breaks the tie
    extra_cov = {}
    extra_violations = []
    for ex in getattr(prop, "extra_streams", []):
        xwd = os.path.join(workdir, "extra_" + ex.id)
        xcases = [rp["input"]] if replay_stream == ex.id else ex.gen(rng, tier)
        for i, c in enumerate(xcases):
            c["id"] = i
        xobs = ex.run_impl(xcases, xwd)
        xterms = [(c["id"], ex.to_coq(c, xobs[c["id"]])) for c in xcases]
        xev = coq_eval(ex.id, ex.hold_mod, ex.agree_mod, xterms, xwd, per_shard=ex.per_shard,
                       extra_imports=getattr(ex, "extra_imports", ""), scope=getattr(ex, "scope", "N_scope"))
        if xev["errors"]:
            raise RuntimeError("extra stream evaluation failed in Coq:\n" + "\n".join(xev["errors"][:2]))
        xbad = sorted(set(xev["bad_hold"]) | set(xev["bad_agree"]))
        extra_cov[ex.id] = {"evaluations": len(xcases), "disagreements": len(xbad), "rule": ex.rule,
                            "distribution": ex.distribution(xcases, xobs) if hasattr(ex, "distribution") else {}}
        if getattr(ex, "decides_property", False) and xev["bad_hold"]:
            # a stream that decides part of the property itself (not an environment model): its verified oracle
            # rejecting an observation is a violation with that input
            xb = {c["id"]: c for c in xcases}
            cid = min(xev["bad_hold"], key=lambda i: len(json.dumps(xb[i])))
            extra_violations.append((ex.id, xb[cid], xobs[cid]))
            continue
        if xbad:
            xb = {c["id"]: c for c in xcases}
            rp = write_replay(ex.id, {"property": ex.id, "kind": "counterexample", "seed": seed,
                                      "input": xb[xbad[0]], "observed": xobs[xbad[0]], "judgement": "environment-model"})
            broken.append(f"environment model stream {ex.id}: model and real system differ on {len(xbad)} cases (first: {os.path.relpath(rp, VERIF)})")

    by_id = {c["id"]: c for c in cases}
    violations = []      # (case, obs, key)
    known_hits = {}
    kf = known_findings()

    # ---- stage 8: decide
    bad_hold = sorted(set(ev["bad_hold"]))
    bad_agree = sorted(set(ev["bad_agree"]))
    # group failing cases by finding key, shrink one representative per key
    groups = {}
    for cid in bad_hold:
        key = prop.classify(by_id[cid], obs[cid])
        groups.setdefault(key, []).append(cid)
    for key, ids in groups.items():
        entry = next((e for e in kf if finding_matches(e, pid, key)), None)
        if entry:
            known_hits[key] = (entry, len(ids))
            continue
        c = min((by_id[i] for i in ids), key=lambda c: len(json.dumps(c)))
        c, o = shrink_case(prop, c, obs[c["id"]], evaluate, workdir)
        violations.append((c, o, key))

    exit_code = 0
    out_lines = []
    for key, (entry, n) in known_hits.items():
        out_lines.append(f"KNOWN-FINDING: property={pid} {entry.get('what', key)} ({n} cases)")
    for c, o, key in violations:
        path = write_replay(pid, {"property": pid, "kind": "counterexample", "seed": seed, "input": c,
                                  "observed": o, "judgement": key,
                                  "explain": prop.explain(c, o) if hasattr(prop, "explain") else ""})
        out_lines.append(f"VIOLATION property={pid} replay={os.path.relpath(path, VERIF)}")
        exit_code = 1
    for sid, c, o in extra_violations:
        path = write_replay(pid, {"property": pid, "kind": "counterexample", "seed": seed, "stream": sid, "input": c,
                                  "observed": o, "judgement": sid})
        out_lines.append(f"VIOLATION property={pid} replay={os.path.relpath(path, VERIF)}")
        exit_code = 1
    if agree_ok and bad_agree and not violations:
        only_agree = [i for i in bad_agree if i not in set(bad_hold)]
        if only_agree:
            broken.append(f"correspondence {prop.stream}: model and implementation differ on {len(only_agree)} cases")
    if broken and not violations and not extra_violations:
        only_agree = [i for i in bad_agree if i not in set(bad_hold)][:5]
        path = write_replay(pid, {"property": pid, "kind": "broken-obligation", "seed": seed, "input": None,
                                  "obligation": broken,
                                  "disagreeing_cases": [{"input": by_id[i], "observed": obs[i]} for i in only_agree]})
        out_lines.append(f"VIOLATION property={pid} replay={os.path.relpath(path, VERIF)} no-failing-input-found")
        exit_code = 1

    # ---- evidence
    nontrivial = set()
    for c in cases:
        if prop.nontrivial(c, obs[c["id"]]):
            d = dict(c); d.pop("id", None)
            nontrivial.add(json.dumps(d, sort_keys=True))
    n_thm = len(pst["theorems"])
    obligations = n_thm + 1
    discharged = (n_thm if pst["ok"] and not pst["bad_axioms"] else 0) + (1 if agree_ok and not bad_agree else 0)
    samples = [prop.sample(c, obs[c["id"]]) for c in cases[:: max(1, len(cases) // 3)][:3]]
    coverage = {
        "obligations": obligations,
        "discharged": discharged,
        "checker_cmd": f"cd coq && make -k theories/Props/{pid}.vo && coqc -Q theories LV -Q generated LVGen theories/Props/{pid}.v  (Print Assumptions); coqchk -o -silent in the thorough tier of C04",
        "trusted_base": prop.trusted_base,
        "theorems": pst["theorems"],
        "examples_nonvacuity": pst["examples"],
        "axioms_reported": pst["axioms"],
        "evaluations": len(cases),
        "distinct_nontrivial": len(nontrivial),
        "rule": prop.rule,
        "samples": samples,
        "model_branch_histogram": {str(k): v for k, v in sorted(ev["branches"].items())},
        "input_distribution": prop.distribution(cases, obs) if hasattr(prop, "distribution") else {},
        "correspondence_disagreements": len(bad_agree),
        "oracle_rejections": len(bad_hold),
        "broken_obligations": broken,
        "known_findings_hit": [k for k in known_hits],
        "translator_missing": gj.get("missing", []),
        "exhaustive": bool(getattr(prop, "exhaustive", False)),
        "environment_model_streams": extra_cov,
    }
    write_evidence(pid, tier, seed, coverage, prop.assumptions, T.s(),
                   len(violations) + len(extra_violations) + (1 if broken and not violations and not extra_violations else 0))
    for line in out_lines:
        print(line)
    log(f"{pid}: {len(cases)} cases, {len(bad_hold)} oracle rejections, {len(bad_agree)} disagreements, "
        f"{len(broken)} broken obligations, {T.s():.1f}s, exit {exit_code}")
    return exit_code


def first_error(logtext):
    lines = logtext.strip().splitlines()
    for i, l in enumerate(lines):
        if l.startswith("File "):
            return " ".join(x.strip() for x in lines[i:i + 6])[:600]
    return logtext[-400:]


def shrink_case(prop, case, ob, evaluate, workdir, rounds=12):
    """Greedy shrinking: ask the property for smaller candidates, keep the first that still fails."""
    if not hasattr(prop, "shrink"):
        return case, ob
    wd = os.path.join(workdir, "shrink")
    cur, cur_ob = case, ob
    for _ in range(rounds):
        cands = list(prop.shrink(cur))[:200]
        if not cands:
            break
        for i, c in enumerate(cands):
            c["id"] = i
        try:
            o = prop.run_impl(cands, wd)
            ev = evaluate(cands, o, wd)
        except Exception as e:  # shrinking must never hide the original failure
            log(f"shrink aborted: {e}")
            break
        bad = sorted(set(ev["bad_hold"]))
        if not bad:
            break
        best = min((cands[i] for i in bad), key=lambda c: len(json.dumps(c)))
        if len(json.dumps(best)) >= len(json.dumps(cur)):
            break
        cur, cur_ob = best, o[best["id"]]
    return cur, cur_ob
