"""C05 -- detect and build phases exit and write outputs as the buildpack API requires."""
import itertools

from common import *  # noqa
import bprun

EXE = {"detect": "ExDetect", "build": "ExBuild", "other": "ExOther"}
DESC = {"ok": "DOk", "api_only": "DApiOnlyOk", "api_other": "DApiOther", "malformed": "DMalformed", "missing": "DMissing"}
PLAT = {"ok": "PlatOk", "env_missing": "PlatEnvMissing", "bad": "PlatBad"}
# present-but-unreadable inputs (not valid UTF-8, a directory in the file's place) are errors like malformed ones:
# only "not found" may be tolerated, and only for store.toml
TIN = {"ok": "InOk", "missing": "InMissing", "malformed": "InMalformed", "nonutf8": "InMalformed", "isdir": "InMalformed"}
DET = {"pass": "BPass", "pass_plan": "BPassPlan", "fail": "BFail", "error": "BErr",
       "pass_plan_or": "BPassPlan", "pass_plan_empty": "BPassPlan"}   # plan shapes: all must be written
# names that are not exactly "detect" / "build": near misses in case, prefix, suffix, extension, stem
OTHER_NAMES = ["other", "detect.bak", "build.old", "detect.sh", "build.exe", "detect.exe", "detectx", "xbuild", "Detect",
               "BUILD", "detect.", "build.", ".detect", ".build", "detect-1", "build_", "det", "b", "detect build"]
FMT = {"cdx": "FCdx", "spdx": "FSpdx", "syft": "FSyft"}
FOBS = {"absent": "FAbsent", "pre": "FPre", "new": "FNew", "other": "FOther", "n/a": "FAbsent"}


def base_cfg(**kw):
    c = {"exe": "detect", "nargs": 2, "bpdir": True, "desc": "ok",
         "vars": {"os": True, "arch": True, "variant": True, "dname": True, "dver": True},
         "plat": "ok", "plan": "ok", "store": "missing", "det": "pass",
         "build": {"error": False, "launch": False, "store": False, "build_sboms": [], "launch_sboms": []},
         "writable": True, "pre": False}
    c.update(kw)
    return c


def cq_cfg(c):
    v = c["vars"]
    b = c["build"]
    bb = "(mkBB %s %s %s %s %s)" % (cq_bool(b["error"]), cq_bool(b["launch"]), cq_bool(b["store"]),
                                     cq_list([FMT[x] for x in b["build_sboms"]]), cq_list([FMT[x] for x in b["launch_sboms"]]))
    return "(mkCfg %s %d%%nat %s %s %s %s %s %s %s %s %s %s %s %s %s)" % (
        EXE[c["exe"]], c["nargs"], cq_bool(c["bpdir"]), DESC[c["desc"]], cq_bool(v["os"]), cq_bool(v["arch"]),
        cq_bool(v["variant"]), cq_bool(v["dname"]), cq_bool(v["dver"]), PLAT[c["plat"]], TIN[c["plan"]], TIN[c["store"]],
        DET[c["det"]], bb, cq_bool(c["writable"]))


class C05:
    id = "C05"
    stream = "c05"
    translator_prefixes = ["exit_code.rs", "lib.rs", "runtime.rs"]
    coq_targets = ["theories/Checks/C05Hold.vo", "theories/Checks/C05Agree.vo", "theories/Props/C05.vo"]
    hold_target = "theories/Checks/C05Hold.vo"
    agree_target = "theories/Checks/C05Agree.vo"
    hold_mod = "C05Hold"
    agree_mod = "C05Agree"
    per_shard = 150
    extra_imports = "From LV Require Import Runtime.\nFrom Coq Require Import ZArith.\n"
    rule = ("a real buildpack executable (buildpack_main!, behaviour chosen by a control file, marker files from "
            "detect/build/on_error) invoked through symlinks named detect / build / other as uid 65534. Stratified "
            "product: (A) gate axes executable name x argument count 0..4 x CNB_BUILDPACK_DIR x descriptor status "
            "(ok, api-only-ok, other api, malformed, missing) in full; (B) inputs: presence of each CNB_TARGET_* x "
            "platform dir status x plan status x store status [quick: seeded sample]; (C) behaviours: detect 4 x "
            "writable x pre-existing outputs in full; build error/launch/store x subsets of build and launch SBOM "
            "formats x writable x pre-existing [quick: seeded sample]. non-trivial = phase dispatched.")
    trusted_base = [
        "Coq 8.16.1 kernel + vm_compute",
        "translator: exit-status constants, supported API, shape facts of libcnb_runtime / detect / build / context_target",
        "test buildpack harness/src/bin/testbp.rs and the Python runner lib/bprun.py (process exit status, markers, files)",
        "process spawning and exit() are the operating system; the `trace` feature is off",
    ]
    assumptions = ["current directory is readable (CannotDetermineAppDirectory is not provoked)"]

    def corpus(self):
        return []

    def gen(self, rng, tier):
        cases = []
        for exe, nargs, bpdir, desc in itertools.product(EXE, range(5), [True, False], DESC):
            cases.append(base_cfg(exe=exe, nargs=nargs, bpdir=bpdir, desc=desc))
            if exe == "other":
                cases[-1]["exe_name"] = rng.choice(OTHER_NAMES)
        # api values that are no API version at all although they look like the supported one: the gate treats them like
        # any other unreadable descriptor
        for exe, nargs in (("detect", 2), ("build", 3)):
            for api in ["0.+10", "+0.10", "0.10.0", " 0.10", "0.10 ", "0.1e1", "0.٠10"]:
                cases.append(base_cfg(exe=exe, nargs=nargs, desc="malformed",
                                      desc_text=f'api = "{api}"\n[buildpack]\nid = "verif/test"\nversion = "0.0.1"\n'))
        # every wrong name, with the argument counts detect and build would accept
        for nm, nargs in itertools.product(OTHER_NAMES, (2, 3)):
            cases.append(base_cfg(exe="other", exe_name=nm, nargs=nargs))
        inputs = []
        for exe in ("detect", "build"):
            for vs in itertools.product([True, False], repeat=5):
                for plat, plan, store in itertools.product(PLAT, TIN, TIN):
                    inputs.append(base_cfg(exe=exe, nargs=2 if exe == "detect" else 3,
                                           vars=dict(zip(["os", "arch", "variant", "dname", "dver"], vs)),
                                           plat=plat, plan=plan, store=store))
        if tier == "thorough":
            cases += inputs
        else:
            good = [c for c in inputs if all(c["vars"][k] for k in ("os", "arch", "dname", "dver"))]
            cases += rng.sample(good, min(len(good), 200)) + rng.sample(inputs, 300)
        for det, wr, pre in itertools.product(DET, [True, False], [True, False]):
            cases.append(base_cfg(det=det, writable=wr, pre=pre))
        builds = []
        subsets = [list(s) for k in range(4) for s in itertools.combinations(["cdx", "spdx", "syft"], k)]
        for err, la, st, bs, ls, wr, pre, store_in in itertools.product([False, True], [False, True], [False, True], subsets, subsets,
                                                                       [True, False], [True, False], ["missing", "ok"]):
            builds.append(base_cfg(exe="build", nargs=3, writable=wr, pre=pre, store=store_in,
                                   build={"error": err, "launch": la, "store": st, "build_sboms": bs, "launch_sboms": ls}))
        cases += builds if tier == "thorough" else rng.sample(builds, 450)
        # a provided but EMPTY store (Store::default()): it is written like any other -- that is how a buildpack clears it
        for la, wr, pre, store_in in itertools.product([False, True], [True, False], [True, False], ["missing", "ok"]):
            cases.append(base_cfg(exe="build", nargs=3, writable=wr, pre=pre, store=store_in,
                                  build={"error": False, "launch": la, "store": "empty", "build_sboms": [], "launch_sboms": ["cdx"]}))
        return cases

    def run_impl(self, cases, workdir):
        sb = os.path.join(workdir, "bp")
        os.makedirs(sb, exist_ok=True)
        os.chmod(workdir, 0o755)
        return bprun.run_many(cases, sb)

    def to_coq(self, c, o):
        bs = cq_list([f"({FMT[k]}, {FOBS[v]})" for k, v in o.get("bsboms", {}).items()])
        ls = cq_list([f"({FMT[k]}, {FOBS[v]})" for k, v in o.get("lsboms", {}).items()])
        store_pre = c["exe"] == "build" and c["store"] in ("ok", "malformed", "nonutf8", "isdir")
        return "(mkCase %s %s %s (%d)%%Z %d%%nat %d%%nat %d%%nat %s %s %s %s %s)" % (
            cq_cfg(c), cq_bool(c["pre"]), cq_bool(store_pre), o["exit"], o["detect_entered"], o["build_entered"], o["on_error"],
            FOBS[o["plan"]], FOBS[o.get("launch", "absent")], FOBS[o.get("store", "absent")], bs, ls)

    def nontrivial(self, c, o):
        return o["detect_entered"] + o["build_entered"] > 0

    def classify(self, c, o):
        return f"{c['exe']}-exit-{o['exit']}"

    def shrink(self, c):
        return []

    def sample(self, c, o):
        return {"cfg": {k: c[k] for k in ("exe", "exe_name", "nargs", "bpdir", "desc", "vars", "plat", "plan", "store", "det", "build", "writable", "pre") if k in c},
                "observed": {k: o.get(k) for k in ("exit", "detect_entered", "build_entered", "on_error", "plan", "launch", "store")}}

    def distribution(self, cases, obs):
        d = {"exit": {}, "exe": {}, "other_names": {}, "entered": 0, "on_error": 0}
        for c in cases:
            o = obs[c["id"]]
            d["exit"][str(o["exit"])] = d["exit"].get(str(o["exit"]), 0) + 1
            d["exe"][c["exe"]] = d["exe"].get(c["exe"], 0) + 1
            if c["exe"] == "other":
                nm = c.get("exe_name", "other")
                d["other_names"][nm] = d["other_names"].get(nm, 0) + 1
            d["entered"] += o["detect_entered"] + o["build_entered"]
            d["on_error"] += o["on_error"]
        return d


PROP = C05()
