"""C11 -- deleting or recreating a layer never touches anything outside that layer."""
from common import *  # noqa
from fsgen import *  # noqa
import fsm

R = [list(b"r")]
LAYERS = R + [list(b"layers")]
ERRS = fsm.ERRS


def b(x):
    return list(x)


class C11:
    id = "C11"
    stream = "c11"
    translator_prefixes = ["util.rs", "shared.rs", "sbom.rs"]
    coq_targets = ["theories/Checks/C11Hold.vo", "theories/Checks/C11Agree.vo", "theories/Props/C11.vo",
                   "theories/Checks/FSMHold.vo", "theories/Checks/FSMAgree.vo"]
    hold_target = "theories/Checks/C11Hold.vo"
    agree_target = "theories/Checks/C11Agree.vo"
    hold_mod = "C11Hold"
    agree_mod = "C11Agree"
    per_shard = 120
    extra_imports = "From LV Require Import FS LayerShared.\n"
    rule = ("generated sandboxes: a layers directory with the target layer x (random subtree to depth 4, directory "
            "modes 0755/0555/0666/0311/0000, file modes incl. 0000, symlinks to files/directories inside the layer, in "
            "a sibling layer, in a canary tree beside the layers directory, absolute and relative, dangling and "
            "cyclic), x.toml and SBOM files, a sibling layer y with its own toml/SBOM, canary trees; in a quarter of "
            "the cases <layers>/x is itself a symlink (to a canary directory, the sibling layer, a file, dangling) or a "
            "plain file or absent. Operations: delete_layer, remove_dir_recursively, read_layer, write_layer, replace_layer_types and replace_layer_metadata through the cfg-guarded "
            "hooks, recreate through BuildContext::uncached_layer, keep through BuildContext::cached_layer, run as uid 65534. non-trivial = the layer path exists before the call. The environment model "
            "FS.v is validated in the same run by the fsops stream (random primitive std::fs call sequences).")
    trusted_base = [
        "Coq 8.16.1 kernel + vm_compute",
        "FS.v as environment model of the kernel and std::fs (validated by the fsops stream in this run)",
        "translator: shape facts of remove_dir_recursively/delete_layer/default_on_not_found, SBOM suffix table",
        "cfg-guarded hook libcnb::layer::verif_hooks (thin wrappers), harness run under setpriv as uid 65534",
    ]
    assumptions = [
        "the layers directory is reached through real directories (no symlink among its ancestors)",
        "single owner, owner permission bits only, no ACLs / mount points / concurrent mutation",
        "directory listing order does not influence the result (errors part-way are reported with the model's sorted order)",
    ]

    extra_streams = [fsm.PROP]

    def corpus(self):
        base = [{"p": R, "k": "d", "m": 0o755}, {"p": LAYERS, "k": "d", "m": 0o755},
                {"p": R + [b(b"canary")], "k": "d", "m": 0o555}, {"p": R + [b(b"canary"), b(b"f")], "k": "f", "m": 0o644, "c": [1]}]
        f4 = base + [{"p": LAYERS + [b(b"x")], "k": "l", "t": b(b"../canary")}]
        f3 = base + [{"p": LAYERS + [b(b"x")], "k": "d", "m": 0o755},
                     {"p": LAYERS + [b(b"x.sbom.spdx.json")], "k": "f", "m": 0o644, "c": [2]}]
        return [{"init": f4, "layers": LAYERS, "name": b(b"x"), "op": "delete_layer"},
                {"init": f3, "layers": LAYERS, "name": b(b"x"), "op": "delete_layer"}]

    def layer_tree(self, rng, base, depth, out):
        names = [b"a", b"b", b"bin", b"l"]
        targets = [b"a", b"../a", b"b/a", b"l", b".", b"..", b"nope", b"../../canary", b"../../canary/f", b"../y",
                   b"../y/keep", b"/r/canary", b"/r/canary/f", b"/r/layers/y", b"/r/layers", b"/nope", b"../../../r/canary/d"]
        for nm in names:
            r = rng.random()
            if r < 0.4:
                continue
            p = base + [b(nm)]
            r = rng.random()
            if r < 0.3:
                out.append({"p": p, "k": "l", "t": b(rng.choice(targets))})
            elif r < 0.6 and depth < 4:
                out.append({"p": p, "k": "d", "m": rng.choice([0o755, 0o755, 0o555, 0o666, 0o311, 0o000, 0o700])})
                self.layer_tree(rng, p, depth + 1, out)
            elif r < 0.93:
                out.append({"p": p, "k": "f", "m": rng.choice([0o644, 0o444, 0o000, 0o755]), "c": [rng.choice([65, 0, 255])] * rng.randint(0, 2)})
            else:
                # a left-over named pipe (a daemon's socket behaves alike): unlinked like any other non-directory
                out.append({"p": p, "k": "p", "m": rng.choice([0o644, 0o600])})

    def gen(self, rng, tier):
        cases = []
        n = 5200 if tier == "thorough" else 960
        for _ in range(n):
            init = [{"p": R, "k": "d", "m": 0o755}, {"p": LAYERS, "k": "d", "m": 0o755}]
            can = R + [b(b"canary")]
            init.append({"p": can, "k": "d", "m": rng.choice([0o755, 0o555, 0o700])})
            init.append({"p": can + [b(b"f")], "k": "f", "m": rng.choice([0o644, 0o444, 0o000]), "c": [1, 2]})
            init.append({"p": can + [b(b"d")], "k": "d", "m": rng.choice([0o755, 0o555, 0o000])})
            init.append({"p": can + [b(b"d"), b(b"g")], "k": "f", "m": 0o644, "c": [3]})
            # sibling layer y
            y = LAYERS + [b(b"y")]
            init.append({"p": y, "k": "d", "m": rng.choice([0o755, 0o555])})
            init.append({"p": y + [b(b"keep")], "k": "f", "m": 0o644, "c": [9]})
            init.append({"p": LAYERS + [b(b"y.toml")], "k": "f", "m": 0o644, "c": b(b"[types]\nlaunch = true\n")})
            if rng.random() < 0.5:
                init.append({"p": LAYERS + [b(b"y.sbom.cdx.json")], "k": "f", "m": 0o644, "c": b(b"{}")})
            # target layer: "x", or the dotted name "y.z" next to its dot-free sibling "y"
            tn = rng.choice([b"x", b"x", b"y.z"])
            x = LAYERS + [b(tn)]
            r = rng.random()
            if len(cases) % 100 == 7:
                # a deep chain of directories (node_modules-style nesting): depth is no reason to stop or fail
                init.append({"p": x, "k": "d", "m": 0o755})
                p = x
                for lvl in range(rng.choice([33, 41, 64, 130] if tier == "thorough" else [41, 48])):
                    p = p + [b(b"n")]
                    init.append({"p": p, "k": "d", "m": 0o555 if rng.random() < 0.05 else 0o755})
                    if rng.random() < 0.1:
                        init.append({"p": p + [b(b"f")], "k": "f", "m": 0o644, "c": [7]})
                init.append({"p": p + [b(b"leaf")], "k": "f", "m": 0o444, "c": [1]})
            elif r < 0.72:
                init.append({"p": x, "k": "d", "m": rng.choice([0o755, 0o755, 0o555, 0o000, 0o311])})
                self.layer_tree(rng, x, 1, init)
            elif r < 0.92:
                init.append({"p": x, "k": "l", "t": b(rng.choice([b"../canary", b"../canary/d", b"y", b"../canary/f", b"nope",
                                                                  b"/r/canary", b"x", b"/r/layers/y", b".", b".."]))})
            elif r < 0.96:
                init.append({"p": x, "k": "f", "m": 0o644, "c": [5]})
            r2 = rng.random()
            if r2 < 0.15:
                # the content-metadata path is a symlink to a file outside the layer (it is unlinked, never written through)
                init.append({"p": LAYERS + [b(tn + b".toml")], "k": "l", "t": b(rng.choice([b"../canary/f", b"/r/canary/f", b"y.toml", b"nope"]))})
            elif r2 < 0.75:
                init.append({"p": LAYERS + [b(tn + b".toml")], "k": "f", "m": rng.choice([0o644, 0o444]), "c": b(b"[types]\n")})
            for sx in [b"cdx.json", b"spdx.json", b"syft.json"]:
                if rng.random() < 0.3:
                    init.append({"p": LAYERS + [b(tn + b".sbom." + sx)], "k": "f", "m": 0o644, "c": b(b"{}")})
            # layers whose names merely START with the target's name (x-gems, x2, x.old): not the target's
            if rng.random() < 0.5:
                for sib in rng.sample([tn + b"-gems", tn + b"2", tn + b".old", tn + b".sbom"], rng.randint(1, 2)):
                    if rng.random() < 0.5:
                        init.append({"p": LAYERS + [b(sib)], "k": "d", "m": 0o755})
                        init.append({"p": LAYERS + [b(sib), b(b"keep")], "k": "f", "m": 0o644, "c": [8]})
                    if rng.random() < 0.6:
                        init.append({"p": LAYERS + [b(sib + b".toml")], "k": "f", "m": 0o644, "c": b(b"[types]\n")})
                    for sx in [b"cdx.json", b"spdx.json", b"syft.json"]:
                        if rng.random() < 0.5:
                            init.append({"p": LAYERS + [b(sib + b".sbom." + sx)], "k": "f", "m": 0o644, "c": b(b"{}")})
            if rng.random() < 0.1:
                # the layers directory itself not writable
                init[1]["m"] = 0o555
            op = rng.choice(["delete_layer", "delete_layer", "rdr", "recreate", "read_layer", "write_layer", "replace_types", "replace_metadata", "keep"])
            top = next((n for n in init if n["p"] == x), None)
            if op == "recreate" and (top is None or top["k"] != "d"):
                op = "delete_layer"       # "recreate" is a request for a layer that exists as a directory
            case = {"init": init, "layers": LAYERS, "name": b(tn), "op": op}
            if len(cases) % 6 == 4:
                # a layers directory whose name is not UTF-8 (paths are bytes), next to a directory whose name is the
                # lossy rendering of that name, holding a layer of the same name: not ours
                odd, lossy = list(b"lay\xffers"), list("lay\ufffders".encode())
                ren = lambda q: [odd if comp == LAYERS[-1] else comp for comp in q]
                case["init"] = [dict(e, p=ren(e["p"])) for e in init]
                case["layers"] = ren(LAYERS)
                case["init"] += [{"p": R + [lossy], "k": "d", "m": 0o755}, {"p": R + [lossy, b(tn)], "k": "d", "m": 0o755},
                                 {"p": R + [lossy, b(tn), b(b"keep")], "k": "f", "m": 0o644, "c": [4]},
                                 {"p": R + [lossy, b(tn + b".toml")], "k": "f", "m": 0o644, "c": b(b"[types]\n")}]
            if len(cases) % 9 == 5 and tn == b"x" and case["layers"] == LAYERS:
                # a layer name with two components (tool/x): the layer lives in <layers>/tool/x, its TOML and SBOM
                # files next to it; for the model this is the layer x of the layers directory <layers>/tool
                tool = LAYERS + [b(b"tool")]
                mv = lambda q: (tool + q[len(LAYERS):]) if q[:len(LAYERS)] == LAYERS and len(q) > len(LAYERS) and bytes(q[len(LAYERS)])[:1] == b"x" else q
                case["init"] = [dict(e, p=mv(e["p"])) for e in init] + []
                case["init"].insert(2, {"p": tool, "k": "d", "m": 0o755})
                case["name"] = b(b"tool/x")
                case["m_layers"], case["m_name"] = tool, b(b"x")
            if len(cases) % 7 == 3 and "m_layers" not in case:
                case["layers_via"] = "dotdot"       # (the layers directory named with a `..` component)
            cases.append(case)
        return cases

    def run_impl(self, cases, workdir):
        sb = os.path.join(workdir, "sandbox")
        os.makedirs(sb, exist_ok=True)
        os.chmod(sb, 0o1777)
        os.chmod(workdir, 0o777)
        return run_harness(self.stream, cases, workdir, extra_env={"VERIF_SANDBOX": sb}, prefix=UNPRIV)

    def to_coq(self, c, o):
        r = o["res"]
        res = "ROk" if r["ok"] else (f"(RErrno {r['err']})" if r["err"] in ERRS else "ROther")
        op = {"delete_layer": "OpDeleteLayer", "rdr": "OpRdr", "recreate": "OpRecreate", "read_layer": "OpReadLayer", "write_layer": "OpWriteLayer",
              "replace_types": "OpReplaceTypes", "replace_metadata": "OpReplaceMetadata", "keep": "OpKeep"}[c["op"]]
        return f"(mkCase {cq_fs(o['pre'])} {cq_path(c.get('m_layers', c['layers']))} {cq_bytes(c.get('m_name', c['name']))} {op} {res} {cq_fs(o['post'])})"

    def nontrivial(self, c, o):
        x = c["layers"] + [c["name"]]
        return any(n["p"] == x for n in c["init"])

    def classify(self, c, o):
        if c["op"] in ("write_layer", "replace_types", "replace_metadata", "keep"):
            return c["op"] + ("-ok" if o["res"]["ok"] else "-err")
        x = c["layers"] + [c["name"]]
        top = next((n for n in c["init"] if n["p"] == x), None)
        if top is not None and top["k"] == "l":
            return "toplevel-symlink"
        pre = {tuple(map(tuple, n["p"])) for n in o["pre"]}
        post = {tuple(map(tuple, n["p"])): n for n in o["post"]}
        if o["res"]["ok"] and any(bytes(p[-1]).startswith(b"x.sbom.") for p in post if len(p) == 3):
            return "sbom-left-behind"
        return "delete"

    def shrink(self, c):
        init = c["init"]
        for i in range(2, len(init)):
            n = init[i]
            rest = [m for m in init if not (len(m["p"]) >= len(n["p"]) and m["p"][:len(n["p"])] == n["p"])]
            if len(rest) < len(init):
                yield dict(c, init=rest)
        for i in range(2, len(init)):
            if init[i]["k"] != "l" and init[i].get("m") not in (0o755, 0o644):
                new = [dict(m) for m in init]
                new[i]["m"] = 0o755 if init[i]["k"] == "d" else 0o644
                yield dict(c, init=new)

    def sample(self, c, o):
        def sp(p):
            return "/".join(bytes(x).decode("latin-1") for x in p)
        return {"op": c["op"], "tree": [(sp(n["p"]), n["k"], oct(n.get("m", 0)), bytes(n.get("t", [])).decode("latin-1")) for n in c["init"]],
                "result": o["res"], "remaining": [sp(n["p"]) for n in o["post"]]}

    def distribution(self, cases, obs):
        d = {"op": {}, "top_kind": {}, "result": {}, "symlinks_in_layer": 0, "restrictive_dirs": 0}
        for c in cases:
            d["op"][c["op"]] = d["op"].get(c["op"], 0) + 1
            x = c["layers"] + [c["name"]]
            top = next((n for n in c["init"] if n["p"] == x), None)
            k = top["k"] if top else "absent"
            d["top_kind"][k] = d["top_kind"].get(k, 0) + 1
            r = obs[c["id"]]["res"]
            rk = "ok" if r["ok"] else r["err"]
            d["result"][rk] = d["result"].get(rk, 0) + 1
            d["symlinks_in_layer"] += sum(1 for n in c["init"] if n["k"] == "l" and len(n["p"]) > 3)
            d["restrictive_dirs"] += sum(1 for n in c["init"] if n["k"] == "d" and len(n["p"]) > 3 and n["m"] != 0o755)
        return d


PROP = C11()
