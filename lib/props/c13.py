"""C13 -- buildpacks are packaged in dependency order."""
import itertools

from common import *  # noqa


def acyclic(n, edges):
    adj = {i: [] for i in range(n)}
    indeg = {i: 0 for i in range(n)}
    for a, b in edges:
        adj[a].append(b)
        indeg[b] += 1
    q = [i for i in range(n) if indeg[i] == 0]
    seen = 0
    while q:
        x = q.pop()
        seen += 1
        for y in adj[x]:
            indeg[y] -= 1
            if indeg[y] == 0:
                q.append(y)
    return seen == n


def all_dags(n):
    pairs = [(i, j) for i in range(n) for j in range(n) if i != j]
    for mask in range(1 << len(pairs)):
        edges = [pairs[k] for k in range(len(pairs)) if mask >> k & 1]
        if acyclic(n, edges):
            yield edges


def cq_nats(l):
    return "[" + ";".join(str(int(x)) for x in l) + "]"


def cq_nodes(ns):
    return cq_list([f"({n['id']}, {cq_nats(n['deps'])})" for n in ns])


class Selection:
    """C13's selection half: which buildpacks `cargo libcnb package` selects from the invocation directory and in which
    closure it packages them -- composite-only workspaces (nothing to compile) with nested buildpack directories, run
    through the real cargo-libcnb and judged by C15's verified oracle (selected_exact)."""
    id = "C13SEL"
    decides_property = True
    hold_mod = "C15Hold"
    agree_mod = "C15Agree"
    per_shard = 20
    rule = ("composite-only workspaces: 3..5 composite buildpacks, some nested inside another buildpack's directory "
            "(outer/tests/fixtures/inner), libcnb: dependencies forming a DAG, invoked from the workspace root, from an outer "
            "buildpack, from a nested buildpack and from a leaf; observed: packaged directories and stdout")

    def __init__(self):
        from props.c15 import PROP as C15P
        self.c15 = C15P
        self.extra_imports = C15P.extra_imports
        self.scope = getattr(C15P, "scope", "N_scope")

    def gen(self, rng, tier):
        cases = []
        for i in range(12 if tier == "thorough" else 6):
            n = rng.randint(3, 5)
            dirs = ["outer", "outer/tests/fixtures/inner", "bps/dep-a", "bps/dep-b", "bps/dep-a/vendored/deep"][:n]
            rng.shuffle(dirs)
            comps = []
            for k, d in enumerate(dirs):
                deps = [["lib", comps[j]["id"]] for j in range(k) if rng.random() < 0.5]
                if rng.random() < 0.4:
                    deps.append(["uri", "docker://reg/img:1"])
                comps.append({"dir": d, "id": "sel/" + d.split("/")[-1] + str(k), "deps": deps, "uri": ".", "os": None})
            # every third workspace is packaged from its root (everything is selected there)
            cwd = "" if i % 3 == 0 else rng.choice([""] + dirs + dirs)
            cases.append({"libs": [], "comps": comps, "foreign": [], "cwd": cwd, "release": False, "pkgdir": "default",
                          "seed_ids": [], "seed_kind": 0})
        # designed: dependencies of mixed kinds -- a libcnb.rs buildpack whose own package.toml depends on a composite that
        # depends on another libcnb.rs buildpack: the announced build order has every buildpack after its dependencies
        for cwd in ("", "buildpacks/k"):
            cases.append({"libs": [{"dir": "buildpacks/leaf", "id": "sel/leaf", "pkg": "pleaf", "bins": ["pleaf"], "extra": "", "aux": []},
                                   {"dir": "buildpacks/k", "id": "sel/k", "pkg": "pk", "bins": ["pk"], "extra": "", "aux": [],
                                    "own_pkg": True, "pkg_deps": ["sel/m"]}],
                          "comps": [{"dir": "meta/m", "id": "sel/m", "deps": [["lib", "sel/leaf"]], "uri": ".", "os": None}],
                          "foreign": [], "cwd": cwd, "release": False, "pkgdir": "default", "seed_ids": [], "seed_kind": 0})
        return cases

    def run_impl(self, cases, workdir):
        return self.c15.run_impl(cases, workdir)

    def to_coq(self, c, o):
        return self.c15.to_coq(c, o)

    def distribution(self, cases, obs):
        return {"cwd": sorted({c["cwd"] for c in cases})}


class TestPackaging:
    """C13 through libcnb-test: TestRunner::build with BuildpackReference::WorkspaceBuildpack / CurrentCrate packages the
    named buildpack of the Cargo workspace and its transitive dependencies (composite buildpacks, nothing to compile)
    before it calls `pack build`; observed through the stand-in pack executable."""
    id = "C13LT"
    decides_property = True
    hold_mod = "C13LtHold"
    agree_mod = "C13LtAgree"
    per_shard = 40
    scope = "nat_scope"
    extra_imports = "From LV Require Import DepGraph.\n"
    rule = ("Cargo workspaces (root + one member crate = the crate under test) with 2..5 composite buildpacks placed in the "
            "crate directory itself, below it, next to it and elsewhere in the workspace; libcnb: dependencies forming a "
            "DAG; one test build naming one buildpack (by id or as the current crate), some with an unknown dependency "
            "somewhere or an unknown selection; observed: whether `pack build` was reached, the directory handed to "
            "--buildpack and the buildpack directories packaged next to it")

    DIRS = ["crate", "crate/bps/inner", "bps/sibling", "other/deep/place", "crate/tests/fixtures/bp", "top"]

    def gen(self, rng, tier):
        import subprocess
        cases = []
        for _ in range(60 if tier == "thorough" else 24):
            n = rng.randint(2, 5)
            dirs = rng.sample(self.DIRS, n)
            order = list(range(n)); rng.shuffle(order)
            p = rng.choice([0.3, 0.6])
            bps = []
            for k, d in enumerate(dirs):
                deps = [j for j in range(n) if order.index(j) < order.index(k) and rng.random() < p]
                rng.shuffle(deps)
                bps.append({"dir": d, "id": k, "deps": deps})
            r = rng.random()
            root = rng.randrange(n)
            if r < 0.12:
                bps[rng.randrange(n)]["deps"].append(77)          # a dependency on a buildpack nobody has
            elif r < 0.2:
                root = 99                                         # a selection nobody has
            if root < n and "crate" in dirs and rng.random() < 0.4:
                root = dirs.index("crate")
            current = root < n and bps[root]["dir"] == "crate" and rng.random() < 0.7
            cases.append({"bps": bps, "root": root, "current": current})
        return cases

    def run_impl(self, cases, workdir):
        import subprocess
        sb = os.path.join(workdir, "sandbox")
        os.makedirs(sb, exist_ok=True)
        sysroot = subprocess.run(["rustc", "--print", "sysroot"], stdout=subprocess.PIPE, text=True, check=True).stdout.strip()
        hc = []
        for c in cases:
            ref = {"current": True} if c["current"] else {"ws": list(("ws/b%d" % c["root"]).encode())}
            hc.append({"id": c["id"], "fail": [], "body": [], "noise": None,
                       "workspace": [{"dir": list(b["dir"].encode()), "id": list(("ws/b%d" % b["id"]).encode()),
                                      "deps": [list(("ws/b%d" % d).encode()) for d in b["deps"]]} for b in c["bps"]],
                       "build": {"builder": list(b"heroku/builder:22"), "app_dir": list(b"fixtures/app"), "buildpacks": [ref],
                                 "env": [], "expected": "success", "pre": None,
                                 "target": "x86_64-unknown-linux-gnu"}})      # (the host: no cross-compilation toolchain is looked for)
        return run_harness("lt", hc, workdir, extra_env={"VERIF_SANDBOX": sb, "VERIF_CARGO": os.path.join(sysroot, "bin", "cargo")})

    @staticmethod
    def _num(name):
        return int(name[len("ws_b"):]) if name.startswith("ws_b") and name[len("ws_b"):].isdigit() else 1000

    def to_coq(self, c, o):
        packs = [e for e in o["log"] if e["prog"] == "pack" and e.get("bp_dirs") is not None]
        ok = o["status"] == "done" and len(packs) == 1
        packaged, chosen = [], "None"
        if packs and packs[0]["bp_dirs"]:
            d = packs[0]["bp_dirs"][0]
            packaged = [self._num(x) for x in d["siblings"]]
            chosen = "(Some %d)" % self._num(d["name"] or "")
            # every libcnb: reference of the packaged descriptor was replaced by a packaged directory
            if not d["has_descriptor"] or "libcnb:" in (d["package_toml"] or "libcnb:"):
                ok = False
        nodes = cq_list([f"({b['id']}, {cq_nats(b['deps'])})" for b in c["bps"]])
        return f"(mkLt {nodes} {c['root']} {cq_bool(ok)} {cq_nats(packaged)} {chosen})"

    def distribution(self, cases, obs):
        return {"selected_by": {"current-crate": sum(1 for c in cases if c["current"]), "id": sum(1 for c in cases if not c["current"])},
                "selected_dir": sorted({c["bps"][c["root"]]["dir"] for c in cases if c["root"] < len(c["bps"])}),
                "status": {s: sum(1 for c in cases if obs[c["id"]]["status"] == s) for s in sorted({o["status"] for o in obs.values()})}}


class C13:
    id = "C13"
    stream = "c13"
    extra_streams = [Selection(), TestPackaging()]
    scope = "nat_scope"
    translator_prefixes = ["dependency_graph.rs", "command.rs"]
    coq_targets = ["theories/Checks/C13Hold.vo", "theories/Checks/C13Agree.vo", "theories/Props/C13.vo",
                   "theories/Checks/C13LtHold.vo", "theories/Checks/C13LtAgree.vo",
                   "theories/Checks/C15Hold.vo", "theories/Checks/C15Agree.vo"]
    hold_target = "theories/Checks/C13Hold.vo"
    agree_target = "theories/Checks/C13Agree.vo"
    hold_mod = "C13Hold"
    agree_mod = "C13Agree"
    per_shard = 60
    extra_imports = "From LV Require Import DepGraph.\n"
    exhaustive = True
    rule = ("exhaustive: all 572 labelled DAGs on 1..4 nodes (ids permuted relative to directory order by the seed, "
            "dependency lists shuffled), each with every non-empty ordered root selection without repetition "
            "[thorough: also all 29 281 DAGs on 5 nodes with 12 sampled root orders each]; plus seeded random DAGs on "
            "5..12 nodes with random root lists (repeats allowed), every graph on <=3 nodes with one dangling "
            "dependency, and unknown root ids. One case = one generated directory tree with all its root lists; "
            "non-trivial = has at least one edge or is an error case.")
    trusted_base = [
        "Coq 8.16.1 kernel + vm_compute",
        "petgraph 0.8 DfsPostOrder/neighbour order and ignore::Walk discovery as environment (model follows the observed node order)",
        "translator (syn): shape facts of get_dependencies / create_dependency_graph",
        "correspondence harness (generated directories, public build_libcnb_buildpacks_dependency_graph + get_dependencies)",
    ]
    assumptions = [
        "buildpack ids are pairwise distinct in generated inputs (the property speaks of a set of buildpacks)",
        "generated graphs are acyclic (hypothesis of c13_deps_first); cyclic graphs are outside the property",
    ]

    def corpus(self):
        return []

    def _case(self, rng, n, edges, root_lists, extra_dangling=None, idperm=None):
        idperm = idperm or list(range(n))
        nodes = []
        for i in range(n):
            deps = [idperm[b] for a, b in edges if a == i]
            rng.shuffle(deps)
            if extra_dangling is not None and extra_dangling[0] == i:
                deps.insert(rng.randint(0, len(deps)), extra_dangling[1])
            # non-libcnb dependencies interleaved in package.toml: they must neither become edges nor hide later ones
            noise = []
            if rng.random() < 0.5:
                for _ in range(rng.randint(1, 2)):
                    noise.append([rng.randint(0, len(deps)), rng.choice(["docker://reg/img:1", "../vendored/x", "urn:cnb:registry:heroku/y", "./local"])])
            node = {"id": idperm[i], "deps": deps, "noise": noise, "rs": rng.random() < 0.3, "no_pkg": rng.random() < 0.3}
            # a third of the buildpacks live inside an earlier buildpack's directory (nested layout)
            if i > 0 and rng.random() < 0.33:
                node["parent"] = rng.randrange(i)
            nodes.append(node)
        # buildpack directories that are symlinks to directories outside the workspace (never a directory that holds nested
        # buildpacks: the walk does not descend through links)
        # directory names a build tool might treat specially (at most one of each per case)
        special = ["target", "tgt/target/arm64", "node_modules/bp", "build/out"]      # (hidden directories are skipped by the walk: documented behaviour of the `ignore` crate)
        rng.shuffle(special)
        for nd in nodes:
            if "parent" not in nd and special and rng.random() < 0.12:
                nd["dirname"] = special.pop()
                nd["no_link"] = True          # (a linked directory would hide what is nested below it from the walk)
        parents = {nd["parent"] for nd in nodes if "parent" in nd}
        for k, nd in enumerate(nodes):
            if k not in parents and "parent" not in nd and not nd.get("no_link") and rng.random() < 0.15:
                nd["link"] = True
        return {"nodes": nodes, "root_lists": [[idperm[r] if r < n else r for r in rl] for rl in root_lists]}

    def gen(self, rng, tier):
        cases = []
        for n in range(1, 5):
            sels = [list(p) for k in range(1, n + 1) for p in itertools.permutations(range(n), k)]
            for edges in all_dags(n):
                idperm = list(range(n))
                rng.shuffle(idperm)
                cases.append(self._case(rng, n, edges, sels, idperm=idperm))
        if tier == "thorough":
            n = 5
            allsel = [list(p) for k in range(1, n + 1) for p in itertools.permutations(range(n), k)]
            for edges in all_dags(n):
                idperm = list(range(n)); rng.shuffle(idperm)
                cases.append(self._case(rng, n, edges, rng.sample(allsel, 12), idperm=idperm))
        # random larger DAGs
        for _ in range(3000 if tier == "thorough" else 500):
            n = rng.randint(5, 12)
            order = list(range(n)); rng.shuffle(order)
            p = rng.choice([0.15, 0.3, 0.5])
            edges = [(order[i], order[j]) for i in range(n) for j in range(i + 1, n) if rng.random() < p]
            rls = []
            for _ in range(6):
                k = rng.randint(1, min(n, 5))
                rls.append([rng.randrange(n) for _ in range(k)])
            idperm = list(range(n)); rng.shuffle(idperm)
            cases.append(self._case(rng, n, edges, rls, idperm=idperm))
        # dangling dependency: every graph on <= 3 nodes x each node carrying the dangling edge
        for n in range(1, 4):
            for edges in all_dags(n):
                for i in range(n):
                    cases.append(self._case(rng, n, edges, [[0]], extra_dangling=(i, 77)))
        # unknown root ids
        for n in range(1, 4):
            for edges in list(all_dags(n))[:: 3]:
                cases.append(self._case(rng, n, edges, [[99], [0, 99], [99, 0]]))
        return cases

    def run_impl(self, cases, workdir):
        return run_harness(self.stream, cases, workdir)

    def to_coq(self, c, o):
        obs_nodes = cq_nodes(o["nodes"])
        g = "None" if o["graph"] is None else "(Some %s)" % cq_list([cq_nats(r) for r in o["graph"]])
        miss = "None" if o.get("missing") is None else f"(Some {o['missing']})"
        orders = []
        obs_orders = o["orders"] if o["graph"] is not None else [None] * len(c["root_lists"])
        for rl, oo in zip(c["root_lists"], obs_orders):
            orders.append(cq_pair(cq_nats(rl), "None" if oo is None else f"(Some {cq_nats(oo)})"))
        return f"(mkCase {cq_nodes(c['nodes'])} {obs_nodes} {g} {miss} {cq_list(orders)})"

    def nontrivial(self, c, o):
        return any(n["deps"] for n in c["nodes"])

    def classify(self, c, o):
        if o["graph"] is None:
            return "graph-construction"
        return "order"

    def shrink(self, c):
        # fewer root lists first, then shorter root lists
        rls = c["root_lists"]
        if len(rls) > 1:
            for rl in rls:
                yield {"nodes": c["nodes"], "root_lists": [rl]}
        else:
            rl = rls[0]
            for i in range(len(rl)):
                if len(rl) > 1:
                    yield {"nodes": c["nodes"], "root_lists": [rl[:i] + rl[i + 1:]]}
            # drop a dependency
            for k, n in enumerate(c["nodes"]):
                for j in range(len(n["deps"])):
                    nodes = [dict(x) for x in c["nodes"]]
                    nodes[k] = dict(n, deps=n["deps"][:j] + n["deps"][j + 1:])
                    yield {"nodes": nodes, "root_lists": rls}

    def sample(self, c, o):
        return {"nodes": c["nodes"], "first_root_lists": c["root_lists"][:3],
                "observed_node_order": [n.get("dir") for n in o["nodes"]],
                "observed_orders": (o["orders"] or [])[:3], "observed_missing": o.get("missing")}

    def distribution(self, cases, obs):
        d = {"nodes": {}, "edges": {}, "root_lists_total": 0, "error_cases": 0}
        for c in cases:
            d["nodes"][str(len(c["nodes"]))] = d["nodes"].get(str(len(c["nodes"])), 0) + 1
            e = sum(len(n["deps"]) for n in c["nodes"])
            d["edges"][str(e)] = d["edges"].get(str(e), 0) + 1
            d["root_lists_total"] += len(c["root_lists"])
            if obs[c["id"]]["graph"] is None:
                d["error_cases"] += 1
        return d


PROP = C13()
