"""C16 -- libcnb-test removes every Docker resource and temp dir however the test ends."""
import os

from common import *  # noqa
from ltutil import events

CCFG = {"entrypoint": None, "command": None, "env": [], "ports": [80], "mounts": []}
COPS = ["logs_now", "logs_wait", "port", "exec", "panic"]


def b(x):
    return list(x.encode())


def gen_cfg(rng):
    return {"pre": rng.choice([None, None, None, "touch", "touch", "touch", "panic", "panic", "nospawn"]), "expected": rng.choice(["success", "success", "failure"])}


def gen_body(rng, depth):
    steps = []
    for _ in range(rng.choice([0, 1, 1, 2, 2, 3])):
        r = rng.random()
        if r < 0.55:
            steps.append({"op": "start", "body": [rng.choice(COPS) for _ in range(rng.choice([0, 1, 1, 2, 3]))]})
        elif r < 0.75:
            steps.append({"op": "shell"})
        else:
            steps.append({"op": "sbom", "panic": rng.random() < 0.3})
    r = rng.random()
    if depth > 0 and r < 0.35:
        fin = {"fin": "rebuild", "cfg": gen_cfg(rng), "inner": gen_body(rng, depth - 1), "after_panic": rng.random() < 0.3}
    elif r < 0.55:
        fin = {"fin": "panic"}
    else:
        fin = {"fin": "end"}
    return {"steps": steps, "fin": fin}


def body_json(body):
    ops = []
    for s in body["steps"]:
        if s["op"] == "start":
            ops.append({"op": "start", "cfg": CCFG,
                        "body": [{"op": o, "p": 80, "cmd": b("true")} if o in ("port", "exec") else {"op": o} for o in s["body"]]})
        elif s["op"] == "shell":
            ops.append({"op": "shell", "cmd": b("true")})
        else:
            ops.append({"op": "sbom", "panic": s["panic"]})
    f = body["fin"]
    if f["fin"] == "panic":
        ops.append({"op": "panic"})
    elif f["fin"] == "rebuild":
        ops.append({"op": "rebuild", "cfg": cfg_json(f["cfg"]), "body": body_json(f["inner"]), "after_panic": f["after_panic"]})
    return ops


def cfg_json(cfg):
    return {"builder": b("heroku/builder:22"), "app_dir": b("fixtures/app"), "buildpacks": [b("heroku/x")], "env": [],
            "expected": cfg["expected"], "pre": cfg["pre"]}


def cq_cfg(cfg):
    pre = {None: "None", "touch": "(Some PreOk)", "panic": "(Some PrePanic)", "nospawn": "(Some PreNoSpawn)"}[cfg["pre"]]
    return f"(mkB {pre} {cq_bool(cfg['expected'] == 'success')})"


COP_CQ = {"logs_now": "CLogsNow", "logs_wait": "CLogsWait", "port": "CPort", "exec": "CExec", "panic": "CPanic"}


def cq_body(body):
    f = body["fin"]
    if f["fin"] == "end":
        t = "TEnd"
    elif f["fin"] == "panic":
        t = "TPanicNow"
    else:
        t = f"(TRebuild {cq_cfg(f['cfg'])} {cq_body(f['inner'])} {cq_bool(f['after_panic'])})"
    for s in reversed(body["steps"]):
        if s["op"] == "start":
            x = "(SStart %s)" % cq_list([COP_CQ[o] for o in s["body"]])
        elif s["op"] == "shell":
            x = "SShell"
        else:
            x = f"(SSbom {cq_bool(s['panic'])})"
        t = f"(TStep {x} {t})"
    return t


def size(body):
    n = sum(2 + len(s.get("body", [])) for s in body["steps"]) + 3
    if body["fin"]["fin"] == "rebuild":
        n += size(body["fin"]["inner"])
    return n


class C16:
    id = "C16"
    stream = "lt"
    translator_prefixes = ["container_context.rs", "test_runner.rs", "test_context.rs", "docker.rs"]
    coq_targets = ["theories/Checks/C16Hold.vo", "theories/Checks/C16Agree.vo", "theories/Props/C16.vo"]
    hold_target = "theories/Checks/C16Hold.vo"
    agree_target = "theories/Checks/C16Agree.vo"
    hold_mod = "C16Hold"
    agree_mod = "C16Agree"
    per_shard = 100
    scope = "nat_scope"
    extra_imports = "From LV Require Import TestRun.\n"
    rule = ("scenario trees over {start_container with 0..3 of logs_now/logs_wait/address_for_port/shell_exec/panic, "
            "run_shell_command, download_sbom_files (closure panics or not)} ending in end / panic / rebuild (nested to "
            "depth 2, optional panic after it), each build with no / working / panicking app_dir_preprocessor and "
            "expected result Success or Failure; 0..3 of the external commands (by global index, cleanup commands "
            "included) are made to fail. Each scenario runs in its own process through the public libcnb-test API "
            "against stand-in docker/pack executables; TMPDIR is private and inspected afterwards. "
            "non-trivial = at least one container started or a command failed or a panic injected.")
    trusted_base = [
        "Coq 8.16.1 kernel + vm_compute",
        "Rust's drop order and unwinding semantics (locals dropped in reverse order, closure parameters dropped when the "
        "closure ends, panic in a destructor during unwinding aborts) as the model's semantics (TestRun.v), validated by correspondence",
        "tempfile::TempDir removes its directory on drop (environment model: rmtemp)",
        "harness: stand-in docker/pack executables with a fault plan by command index; lib/ltutil.py reads command lines "
        "back into events (requires --force on rm / rmi / volume remove and the IMAGE.build-cache / IMAGE.launch-cache names)",
        "translator: Drop bodies, ownership facts and statement order in start_container (GenLibcnbTest.v)",
    ]
    assumptions = ["a removal is the issued `docker rm/rmi/volume remove ... --force` command; whether the Docker daemon "
                   "then succeeds is outside the code (failing removals are part of the quantifier)",
                   "process-level kills (SIGKILL, power loss) are outside the property"]

    def corpus(self):
        f6 = {"cfg": {"pre": "touch", "expected": "success"},
              "body": {"steps": [{"op": "start", "body": ["panic"]}], "fin": {"fin": "end"}}, "fail": [2]}
        late = {"cfg": {"pre": None, "expected": "success"},
                "body": {"steps": [{"op": "start", "body": []}], "fin": {"fin": "end"}}, "fail": [1]}
        # a rebuild whose pack cannot be started: the image and volumes of the first build still go
        nospawn = {"cfg": {"pre": None, "expected": "success"},
                   "body": {"steps": [{"op": "shell"}],
                            "fin": {"fin": "rebuild", "cfg": {"pre": "nospawn", "expected": "success"},
                                    "inner": {"steps": [], "fin": {"fin": "end"}}, "after_panic": False}}, "fail": []}
        return [f6, late, nospawn]

    def gen(self, rng, tier):
        cases = []
        for _ in range(1500 if tier == "thorough" else 320):
            body = gen_body(rng, 2)
            n = size(body)
            r = rng.random()
            fail = [] if r < 0.3 else sorted(set(rng.randrange(0, n) for _ in range(rng.choice([1, 1, 2, 3]))))
            cases.append({"cfg": gen_cfg(rng), "body": body, "fail": fail, "noise": rng.choice([None, None, "unicode", "ascii"]),
                          "exit_code": rng.choice([1, 1, 2, 125, 125, 126, 127, 137]),
                          "runner": rng.choice(["inline", "inline", "static", "leaked"])})
        return cases

    def to_harness(self, c):
        return {"id": c["id"], "build": cfg_json(c["cfg"]), "fail": c["fail"], "body": body_json(c["body"]), "noise": c.get("noise"), "exit_code": c.get("exit_code", 1), "runner": c.get("runner", "inline")}

    def run_impl(self, cases, workdir):
        sb = os.path.join(workdir, "sandbox")
        os.makedirs(sb, exist_ok=True)
        return run_harness(self.stream, [self.to_harness(c) for c in cases], workdir, extra_env={"VERIF_SANDBOX": sb})

    def to_coq(self, c, o):
        evs, own, names_ok = events(o["log"])
        outcome = {"done": "ODone", "panic": "OPanic", "abort": "OAbort"}.get(o["status"])
        if outcome is None:
            outcome, names_ok = "OAbort", False
        return "(mkCase %s %s %s %s %s %d %d %s)" % (cq_cfg(c["cfg"]), cq_body(c["body"]), cq_list([str(n) for n in c["fail"]]),
                                                    cq_list(evs), outcome, len(o["leftover"]), own, cq_bool(names_ok))

    def nontrivial(self, c, o):
        return any(e["prog"] == "docker" and e["argv"][:1] == [b("run")] for e in o["log"]) or any(e["failed"] for e in o["log"]) or o["status"] != "done"

    def classify(self, c, o):
        if o["status"] == "abort":
            return "abort-in-drop"
        return "cleanup"

    def shrink(self, c):
        body = c["body"]
        for i in range(len(c["fail"])):
            yield dict(c, fail=c["fail"][:i] + c["fail"][i + 1:])
        for i in range(len(body["steps"])):
            yield dict(c, body=dict(body, steps=body["steps"][:i] + body["steps"][i + 1:]))
            s = body["steps"][i]
            if s["op"] == "start":
                for j in range(len(s["body"])):
                    s2 = dict(s, body=s["body"][:j] + s["body"][j + 1:])
                    yield dict(c, body=dict(body, steps=body["steps"][:i] + [s2] + body["steps"][i + 1:]))
        if body["fin"]["fin"] == "rebuild":
            yield dict(c, body=dict(body, fin={"fin": "end"}))
            yield dict(c, body=dict(body, fin=dict(body["fin"], inner={"steps": [], "fin": {"fin": "end"}})))
        if body["fin"]["fin"] == "panic":
            yield dict(c, body=dict(body, fin={"fin": "end"}))
        if c["cfg"]["pre"]:
            yield dict(c, cfg=dict(c["cfg"], pre=None))
        for i in range(len(c["fail"])):
            if c["fail"][i] > 0:
                yield dict(c, fail=sorted(set(c["fail"][:i] + [c["fail"][i] - 1] + c["fail"][i + 1:])))

    def sample(self, c, o):
        return {"scenario": cq_body(c["body"]), "cfg": c["cfg"], "fail": c["fail"], "status": o["status"],
                "commands": [" ".join([e["prog"]] + [bytes(a).decode("utf-8", "replace") for a in e["argv"][:3]]) + (" [FAILED]" if e["failed"] else "") for e in o["log"]],
                "leftover": o["leftover"]}

    def explain(self, c, o):
        return str(self.sample(c, o))

    def distribution(self, cases, obs):
        d = {"status": {}, "commands_total": 0, "failed_commands": 0, "failed_cleanup_commands": 0, "with_rebuild": 0, "containers": 0, "fail_plan_sizes": {}}
        for c in cases:
            o = obs[c["id"]]
            d["status"][o["status"]] = d["status"].get(o["status"], 0) + 1
            d["commands_total"] += len(o["log"])
            d["failed_commands"] += sum(1 for e in o["log"] if e["failed"])
            d["failed_cleanup_commands"] += sum(1 for e in o["log"] if e["failed"] and e["argv"][:1] in ([b("rm")], [b("rmi")], [b("volume")]))
            d["with_rebuild"] += c["body"]["fin"]["fin"] == "rebuild"
            d["containers"] += sum(1 for e in o["log"] if e["argv"][:1] == [b("run")])
            k = str(len(c["fail"]))
            d["fail_plan_sizes"][k] = d["fail_plan_sizes"].get(k, 0) + 1
        return d


PROP = C16()
