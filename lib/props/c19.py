"""C19 -- child output streamed fully without deadlock; writers chunking-independent."""
import itertools

from common import *  # noqa

MAPPERS = {"prefix": "MPrefix", "dup": "MDup", "len": "MLen", "id": "MId"}
PIPE = 65536


def chunkings(data):
    """all ways of splitting data into consecutive non-empty chunks (2^(n-1))"""
    n = len(data)
    if n == 0:
        yield []
        return
    for mask in range(1 << (n - 1)):
        out, cur = [], [data[0]]
        for i in range(1, n):
            if mask >> (i - 1) & 1:
                out.append(cur)
                cur = []
            cur.append(data[i])
        out.append(cur)
        yield out


def fnv(data):
    h = 1469598103934665603
    for x in data:
        h ^= x
        h = (h * 1099511628211) & 0xFFFFFFFFFFFFFFFF
    return h


def pattern(s, i):
    return (i * 31 + s * 7 + 3) % 251


class C19:
    id = "C19"
    stream = "c19"
    translator_prefixes = ["write.rs", "command.rs"]
    coq_targets = ["theories/Checks/C19Hold.vo", "theories/Checks/C19Agree.vo", "theories/Props/C19.vo"]
    hold_target = "theories/Checks/C19Hold.vo"
    agree_target = "theories/Checks/C19Agree.vo"
    hold_mod = "C19Hold"
    agree_mod = "C19Agree"
    per_shard = 400
    extra_imports = "From LV Require Import Stream.\n"
    exhaustive = True
    rule = ("writers: every byte string of length <=6 over {marker, other} x every way of chunking it into writes "
            "(incl. empty writes for some), 4 mapping functions, drop vs unwrap; tee on the same inputs. command: "
            "scripted children writing 0 .. 4 pipe buffers (64 KiB) to stdout/stderr: one stream first, alternating, "
            "large-then-large on the other stream, with delays; an order-sensitive checksum of what the writers and "
            "the returned Output received is compared with the script, under a 20 s slowness bound. non-trivial = "
            "input contains a marker or the script exceeds one pipe buffer.")
    trusted_base = [
        "Coq 8.16.1 kernel + vm_compute",
        "Stream.v pipe/scheduler system as environment model of the OS (pipes of finite capacity, blocking I/O, two threads); real scheduling is sampled, not verified",
        "translator: shape facts of MappedWrite/TeeWrite/write_child_process_output",
        "harness (public mapped/tee/CommandExt API; the harness binary itself is the scripted child)",
    ]
    assumptions = ["writers passed to the helpers do not fail (they may write short: at most max bytes per call)"]

    def corpus(self):
        return [{"kind": "mapped", "mapper": "prefix", "marker": 10, "chunks": [[102, 111, 111, 10]], "finish": "drop"}]

    def gen(self, rng, tier):
        cases = []
        maxlen = 7 if tier == "thorough" else 6
        mk, other = 10, 120
        for n in range(0, maxlen + 1):
            for bits in itertools.product([mk, other], repeat=n):
                data = list(bits)
                for ch in chunkings(data):
                    mp = rng.choice(list(MAPPERS))
                    if rng.random() < 0.1:
                        ch = ch[:]
                        ch.insert(rng.randint(0, len(ch)), [])
                    cases.append({"kind": "mapped", "mapper": mp, "marker": mk, "chunks": ch, "finish": rng.choice(["drop", "unwrap"]),
                                  "max": rng.choice([None, None, 1, 2]),
                                  "flush_after": [i for i in range(len(ch)) if rng.random() < 0.5] if rng.random() < 0.3 else []})
        for _ in range(300):
            data = [rng.choice([0, 10, 255, 65]) for _ in range(rng.randint(0, 12))]
            cuts = sorted(rng.sample(range(len(data) + 1), min(len(data) + 1, rng.randint(0, 4))))
            ch = [data[a:b] for a, b in zip([0] + cuts, cuts + [len(data)])]
            # targets that take at most max bytes per write call (short writes are legal for any io::Write)
            cases.append({"kind": "tee", "chunks": ch, "max_a": rng.choice([None, 1, 3, 64]), "max_b": rng.choice([None, 1, 2, 5]),
                          "vectored": rng.random() < 0.4})
            cases.append({"kind": "mapped", "mapper": rng.choice(list(MAPPERS)), "marker": rng.choice([10, 0, 255]), "chunks": ch, "finish": "drop",
                          "max": rng.choice([None, 1, 7])})
        # long marker-free runs: a segment is mapped as ONE unit however long it is (internal buffering limits,
        # e.g. a flush at 8 KiB, would split it)
        long_cases = []
        for n in [4096, 8192, 8193, 12000]:
            for tail in ([], [10, 116]):
                data = [97 + (i % 23) for i in range(n)] + tail
                how = rng.choice(["whole", "pages", "random"])
                if how == "whole":
                    ch = [data]
                elif how == "pages":
                    ch = [data[i:i + 4096] for i in range(0, len(data), 4096)]
                else:
                    cuts = sorted(rng.sample(range(len(data) + 1), 3))
                    ch = [data[a:b] for a, b in zip([0] + cuts, cuts + [len(data)])]
                long_cases.append({"kind": "mapped", "mapper": rng.choice(["prefix", "prefix", "len", "dup"]),
                                   "marker": 10, "chunks": ch, "finish": rng.choice(["drop", "unwrap"]), "max": rng.choice([None, None, 4096])})
        # spread over the evaluation shards (each costs about a second of coqc parsing)
        step = max(1, len(cases) // (len(long_cases) + 1))
        for k, lc in enumerate(long_cases):
            cases.insert((k + 1) * step, lc)
        # commands
        scripts = []
        sizes = [0, 1, 100, PIPE - 1, PIPE, PIPE + 1, 2 * PIPE + 17, 4 * PIPE]
        for a in sizes:
            for b_ in sizes:
                scripts.append([{"s": 0, "n": a}, {"s": 1, "n": b_}])
                scripts.append([{"s": 1, "n": b_}, {"s": 0, "n": a}])
        for _ in range(40 if tier == "thorough" else 15):
            sc = []
            for _ in range(rng.randint(1, 8)):
                st = {"s": rng.choice([0, 1]), "n": rng.choice([0, 10, 5000, PIPE, 3 * PIPE])}
                if rng.random() < 0.2:
                    st["delay_ms"] = rng.choice([1, 20])
                sc.append(st)
            scripts.append(sc)
        if tier != "thorough":
            scripts = rng.sample(scripts, 70)
        for sc in scripts:
            cases.append({"kind": "command", "script": sc, "max": rng.choice([None, None, 7, 4096]),
                          "via": rng.choice(["output", "output", "spawn"])})
        return cases

    def run_impl(self, cases, workdir):
        return run_harness(self.stream, cases, workdir)

    def to_coq(self, c, o):
        if c["kind"] == "mapped":
            return f"(CMapped {MAPPERS[c['mapper']]} {c['marker']} {cq_list([cq_bytes(x) for x in c['chunks']])} {cq_bytes(o['out'])})"
        if c["kind"] == "tee":
            return f"(CTee {cq_list([cq_bytes(x) for x in c['chunks']])} {cq_bytes(o['a'])} {cq_bytes(o['b'])})"
        script = cq_list(["(%s, %d%%nat)" % ("SOut" if st["s"] == 0 else "SErr", st["n"]) for st in c["script"]])
        if not o["ok"]:
            return f"(CCommand {script} false false false false 0%nat 0%nat false false false)"
        exp = {0: [], 1: []}
        pos = {0: 0, 1: 0}
        for st in c["script"]:
            exp[st["s"]] += [pattern(st["s"], pos[st["s"]] + i) for i in range(st["n"])]
            pos[st["s"]] += st["n"]
        so_ok = fnv(exp[0]) == o["so_sum"]
        se_ok = fnv(exp[1]) == o["se_sum"]
        return "(CCommand %s true %s %s %s %d%%nat %d%%nat %s %s %s)" % (
            script, cq_bool(o["code"] == 0), cq_bool(o["stdout_eq"]), cq_bool(o["stderr_eq"]), o["so_len"], o["se_len"],
            cq_bool(so_ok), cq_bool(se_ok), cq_bool(o["slow"]))

    def nontrivial(self, c, o):
        if c["kind"] == "command":
            return sum(st["n"] for st in c["script"]) > PIPE
        return any(c.get("marker") in ch for ch in c["chunks"]) if c["kind"] == "mapped" else bool(c["chunks"])

    def classify(self, c, o):
        if c["kind"] == "mapped":
            data = [x for ch in c["chunks"] for x in ch]
            if (not data or data[-1] == c["marker"]):
                return "empty-remainder-mapped"
        return c["kind"]

    def shrink(self, c):
        if c["kind"] in ("mapped", "tee"):
            ch = c["chunks"]
            for i in range(len(ch)):
                yield dict(c, chunks=ch[:i] + ch[i + 1:])
            if len(ch) > 1:
                yield dict(c, chunks=[[x for q in ch for x in q]])
        else:
            sc = c["script"]
            for i in range(len(sc)):
                yield dict(c, script=sc[:i] + sc[i + 1:])

    def sample(self, c, o):
        return {"case": {k: v for k, v in c.items() if k != "id"}, "observed": {k: v for k, v in o.items() if k != "id"}}

    def distribution(self, cases, obs):
        d = {"kind": {}, "command_bytes": {}}
        for c in cases:
            d["kind"][c["kind"]] = d["kind"].get(c["kind"], 0) + 1
            if c["kind"] == "command":
                t = sum(st["n"] for st in c["script"])
                k = "0" if t == 0 else "<=1 pipe" if t <= PIPE else "<=4 pipes" if t <= 4 * PIPE else ">4 pipes"
                d["command_bytes"][k] = d["command_bytes"].get(k, 0) + 1
        return d


PROP = C19()
