"""C02 -- trait-based layer handling runs the right callbacks and persists their result."""
import os

from common import *  # noqa
from tomlgen import render_doc, cq_jtv
from props.c04 import cq_ins, cq_scope, cq_pairs, BEH_COQ  # noqa
from props.c01 import C01, NAMES, CORRUPT, ERR, bl, cq_md, cq_md_dump

G_METAS = [None, {}, {"version": "1.2"}, {"version": 3}, {"a": {"b": [1, 2]}, "version": "x"}, {"other": True}]
V_METAS = [{"version": "1"}, {"version": "2.0"}, {"version": ""}]
PROBES = [{"scope": {"k": "all"}, "env": [[bl("PATH"), bl("/p")], [bl("X"), bl("x0")]]},
          {"scope": {"k": "build"}, "env": [[bl("PATH"), bl("/p")], [bl("CPATH"), bl("")]]},
          {"scope": {"k": "launch"}, "env": []},
          {"scope": {"k": "process", "p": bl("web")}, "env": [[bl("X"), bl("x0")]]},
          {"scope": {"k": "process", "p": bl("web.worker")}, "env": []}]


def gen_result(rng, m):
    if rng.random() < 0.12:
        return None
    ins = None
    if rng.random() < 0.75:
        ins = []
        for _ in range(rng.randint(0, 4)):
            s = rng.choice([{"k": "all"}, {"k": "build"}, {"k": "launch"}, {"k": "process", "p": bl(rng.choice(["web", "w2", "web.worker", "web.low"]))}])
            ins.append({"s": s, "b": rng.choice(list(BEH_COQ)), "n": bl(rng.choice(["PATH", "X", "Y_Z", "app.name", "app.port", ".hid"])), "v": bl(rng.choice(["", "v", "/a:/b"]))})
    progs = {}
    for _ in range(rng.choice([0, 0, 1, 2])):
        progs[rng.choice(["p1", "p2", "x.sh"])] = [rng.choice([0o755, 0o700, 0o644]), bl(rng.choice(["#!/bin/sh\n", "bin", ""]))]
    if rng.random() < 0.05:
        progs = {"gone": None}
    files = {}
    for _ in range(rng.choice([0, 1, 1, 2])):
        files[tuple(rng.choice([["f"], ["d", "f"], ["d", "e", "g"], ["data.bin"]]))] = rng.choice(["", "data", "x\ny"])
    # the CNB layer-path directories: the env returned by handle_layer must carry their implicit entries
    for _ in range(rng.choice([0, 0, 0, 1, 2])):
        files[tuple(rng.choice([["bin", "tool"], ["lib", "l.so"], ["include", "h.h"], ["pkgconfig", "x.pc"], ["lib", "sub", "y"]]))] = rng.choice(["", "x"])
    return {"md": rng.choice(V_METAS if m == "V" else G_METAS), "env": ins,
            "execd": [[bl(k), v] for k, v in progs.items()],
            "sboms": [[rng.randint(0, 2), bl(rng.choice(["{}", "{\"a\":1}", ""]))] for _ in range(rng.choice([0, 1, 2, 3]))],
            "files": [[[bl(x) for x in k], bl(v)] for k, v in files.items()]}


def gen_layer(rng):
    m = rng.choice(["G", "V"])
    d = rng.random()
    mig = {"d": "recreate"} if d < 0.4 else {"d": "replace", "md": rng.choice(V_METAS if m == "V" else G_METAS)} if d < 0.88 else {"d": "err"}
    L = {"types": {"launch": rng.random() < 0.5, "build": rng.random() < 0.5, "cache": rng.random() < 0.75}, "m": m,
         "strategy": rng.choice(["keep", "keep", "update", "update", "recreate", "err"]), "migrate": mig,
         "create": gen_result(rng, m), "update": gen_result(rng, m)}
    # a layer may compute its types from state its create/update (or a Keep decision) changed:
    # Layer::types() is specified to be asked after that callback; before it the layer answers this
    if rng.random() < 0.6:
        L["types_pre"] = {"launch": rng.random() < 0.5, "build": rng.random() < 0.5, "cache": rng.random() < 0.5}
    return L


class C02(C01):
    id = "C02"
    stream = "c02"
    translator_prefixes = ["shared.rs", "layer_shared", "sbom", "layer_env.rs"]
    coq_targets = ["theories/Checks/C02Hold.vo", "theories/Checks/C02Agree.vo", "theories/Props/C02.vo"]
    hold_target = "theories/Checks/C02Hold.vo"
    agree_target = "theories/Checks/C02Agree.vo"
    hold_mod = "C02Hold"
    agree_mod = "C02Agree"
    per_shard = 10
    extra_imports = "From LV Require Import Toml FS LayerEnv LayerStore LayerStoreSpec LayerTrait.\n"
    rule = ("histories of 2..4 builds over the layer names a, b, c, each build 1..4 BuildContext::handle_layer calls with "
            "a Layer whose callbacks are data: types free, metadata type GenericMetadata or struct {version: String}, "
            "existing_layer_strategy keep/update/recreate/Err, migrate_incompatible_metadata recreate/replace/Err, create "
            "and update returning Err or a LayerResult with metadata, env over all four scopes (or None), 0..2 exec.d "
            "programs (incl. a missing source), 0..3 SBOMs with repeated formats and 0..2 plain files written below the "
            "layer dir; test-side tampering with <layer>.toml and the lifecycle restore between builds as in C01. "
            "Observed: callback log with arguments (create also reports whether the dir was empty), result, returned "
            "LayerData (types, metadata, env applied to 5 probes incl. a dotted process type), the abstracted layers directory after every call. "
            "non-trivial = a callback ran on an existing layer.")
    trusted_base = C01.trusted_base + ["LayerEnv probes: returned env is compared through LayerEnv::apply on fixed probe environments (C04's model)"]
    assumptions = ["metadata returned by callbacks deserialises as the layer's metadata type (Rust's type system); "
                   "the absolute layer directory inside implicit layer-path values (bin, lib, include, pkgconfig written by "
                   "callbacks) is rewritten to the model's layer root before comparison"]

    def corpus(self):
        return []

    def gen(self, rng, tier):
        cases = []
        for _ in range(600 if tier == "thorough" else 120):
            ops = []
            for bi in range(rng.randint(2, 4)):
                if bi:
                    ops.append({"op": "restore"})
                for _ in range(rng.randint(1, 4)):
                    if rng.random() < 0.17:
                        ops.append({"op": "corrupt", "n": rng.choice(NAMES), "content": rng.choice(CORRUPT)})
                    else:
                        ops.append({"op": "handle", "n": rng.choice(NAMES), "layer": gen_layer(rng)})
            cases.append({"names": NAMES, "ops": ops})
        return cases

    def to_harness(self, c):
        def res(r):
            if r is None:
                return None
            r = dict(r)
            r["md"] = None if r["md"] is None else bl(render_doc(r["md"], 0))
            return r
        ops = []
        for o in c["ops"]:
            if o["op"] == "handle":
                L = dict(o["layer"])
                L["create"], L["update"] = res(L["create"]), res(L["update"])
                mig = dict(L["migrate"])
                if "md" in mig:
                    mig["md"] = None if mig["md"] is None else bl(render_doc(mig["md"], 0))
                L["migrate"] = mig
                ops.append({"op": "handle", "n": bl(o["n"]), "layer": L})
            elif o["op"] == "corrupt":
                ops.append({"op": "corrupt", "n": bl(o["n"]), "content": None if o["content"] is None else bl(o["content"])})
            else:
                ops.append(o)
        return {"id": c["id"], "names": [bl(n) for n in c["names"]], "ops": ops, "probes": PROBES}

    def cq_result(self, r):
        if r is None:
            return "CErr"
        from fsgen import cq_path
        env = "None" if r["env"] is None else "(Some %s)" % cq_list([cq_ins(i) for i in r["env"]])
        execd = cq_list(["(%s, %s)" % (cq_bytes(k), "None" if v is None else f"(Some ({v[0]}, {cq_bytes(v[1])}))") for k, v in r["execd"]])
        sboms = cq_list([f"({i}%nat, {cq_bytes(d)})" for i, d in r["sboms"]])
        files = cq_list([f"({cq_path(p)}, {cq_bytes(d)})" for p, d in r["files"]])
        return f"(COk (mkRes {cq_md(r['md'])} {env} {execd} {sboms} {files}))"

    def cq_layer(self, L):
        t = L["types"]
        strat = {"keep": "DKeep", "update": "DUpdate", "recreate": "DRecreate", "err": "DErrStrategy"}[L["strategy"]]
        mig = {"recreate": "GRecreate", "err": "GErr"}.get(L["migrate"]["d"]) or f"(GReplace {cq_md(L['migrate']['md'])})"
        return "(mkTL (mkT %s %s %s) %s %s %s %s %s)" % (cq_bool(t["launch"]), cq_bool(t["build"]), cq_bool(t["cache"]), "MV" if L["m"] == "V" else "MG",
                                                         strat, mig, self.cq_result(L["create"]), self.cq_result(L["update"]))

    def to_coq(self, c, o):
        steps, extra = [], False
        for op, ob in zip(c["ops"], o["steps"]):
            extra = extra or bool(ob["post"]["extra"])
            if op["op"] == "restore":
                steps.append(f"(XRestore {self.cq_store(ob['post'])})")
            elif op["op"] == "corrupt":
                import tomllib
                if op["content"] is None:
                    cc = "None"
                else:
                    try:
                        from fsgen import cq_tv
                        cc = f"(Some (Doc {cq_tv(tomllib.loads(op['content']))}))"
                    except Exception:
                        cc = f"(Some (Raw {cq_bytes(op['content'].encode())}))"
                steps.append(f"(XCorrupt {cq_bytes(op['n'].encode())} {cc} {self.cq_store(ob['post'])})")
            else:
                calls = []
                for x in ob["calls"]:
                    if x["cb"] == "create":
                        calls.append(f"(TCreate {cq_bool(x['empty'])})")
                    else:
                        calls.append("(%s %s)" % ({"strategy": "TStrategy", "update": "TUpdate", "migrate": "TMigrate"}[x["cb"]], cq_md_dump(x["md"])))
                r = ob["res"]
                if r["ok"] and r["path_ok"]:
                    t = r["types"]
                    ty = "None" if t is None else f"(Some (mkT {cq_bool(t['launch'])} {cq_bool(t['build'])} {cq_bool(t['cache'])}))"
                    # implicit layer paths hold the absolute layer directory; the model's layer directory is the
                    # root of the per-layer file system, so strip that prefix from the observed values
                    lp = r["layer_path"].encode()
                    probes = [[[k, list(bytes(v).replace(lp, b""))] for k, v in p] for p in r["probes"]]
                    res = "(TOk %s %s %s)" % (ty, cq_md_dump(r["md"]), cq_list([cq_pairs(p) for p in probes]))
                else:
                    res = f"(TErr {ERR.get(r.get('err'), 'EFuelH')})"
                steps.append("(XHandle %s %s %s %s %s)" % (cq_bytes(op["n"].encode()), self.cq_layer(op["layer"]), res, cq_list(calls), self.cq_store(ob["post"])))
        probes = cq_list([f"({cq_scope(p['scope'])}, {cq_pairs(p['env'])})" for p in PROBES])
        return "(mkCase %s %s %s %s)" % (cq_list([cq_bytes(n.encode()) for n in NAMES]), cq_bool(extra), probes, cq_list(steps))

    def nontrivial(self, c, o):
        return any(any(x["cb"] != "create" for x in ob.get("calls", [])) for ob in o["steps"])

    def classify(self, c, o):
        return "trait-layer"

    def shrink(self, c):
        ops = c["ops"]
        for i in range(len(ops)):
            yield dict(c, ops=ops[:i] + ops[i + 1:])

    def sample(self, c, o):
        out = []
        for op, ob in zip(c["ops"], o["steps"]):
            if op["op"] == "handle":
                out.append({"handle": op["n"], "strategy": op["layer"]["strategy"], "migrate": op["layer"]["migrate"]["d"], "m": op["layer"]["m"],
                            "result": "ok" if ob["res"]["ok"] else ob["res"]["err"], "calls": [x["cb"] for x in ob["calls"]]})
            else:
                out.append(op["op"])
        return out

    def distribution(self, cases, obs):
        d = {"ops": {"handle": 0, "corrupt": 0, "restore": 0}, "results": {}, "callbacks": {}, "call_sequences": {}}
        for c in cases:
            for op, ob in zip(c["ops"], obs[c["id"]]["steps"]):
                d["ops"][op["op"]] += 1
                if op["op"] == "handle":
                    k = "ok" if ob["res"]["ok"] else "err:" + ob["res"]["err"]
                    d["results"][k] = d["results"].get(k, 0) + 1
                    seq = ",".join(x["cb"] for x in ob["calls"])
                    d["call_sequences"][seq] = d["call_sequences"].get(seq, 0) + 1
                    for x in ob["calls"]:
                        d["callbacks"][x["cb"]] = d["callbacks"].get(x["cb"], 0) + 1
        return d


PROP = C02()
