"""C14 -- composite package descriptors are normalised without losing dependencies."""
import tomllib

from common import *  # noqa
from tomlgen import render_doc

IDS = ["a/b", "verif/x", "h.e-r/o_ku".replace("_", "-"), "z"]
REL = [".", "..", "../x", "./x", "x/y", "x//y", "x/./y", "x/../y", "../../..", "../../../../../../../../up", "a/b/../../..", "x/", "./", "..//x/.",
       "sub/../sub/../sub", "x%20y"]
OTHER = ["docker://reg/img:1", "https://h/p?q=1#f", "urn:cnb:registry:x", "oci:img", "file:///abs/p", "cnb.example+x:y"]
ABS = ["/abs/p", "/", "/a/../b", "/a//b/."]


class C14:
    id = "C14"
    stream = "c14"
    translator_prefixes = []
    coq_targets = ["theories/Checks/C14Hold.vo", "theories/Checks/C14Agree.vo", "theories/Props/C14.vo"]
    hold_target = "theories/Checks/C14Hold.vo"
    agree_target = "theories/Checks/C14Agree.vo"
    hold_mod = "C14Hold"
    agree_mod = "C14Agree"
    per_shard = 150
    rule = ("package descriptors mixing libcnb:, relative path, absolute path and other-scheme dependencies in any "
            "order and multiplicity (0..6), relative paths with '.', '..', redundant separators and enough '..' to "
            "climb above the root, id->path maps that are complete or miss one id, invalid ids after libcnb:, "
            "packaged locations that are absolute or relative, source locations at three depths. Precondition "
            "(stated): references without scheme have no authority, query or fragment and are URI-safe. "
            "non-trivial = at least one libcnb: or relative dependency.")
    trusted_base = [
        "Coq 8.16.1 kernel + vm_compute",
        "uriparse's scheme/path split and Rust Path::components / PathBuf::push/pop as environment models (validated by correspondence)",
        "harness: public package_composite_buildpack; Python tomllib reads the written package.toml",
    ]
    assumptions = ["scheme case is canonical (lower case); references starting with '//' (network-path) are outside the quantifier"]

    def corpus(self):
        return []

    def gen(self, rng, tier):
        cases = []
        for _ in range(3000 if tier == "thorough" else 600):
            deps = []
            ids_used = []
            for _ in range(rng.randint(0, 6)):
                r = rng.random()
                if r < 0.35:
                    i = rng.choice(IDS)
                    ids_used.append(i)
                    deps.append("libcnb:" + i)
                elif r < 0.7:
                    deps.append(rng.choice(REL))
                elif r < 0.8:
                    deps.append(rng.choice(ABS))
                elif r < 0.97:
                    deps.append(rng.choice(OTHER))
                else:
                    deps.append("libcnb:" + rng.choice(["app", "a b".replace(" ", "%20"), ""]))
            paths = []
            missing = rng.random() < 0.2 and ids_used
            drop = rng.choice(ids_used) if missing else None
            for i in IDS:
                if i == drop:
                    continue
                if i in ids_used or rng.random() < 0.3:
                    paths.append([i, rng.choice(["$TMP/out/" + i.replace("/", "_"), "/opt/packaged/../" + i, "rel/out", "$TMP/o/../p"])])
            src = rng.choice([["ws"], ["ws", "meta"], ["ws", "buildpacks", "deep", "meta"]])
            cases.append({"src": src, "deps": deps, "paths": paths, "bp_uri": rng.choice([".", "../other", "docker://x/y"]),
                          "os": rng.choice(["linux", "windows"])})
        return cases

    def to_harness(self, c):
        doc = {"buildpack": {"uri": c["bp_uri"]}, "dependencies": [{"uri": d} for d in c["deps"]], "platform": {"os": c["os"]}}
        return {"id": c["id"], "src": [list(s.encode()) for s in c["src"]], "package_toml": list(render_doc(doc, 0).encode()),
                "paths": [[list(k.encode()), list(v.encode())] for k, v in c["paths"]], "stale_siblings": c["id"] % 2 == 1,
                # the source directory (or its package.toml) reached through a symbolic link: every third case
                "via_link": [None, None, None, "dir", None, "file"][c["id"] % 6]}

    def run_impl(self, cases, workdir):
        obs = run_harness(self.stream, [self.to_harness(c) for c in cases], workdir)
        for c in cases:
            o = obs[c["id"]]
            if o["ok"]:
                try:
                    o["doc"] = tomllib.loads(bytes(o["text"]).decode("utf-8"))
                except Exception as e:
                    o["doc"] = None
        return obs

    def to_coq(self, c, o):
        tmp = bytes(o["tmp"]).decode()
        paths = cq_list([f"({cq_bytes(k.encode())}, {cq_bytes(v.replace('$TMP', tmp).encode())})" for k, v in c["paths"]])
        if o["ok"] and o.get("doc") is not None:
            d = o["doc"]
            deps = cq_list([cq_bytes(x["uri"].encode()) for x in d.get("dependencies", [])])
            res = "(ROk %s %s %s %s)" % (deps, cq_bytes(d["buildpack"]["uri"].encode()), cq_bytes(d.get("platform", {}).get("os", "linux").encode()),
                                         cq_bool(o["buildpack_toml_same"]))
        elif not o["ok"] and o["err"] == "missing_path":
            res = f"(RMissing {cq_bytes(o['what'])})"
        elif not o["ok"] and o["err"] == "invalid_id":
            res = "RInvalidId"
        else:
            res = "ROtherErr"
        return "(mkCase %s %s %s %s %s %s)" % (cq_bytes(o["src_dir"]), cq_list([cq_bytes(d.encode()) for d in c["deps"]]),
                                              cq_bytes(c["bp_uri"].encode()), cq_bytes(c["os"].encode()), paths, res)

    def nontrivial(self, c, o):
        return any(d.startswith("libcnb:") or d in REL for d in c["deps"])

    def classify(self, c, o):
        return "normalise"

    def shrink(self, c):
        for i in range(len(c["deps"])):
            yield dict(c, deps=c["deps"][:i] + c["deps"][i + 1:])
        for i in range(len(c["paths"])):
            yield dict(c, paths=c["paths"][:i] + c["paths"][i + 1:])
        if len(c["src"]) > 1:
            yield dict(c, src=c["src"][:1])

    def sample(self, c, o):
        return {"deps": c["deps"], "paths": c["paths"], "src": "/".join(c["src"]),
                "result": [x["uri"] for x in o["doc"].get("dependencies", [])] if o.get("doc") else o.get("err")}

    def distribution(self, cases, obs):
        d = {"result": {}, "dep_kinds": {"libcnb": 0, "relative": 0, "absolute": 0, "other": 0}}
        for c in cases:
            o = obs[c["id"]]
            k = "ok" if o["ok"] else o["err"]
            d["result"][k] = d["result"].get(k, 0) + 1
            for x in c["deps"]:
                if x.startswith("libcnb:"):
                    d["dep_kinds"]["libcnb"] += 1
                elif x in REL:
                    d["dep_kinds"]["relative"] += 1
                elif x in ABS:
                    d["dep_kinds"]["absolute"] += 1
                else:
                    d["dep_kinds"]["other"] += 1
        return d


PROP = C14()
