"""C18 -- inventory resolution returns a maximal matching artifact; checksums round-trip."""
import itertools
import tomllib

from common import *  # noqa
from fsgen import cq_tv

VERS = [(1, 1), (1, 2), (2, 1), (2, 2), (3, 0)]


def cq_ver(v):
    return f"({v[0]}, {v[1]})"


def cq_art(a):
    return "(mkArt %s %s %s %d)" % (cq_ver(a["ver"]), "Linux" if a["os"] == "linux" else "Darwin",
                                    "Arm64" if a["arch"] == "arm64" else "Amd64", a["meta"])


def cq_onat(x):
    return "None" if x is None else f"(Some {x}%nat)"


ERR = {"missing_prefix": "MissingPrefix", "incompatible_prefix": "IncompatiblePrefix",
       "invalid_value": "InvalidValue", "invalid_length": "InvalidLength"}


class C18:
    id = "C18"
    stream = "c18"
    translator_prefixes = ["inventory", "serde schema"]
    coq_targets = ["theories/Checks/C18Hold.vo", "theories/Checks/C18Agree.vo", "theories/Props/C18.vo"]
    hold_target = "theories/Checks/C18Hold.vo"
    agree_target = "theories/Checks/C18Agree.vo"
    hold_mod = "C18Hold"
    agree_mod = "C18Agree"
    per_shard = 250
    extra_imports = "From LV Require Import Toml Serde Inventory InventoryToml.\n"
    rule = ("resolve: every inventory of 0..4 artifacts over 5 versions (product partial order / lexicographic total "
            "order, incl. duplicates and incomparable pairs) with fixed os/arch/meta, plus seeded random inventories "
            "of up to 6 artifacts over all attributes; 6 queries each (matching all, a random allowed subset, other "
            "arch, metadata threshold, empty requirement). checksum: structured strings (prefix variants x separator "
            "x hex/non-hex bodies around the valid length) and all strings of length <=4 over {a,F,:,g,0}. toml: "
            "random inventories rendered and parsed back. non-trivial = at least one query matches / checksum has a "
            "colon / inventory non-empty.")
    trusted_base = [
        "Coq 8.16.1 kernel + vm_compute",
        "translator (syn): partial_max_by_key replacement arms, filter conjuncts, sha2 digest names",
        "Rust harness with test version types (product PartialOrd, lexicographic Ord) through the public Inventory API",
        "Iterator::max_by_key semantics (last maximum) as environment model, validated by exact-index correspondence",
        "Serde.v schema interpreter as the model of serde derive + the toml crate's data model for Inventory (schema regenerated from the derives); Python tomllib as the independent reader of the rendered text",
    ]
    assumptions = ["PartialOrd implementations satisfy irreflexivity and the two transitivity laws (porder_laws)"]

    def corpus(self):
        return []

    def _queries(self, rng):
        allv = [list(v) for v in VERS + [(0, 3), (99, 0), (99, 1)]]
        sub = [list(v) for v in VERS if rng.random() < 0.5]
        return [
            {"os": "linux", "arch": "amd64", "allowed": allv, "meta_min": 0},
            {"os": "linux", "arch": "amd64", "allowed": sub, "meta_min": 0},
            {"os": "linux", "arch": "arm64", "allowed": allv, "meta_min": 0},
            {"os": "darwin", "arch": "amd64", "allowed": allv, "meta_min": 1},
            {"os": "linux", "arch": "amd64", "allowed": allv, "meta_min": 1},
            {"os": "linux", "arch": "amd64", "allowed": [], "meta_min": 0},
            # every OS / architecture pair is its own platform: no artifact of another pair is an answer
            {"os": "darwin", "arch": "arm64", "allowed": allv, "meta_min": 0},
            {"os": "darwin", "arch": "arm64", "allowed": sub, "meta_min": rng.choice([0, 1])},
            {"os": rng.choice(["linux", "darwin"]), "arch": rng.choice(["amd64", "arm64"]), "allowed": allv, "meta_min": 0},
        ]

    def gen(self, rng, tier):
        cases = []
        for n in range(0, 5):
            for vs in itertools.product(VERS, repeat=n):
                arts = [{"ver": list(v), "os": "linux", "arch": "amd64", "meta": 0} for v in vs]
                cases.append({"kind": "resolve", "arts": arts, "queries": self._queries(rng)})
        # versions that compare to nothing, themselves included (first component 99 in the third inventory)
        for n in range(1, 4):
            for vs in itertools.product([(1, 1), (2, 2), (99, 0), (99, 1)], repeat=n):
                arts = [{"ver": list(v), "os": "linux", "arch": "amd64", "meta": 0} for v in vs]
                cases.append({"kind": "resolve", "arts": arts, "queries": self._queries(rng)})
        for _ in range(6000 if tier == "thorough" else 800):
            arts = [{"ver": list(rng.choice(VERS + [(3, 0), (0, 3), (99, 0), (99, 1)])), "os": rng.choice(["linux", "linux", "darwin"]),
                     "arch": rng.choice(["amd64", "amd64", "arm64"]), "meta": rng.choice([0, 1])}
                    for _ in range(rng.randint(1, 6))]
            cases.append({"kind": "resolve", "arts": arts, "queries": self._queries(rng)})
        # the bundled requirement type: semver::VersionReq over semver::Version (pre-releases, build metadata)
        SV = ["1.4.0", "1.5.0", "2.0.0-rc.1", "2.0.0", "2.0.0+build.5", "1.5.0-beta.2", "0.9.9", "2.1.0-alpha"]
        RQ = [">=1.0.0", "^2", "=2.0.0-rc.1", "<2.0.0", "*", ">=2.0.0-rc.0", "~1.4", "^1.5.0-beta.1", ">=2.1.0-alpha", "<=1.5.0"]
        for _ in range(300 if tier == "thorough" else 60):
            arts = [{"sv": rng.choice(SV), "os": rng.choice(["linux", "linux", "darwin"]), "arch": rng.choice(["amd64", "amd64", "arm64"])}
                    for _ in range(rng.randint(1, 5))]
            qs = [{"req": r, "os": "linux", "arch": "amd64"} for r in rng.sample(RQ, 5)]
            cases.append({"kind": "resolve", "semver": True, "arts": arts, "queries": qs})
        # checksums
        prefixes = ["sha256", "sha512", "SHA256", "sha256 ", " sha256", "", "sha25", "sha2566", "sha256:sha256"]
        seps = [":", "", "::", ": "]
        hexa = "0123456789abcdefABCDEF"
        for p in prefixes:
            for sp in seps:
                for ln in [0, 1, 2, 62, 63, 64, 65, 66, 128]:
                    for bad in [None, "g", ":", " ", "é"]:
                        body = [rng.choice(hexa) for _ in range(ln)]
                        if bad is not None and ln > 0:
                            body[rng.randrange(ln)] = bad
                        elif bad is not None:
                            continue
                        s = (p + sp + "".join(body)).encode()
                        cases.append({"kind": "checksum", "s": list(s)})
        for n in range(0, 5):
            for t in itertools.product("aF:g0", repeat=n):
                cases.append({"kind": "checksum", "s": list("".join(t).encode())})
        for _ in range(300):
            body = "".join(rng.choice(hexa) for _ in range(64))
            cases.append({"kind": "checksum", "s": list(("sha256:" + body).encode())})
        # a well-formed checksum followed or preceded by more fields: every extra ':' must reject
        for _ in range(40):
            body = "".join(rng.choice(hexa) for _ in range(64))
            for tail in [":", "::", ":00", ":zz", ":" + body, ":sha256:" + body, ": ", ":\n"]:
                cases.append({"kind": "checksum", "s": list(("sha256:" + body + tail).encode())})
            for head in [":", "sha256:", "x:", ":sha256:"]:
                cases.append({"kind": "checksum", "s": list((head + "sha256:" + body).encode())})
            cases.append({"kind": "checksum", "s": list(("sha256:" + body[:32] + ":" + body[32:]).encode())})
        # the other digest the crate ships: Checksum<Sha512> (64 bytes)
        for ln in [0, 2, 62, 64, 66, 126, 127, 128, 129, 130, 256]:
            for pre in ["sha512:", "sha256:", "SHA512:", "sha512", "sha512::"]:
                for _ in range(3):
                    body = "".join(rng.choice(hexa) for _ in range(ln))
                    cases.append({"kind": "checksum", "alg": 512, "s": list((pre + body).encode())})
        # toml round trip
        for _ in range(1500 if tier == "thorough" else 200):
            arts = []
            for _ in range(rng.randint(0, 5)):
                url = "".join(rng.choice("ab/:.\"\\ \né#=[]") for _ in range(rng.randint(0, 8)))
                meta = None if rng.random() < 0.4 else "".join(rng.choice("xy\"\n ") for _ in range(rng.randint(0, 4)))
                arts.append({"ver": [rng.randint(0, 30), rng.randint(0, 30)], "os": rng.choice(["linux", "darwin"]),
                             "arch": rng.choice(["amd64", "arm64"]), "url": list(url.encode()),
                             "digest": [rng.randrange(256) for _ in range(32)],
                             "meta": None if meta is None else list(meta.encode())})
                # one download listed for several platforms / versions: same url and digest, next to each other
                if rng.random() < 0.3:
                    twin = dict(arts[-1], os=rng.choice(["linux", "darwin"]), arch=rng.choice(["amd64", "arm64"]))
                    if rng.random() < 0.5:
                        twin["ver"] = [rng.randint(0, 30), rng.randint(0, 30)]
                    arts.append(twin)
            cases.append({"kind": "toml", "arts": arts})
        return cases

    def run_impl(self, cases, workdir):
        obs = run_harness(self.stream, cases, workdir)
        for c in cases:
            if c["kind"] == "toml":
                o = obs[c["id"]]
                try:      # the independent TOML 1.0 reader of the rendered text
                    o["tree"] = tomllib.loads(bytes(o["text"]).decode("utf-8"))
                except Exception as e:
                    o["tree"], o["toml_error"] = None, str(e)[:200]
        return obs

    def to_coq(self, c, o):
        if c["kind"] == "resolve" and c.get("semver"):
            # versions as ranks (rank, 0): the lexicographic order on them is the semver order; a requirement is the set of
            # versions it admits (VersionReq::matches)
            arts = [{"ver": [rk, 0], "os": a["os"], "arch": a["arch"], "meta": 0} for a, rk in zip(c["arts"], o["ranks"])]
            qs = []
            for q, r in zip(c["queries"], o["results"]):
                allowed = [[rk, 0] for rk, ok in zip(o["ranks"], r["admitted"]) if ok]
                req = "(mkReq %s 0)" % cq_list([cq_ver(v) for v in allowed])
                qs.append("(mkQ %s %s %s %s %s %s)" % ("Linux" if q["os"] == "linux" else "Darwin", "Arm64" if q["arch"] == "arm64" else "Amd64", req,
                                                      cq_onat(r["partial"]), cq_onat(r["total"]), cq_onat(r["pnan"])))
            return f"(CResolve {cq_list([cq_art(a) for a in arts])} {cq_list(qs)})"
        if c["kind"] == "resolve":
            qs = []
            for q, r in zip(c["queries"], o["results"]):
                req = "(mkReq %s %d)" % (cq_list([cq_ver(v) for v in q["allowed"]]), q["meta_min"])
                qs.append("(mkQ %s %s %s %s %s %s)" % ("Linux" if q["os"] == "linux" else "Darwin",
                                                   "Arm64" if q["arch"] == "arm64" else "Amd64", req,
                                                   cq_onat(r["partial"]), cq_onat(r["total"]), cq_onat(r["pnan"])))
            return f"(CResolve {cq_list([cq_art(a) for a in c['arts']])} {cq_list(qs)})"
        if c["kind"] == "checksum":
            if o["ok"]:
                ob = "(CkOk %s %s %s %s)" % (cq_bytes(o["name"]), cq_bytes(o["value"]),
                                             cq_opt(o.get("shown"), cq_bytes), cq_bool(bool(o.get("reparse_eq"))))
            else:
                ob = f"(CkErr {ERR[o['err']]})"
            return f"({'CChecksum512' if c.get('alg') == 512 else 'CChecksum'} {cq_bytes(c['s'])} {ob})"
        arts = []
        for a in c["arts"]:
            ver = ("%d.%d.0" % tuple(a["ver"])).encode()
            meta = "(VOpt None)" if a["meta"] is None else f"(VOpt (Some (VStr {cq_bytes(a['meta'])})))"
            arts.append("(mkTArt (VStr %s) %s %s %s (%s, %s) %s)" % (
                cq_bytes(ver), "Linux" if a["os"] == "linux" else "Darwin", "Arm64" if a["arch"] == "arm64" else "Amd64",
                cq_bytes(a["url"]), cq_bytes(b"sha256"), cq_bytes(a["digest"]), meta))
        tree = "None" if o.get("tree") is None else f"(Some {cq_tv(o['tree'])})"
        return f"(CToml {cq_list(arts)} {tree} {cq_bool(o['parse_ok'])} {cq_bool(o['rt_eq'])})"

    def nontrivial(self, c, o):
        if c["kind"] == "resolve":
            return any(r["partial"] is not None for r in o["results"])
        if c["kind"] == "checksum":
            return 58 in c["s"]
        return len(c["arts"]) > 0

    def classify(self, c, o):
        return c["kind"]

    def shrink(self, c):
        if c["kind"] == "resolve":
            if len(c["queries"]) > 1:
                for q in c["queries"]:
                    yield dict(c, queries=[q])
            else:
                for i in range(len(c["arts"])):
                    yield dict(c, arts=c["arts"][:i] + c["arts"][i + 1:])
        elif c["kind"] == "toml":
            for i in range(len(c["arts"])):
                yield {"kind": "toml", "arts": c["arts"][:i] + c["arts"][i + 1:]}

    def sample(self, c, o):
        if c["kind"] == "checksum":
            return {"kind": "checksum", "s": bytes(c["s"]).decode("utf-8", "replace"), "observed": {k: v for k, v in o.items() if k in ("ok", "err")}}
        if c["kind"] == "resolve":
            return {"kind": "resolve", "arts": [a.get("ver", a.get("sv")) for a in c["arts"]], "query0": c["queries"][0], "result0": o["results"][0]}
        return {"kind": "toml", "n": len(c["arts"]), "text": bytes(o["text"]).decode("utf-8", "replace")[:300]}

    def distribution(self, cases, obs):
        d = {"kind": {}, "checksum_outcome": {}, "inventory_size": {}}
        for c in cases:
            d["kind"][c["kind"]] = d["kind"].get(c["kind"], 0) + 1
            o = obs[c["id"]]
            if c["kind"] == "checksum":
                k = "ok" if o["ok"] else o["err"]
                d["checksum_outcome"][k] = d["checksum_outcome"].get(k, 0) + 1
            elif c["kind"] == "resolve":
                k = str(len(c["arts"]))
                d["inventory_size"][k] = d["inventory_size"].get(k, 0) + 1
        return d


PROP = C18()
