"""C09 -- validated identifiers and versions accept exactly the spec grammar."""
import itertools
import json
import os
import re
import shutil
import subprocess

from common import *  # noqa

ALPHA = ["a", "Z", "5", ".", "_", "-", "/", "+", " ", "\n", "é", "\0"]
RESERVED = ["build", "launch", "store", "app", "config", "sbom"]
TYPES = ["layer_name", "process_type", "buildpack_id", "execd_key"]
MACROS = {"layer_name": "layer_name", "process_type": "process_type", "buildpack_id": "buildpack_id",
          "execd_key": "exec_d_program_output_key"}
U64 = 2 ** 64


def cq_otriple(t):
    return "None" if t is None else "(Some (%d, %d, %d))" % tuple(t)


def cq_opair(t):
    return "None" if t is None else "(Some (%d, %d))" % tuple(t)


def cq_obytes(b):
    return "None" if b is None else f"(Some {cq_bytes(b)})"


class C09:
    id = "C09"
    stream = "c09"
    translator_prefixes = ["newtype regex", "version.rs", "api.rs"]
    coq_targets = ["theories/Checks/C09Hold.vo", "theories/Checks/C09Agree.vo", "theories/Props/C09.vo"]
    hold_target = "theories/Checks/C09Hold.vo"
    agree_target = "theories/Checks/C09Agree.vo"
    hold_mod = "C09Hold"
    agree_mod = "C09Agree"
    per_shard = 500
    rule = ("identifiers: every string of length <=3 [thorough: <=4] over 12 class representatives (letter, upper, "
            "digit, '.', '_', '-', '/', '+', space, newline, non-ASCII letter, NUL), the six reserved words with every "
            "one-character prefix/suffix, random longer strings incl. U+10FFFF; each through FromStr, TOML "
            "deserialisation, Display/Serialize, and a sample through the compile-time literal macros (cargo check). "
            "versions/API: every dot-joined combination of component spellings (plain, leading zero, '+', '-', space, "
            "empty, u64 boundary values) with 1..4 components, all strings of length <=4 over {0,1,9,.,+,-,space,a}, "
            "and Display->parse of boundary triples. non-trivial = accepted by at least one grammar or contains a "
            "reserved word or a digit.")
    trusted_base = [
        "Coq 8.16.1 kernel + vm_compute",
        "translator: regex literal parser (subset) -> AST, macro plumbing shape facts, version/api component parser detection",
        "Regex.v engine as model of fancy_regex semantics for the subset (validated by correspondence)",
        "u64::from_str / Display for u64 as environment model; stdlib Decimal (N.to_uint/N.of_uint) as the definition of decimal notation",
        "harness (FromStr, TryFrom, toml/serde, Display) and generated macro crate checked with cargo check",
    ]
    assumptions = ["identifier strings are sequences of Unicode scalar values (<= U+10FFFF)"]

    def corpus(self):
        return [{"kind": "version", "s": list(b"+1.2.3")}, {"kind": "api", "s": list(b"+0.+10")}]

    def gen(self, rng, tier):
        cases = []
        idents = []
        maxlen = 4 if tier == "thorough" else 3
        for n in range(0, maxlen + 1):
            for t in itertools.product(ALPHA, repeat=n):
                idents.append("".join(t))
        for w in RESERVED:
            idents.append(w)
            for c in ALPHA:
                idents += [c + w, w + c]
            idents += [w[:-1], w[1:], w + w, w.upper(), w + "\n"]
        extra = ALPHA + ["\U0010ffff", "�", "\x7f", "\x80", "A", "z", "0", "9", "@", "[", "`", "{", ":"]
        for _ in range(3000 if tier == "thorough" else 600):
            idents.append("".join(rng.choice(extra) for _ in range(rng.randint(4, 12))))
        for c in extra:
            idents.append(c)
        # names that look like the files kept next to layer directories, or like paths: the grammars say nothing of them
        for w in ["cache.toml", ".toml", "a.b.toml", "build.toml", "x.sbom.cdx.json", "store.toml", "launch.toml", "env", "exec.d",
                  "tool/x", "../x", "a/b/c", ".", "..", "x.", "-", "_", "web.1", "worker.default"]:
            idents.append(w)
        for n in (64, 250, 251, 256, 300, 1000):
            idents += ["x" * n, "a-b." * (n // 4), "build" + "x" * n]
        seen = set()
        self.macro_set = []
        for s in idents:
            if s in seen:
                continue
            seen.add(s)
            cases.append({"kind": "ident", "s": list(s.encode("utf-8")), "cp": [ord(ch) for ch in s]})
        # literals for the compile-time macros: all <=2, reserved-word family, some random
        lits = [c for c in cases if len(c["cp"]) <= 2] + [c for c in cases if any(w in "".join(map(chr, c["cp"])) for w in RESERVED)]
        lits += rng.sample(cases, 40)
        self.macro_cases = lits[: (400 if tier == "thorough" else 180)]
        # versions
        comps = ["0", "1", "9", "10", "01", "00", "+1", "-1", " 1", "1 ", "", "a", "1a", "+", "+0", "+01",
                 str(U64 - 1), str(U64), str(U64 + 1), "0" + str(U64 - 1), "99999999999999999999999"]
        vstrs = set()
        for k in (1, 2, 3, 4):
            pool = comps if k <= 3 else comps[:8]
            for t in itertools.product(pool, repeat=k):
                if k == 3 or rng.random() < (0.25 if k < 3 else 0.05) or k == 1:
                    vstrs.add(".".join(t))
        small = "019.+- a"
        for n in range(0, 5):
            for t in itertools.product(small, repeat=n):
                vstrs.add("".join(t))
        vstrs |= {"1.2.3\n", "\n1.2.3", "1.2.3 ", "1..3", ".1.2", "1.2.", "１.2.3", "1.2.3.", "+1.2.3", "1.+2.3"}
        vl = sorted(vstrs)
        if tier != "thorough":
            keep = [v for v in vl if v.count(".") == 2 and len(v) <= 12]
            rest = [v for v in vl if not (v.count(".") == 2 and len(v) <= 12)]
            vl = keep + rng.sample(rest, min(len(rest), 3000))
        for v in vl:
            cases.append({"kind": "version", "s": list(v.encode("utf-8"))})
            if v.count(".") <= 2:
                cases.append({"kind": "api", "s": list(v.encode("utf-8"))})
        bounds = [0, 1, 9, 10, 99, 100, 2 ** 32, U64 - 2, U64 - 1]
        for t in itertools.product(bounds, repeat=3):
            if rng.random() < 0.3:
                cases.append({"kind": "vshow", "v": list(t)})
        return cases

    # ---- compile-time macros
    def run_macros(self, workdir):
        res = {}
        if not getattr(self, "macro_cases", None):
            return res
        crate = os.path.join(BUILD, "c09macro")
        os.makedirs(os.path.join(crate, "src"), exist_ok=True)
        with open(os.path.join(crate, "Cargo.toml"), "w") as f:
            f.write('[package]\nname = "c09macro"\nversion = "0.0.0"\nedition = "2024"\n[workspace]\n'
                    f'[dependencies]\nlibcnb-data = {{ path = "{REPO}/libcnb-data" }}\n')
        shutil.copyfile(os.path.join(REPO, "Cargo.lock"), os.path.join(crate, "Cargo.lock"))
        lines = ["#![allow(dead_code, unused)]"]
        index = {}
        for k, c in enumerate(self.macro_cases):
            lit = "".join("\\u{%x}" % cp for cp in c["cp"])
            for t in TYPES:
                lines.append(f'fn f{k}_{t}() {{ let _ = libcnb_data::{MACROS[t]}!("{lit}"); }}')
                index[len(lines)] = (k, t)
        open(os.path.join(crate, "src", "lib.rs"), "w").write("\n".join(lines) + "\n")
        e = env_offline()
        e["CARGO_TARGET_DIR"] = os.path.join(BUILD, "cargo-c09")
        p = subprocess.run(["cargo", "check", "--offline", "--message-format=json", "-q"], cwd=crate, env=e,
                           stdout=subprocess.PIPE, stderr=subprocess.PIPE, text=True, timeout=1200)
        rejected = set()
        other_errors = []
        for line in p.stdout.splitlines():
            try:
                m = json.loads(line)
            except ValueError:
                continue
            if m.get("reason") != "compiler-message":
                continue
            msg = m["message"]
            if msg.get("level") != "error":
                continue
            text = msg.get("message", "")
            spans = msg.get("spans", [])
            ln = None
            for sp in spans:
                cur = sp
                while cur is not None:
                    if cur.get("file_name", "").endswith("src/lib.rs") and not cur.get("file_name", "").startswith("/"):
                        ln = cur["line_start"]
                        break
                    cur = (cur.get("expansion") or {}).get("span")
                if ln is not None:
                    break
            if "is not a valid" in text and ln in index:
                rejected.add(index[ln])
            elif "aborting" not in text and "could not compile" not in text:
                other_errors.append(text[:200])
        if other_errors:
            raise RuntimeError("macro crate: unexpected compiler errors: " + "; ".join(other_errors[:3]))
        for k, c in enumerate(self.macro_cases):
            res[id(c)] = {t: ((k, t) not in rejected) for t in TYPES}
        return res

    def run_impl(self, cases, workdir):
        obs = run_harness(self.stream, cases, workdir)
        # macro results only for the main run (cases that are the generated objects)
        mc = {id(c): c for c in getattr(self, "macro_cases", [])}
        if any(id(c) in mc for c in cases):
            mres = self.run_macros(workdir)
            for c in cases:
                if id(c) in mres:
                    obs[c["id"]]["macro"] = mres[id(c)]
        return obs

    def to_coq(self, c, o):
        if c["kind"] == "ident":
            def io(t):
                x = o[t]
                m = o.get("macro", {}).get(t) if "macro" in o else None
                return "(mkIO %s %s %s %s %s %s)" % (cq_bool(x["parse"]), cq_bool(x["deser"]), cq_obytes(x["display"]),
                                                    cq_obytes(x["ser"]), cq_obytes(x["deser_display"]),
                                                    "None" if m is None else f"(Some {cq_bool(m)})")
            return "(CIdent %s %s %s %s %s %s)" % (cq_bytes(c["cp"]), cq_bytes(c["s"]), io("layer_name"),
                                                  io("process_type"), io("buildpack_id"), io("execd_key"))
        if c["kind"] == "version":
            return f"(CVersion {cq_bytes(c['s'])} {cq_otriple(o['parsed'])} {cq_otriple(o['deser'])} {cq_obytes(o['display'])})"
        if c["kind"] == "api":
            return f"(CApi {cq_bytes(c['s'])} {cq_opair(o['parsed'])} {cq_opair(o['deser'])} {cq_obytes(o['display'])})"
        v = c["v"]
        return "(CVShow (%d, %d, %d) %s %s %s %s)" % (v[0], v[1], v[2], cq_bytes(o["shown"]), cq_bool(o["back_eq"]),
                                                      cq_bytes(o["api_shown"]), cq_bool(o["api_back_eq"]))

    def nontrivial(self, c, o):
        if c["kind"] == "ident":
            return any(o[t]["parse"] for t in TYPES) or any(w.encode() in bytes(c["s"]) for w in RESERVED)
        if c["kind"] in ("version", "api"):
            return any(48 <= b <= 57 for b in c["s"])
        return True

    def classify(self, c, o):
        if c["kind"] in ("version", "api"):
            s = bytes(c["s"])
            if b"+" in s and o.get("parsed") is not None:
                return "sign-accepted"
        return c["kind"]

    def shrink(self, c):
        if c["kind"] == "ident":
            cp = c["cp"]
            for i in range(len(cp)):
                r = cp[:i] + cp[i + 1:]
                yield {"kind": "ident", "cp": r, "s": list("".join(map(chr, r)).encode("utf-8"))}
        elif c["kind"] in ("version", "api"):
            s = c["s"]
            for i in range(len(s)):
                r = s[:i] + s[i + 1:]
                try:
                    bytes(r).decode("utf-8")
                except UnicodeDecodeError:
                    continue
                yield {"kind": c["kind"], "s": r}

    def sample(self, c, o):
        d = {"kind": c["kind"]}
        if "s" in c:
            d["s"] = bytes(c["s"]).decode("utf-8", "replace")
        if c["kind"] == "ident":
            d["accepted"] = {t: o[t]["parse"] for t in TYPES}
        else:
            d["observed"] = {k: v for k, v in o.items() if k != "id" and not isinstance(v, list) or k in ("parsed",)}
        return d

    def distribution(self, cases, obs):
        d = {"kind": {}, "accepted": {}, "macro_literals": len(getattr(self, "macro_cases", []))}
        for c in cases:
            d["kind"][c["kind"]] = d["kind"].get(c["kind"], 0) + 1
            o = obs[c["id"]]
            if c["kind"] == "ident":
                for t in TYPES:
                    if o[t]["parse"]:
                        d["accepted"][t] = d["accepted"].get(t, 0) + 1
            elif c["kind"] in ("version", "api") and o["parsed"] is not None:
                d["accepted"][c["kind"]] = d["accepted"].get(c["kind"], 0) + 1
        return d


PROP = C09()
