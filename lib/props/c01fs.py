"""C01 at the level of the file system: LayerRef::write_sboms next to left-over entries at the layer's SBOM paths."""
import os

from common import *  # noqa
from fsgen import *  # noqa
import fsm
from props.c11 import R, LAYERS, b

ERRS = fsm.ERRS
SUFFIXES = [b"cdx.json", b"spdx.json", b"syft.json"]


class SbomWrites:
    id = "C01FS"
    decides_property = True
    hold_mod = "C01FsHold"
    agree_mod = "C01FsAgree"
    per_shard = 60
    scope = "N_scope"
    extra_imports = "From LV Require Import FS LayerShared.\n"
    rule = ("generated sandboxes (run as uid 65534): a layers directory with a sibling layer y (its own TOML and SBOM "
            "file), a canary tree beside it and the target layer x or y.z, freshly created through "
            "BuildContext::uncached_layer; then entries are planted at the layer's three SBOM paths (regular files with "
            "modes 0644/0444/0000, symbolic links to a file outside the layer, to the sibling's SBOM file, dangling, a "
            "directory) and LayerRef::write_sboms is called with 0..4 SBOMs (formats repeated, empty data); observed: "
            "result and the whole tree before and after")

    def gen(self, rng, tier):
        cases = []
        for _ in range(900 if tier == "thorough" else 160):
            init = [{"p": R, "k": "d", "m": 0o755}, {"p": LAYERS, "k": "d", "m": 0o755}]
            can = R + [b(b"canary")]
            init.append({"p": can, "k": "d", "m": rng.choice([0o755, 0o555])})
            init.append({"p": can + [b(b"f")], "k": "f", "m": rng.choice([0o644, 0o444]), "c": [1, 2]})
            y = LAYERS + [b(b"y")]
            init.append({"p": y, "k": "d", "m": 0o755})
            init.append({"p": LAYERS + [b(b"y.toml")], "k": "f", "m": 0o644, "c": b(b"[types]\nlaunch = true\n")})
            init.append({"p": LAYERS + [b(b"y.sbom.cdx.json")], "k": "f", "m": 0o644, "c": b(b"{\"y\":1}")})
            tn = rng.choice([b"x", b"x", b"y.z"])
            x = LAYERS + [b(tn)]
            init.append({"p": x, "k": "d", "m": 0o755})
            init.append({"p": x + [b(b"old")], "k": "f", "m": 0o644, "c": [5]})
            # a layer whose name starts like the target's: its SBOM files are not the target's
            if rng.random() < 0.4:
                init.append({"p": LAYERS + [b(tn + b"2.sbom.cdx.json")], "k": "f", "m": 0o644, "c": b(b"{}")})
            plant = []
            for sx in SUFFIXES:
                p = LAYERS + [b(tn + b".sbom." + sx)]
                r = rng.random()
                if r < 0.35:
                    continue
                if r < 0.6:
                    plant.append({"p": p, "k": "f", "m": rng.choice([0o644, 0o444, 0o000]), "c": b(b"stale")})
                elif r < 0.93:
                    plant.append({"p": p, "k": "l", "t": b(rng.choice([b"../canary/f", b"/r/canary/f", b"nope", b"y.sbom.cdx.json",
                                                                       bytes(tn) + b"/old", b"../canary", b"."]))})
                else:
                    plant.append({"p": p, "k": "d", "m": 0o755})
            sboms = [[rng.randrange(3), b(rng.choice([b"{}", b"", b"{\"a\":1}", b"\xff\x00"]))] for _ in range(rng.choice([0, 1, 1, 2, 3, 4]))]
            cases.append({"init": init, "layers": LAYERS, "name": b(tn), "op": "write_sboms", "plant": plant, "sboms": sboms})
        return cases

    def run_impl(self, cases, workdir):
        sb = os.path.join(workdir, "sandbox")
        os.makedirs(sb, exist_ok=True)
        os.chmod(sb, 0o1777)
        os.chmod(workdir, 0o777)
        return run_harness("c11", cases, workdir, extra_env={"VERIF_SANDBOX": sb}, prefix=UNPRIV)

    def to_coq(self, c, o):
        r = o["res"]
        res = "ROk" if r["ok"] else (f"(RErrno {r['err']})" if r["err"] in ERRS else "ROther")
        sboms = cq_list([f"({f}, {cq_bytes(d)})" for f, d in c["sboms"]])
        return f"(mkFs {cq_fs(o['pre'])} {cq_path(c['layers'])} {cq_bytes(c['name'])} {sboms} {res} {cq_fs(o['post'])})"

    def distribution(self, cases, obs):
        d = {"planted": {"f": 0, "l": 0, "d": 0}, "sboms": {}, "result": {}}
        for c in cases:
            for n in c["plant"]:
                d["planted"][n["k"]] += 1
            d["sboms"][str(len(c["sboms"]))] = d["sboms"].get(str(len(c["sboms"])), 0) + 1
            r = obs[c["id"]]["res"]
            k = "ok" if r["ok"] else r["err"]
            d["result"][k] = d["result"].get(k, 0) + 1
        return d
