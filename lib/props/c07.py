"""C07 -- written TOML decodes under an independent parser to the intended spec document."""
import subprocess
import tomllib

from common import *  # noqa
from tomlgen import *  # noqa
from fsgen import cq_tv
import c08 as c08mod

STRS = ["", "x", "a b", 'q"uote', "back\\slash", "new\nline", "tab\t", "é☃", "\x01ctl", "=", "#", "[x]", "'", "\x7f", " "]
KINDS = c08mod.KINDS


def jb(s):
    return list(s) if isinstance(s, (bytes, list)) else list(s.encode("utf-8"))      # a list is raw bytes


def jtree(t):
    """python tree -> harness JSON (strings wrapped so that they stay distinguishable from tables)"""
    if isinstance(t, bool) or isinstance(t, int):
        return t
    if isinstance(t, str):
        return {"$s": jb(t)}
    if isinstance(t, list):
        return [jtree(x) for x in t]
    return {k: jtree(v) for k, v in t.items()}


def cq_str(s):
    return cq_bytes(bytes(s) if isinstance(s, (bytes, list)) else s.encode("utf-8"))


def cq_tbl(t):
    """python dict -> list (bytes * tv) term (keys sorted)"""
    s = cq_tv(t)
    return s[len("(TTbl "):-1]


class C07:
    id = "C07"
    stream = "c07"
    translator_prefixes = ["serde schema"]
    coq_targets = ["theories/Checks/C07Hold.vo", "theories/Checks/C07Agree.vo", "theories/Props/C07.vo"]
    hold_target = "theories/Checks/C07Hold.vo"
    agree_target = "theories/Checks/C07Agree.vo"
    hold_mod = "C07Hold"
    agree_mod = "C07Agree"
    per_shard = 100
    extra_imports = "From LV Require Import Toml Serde SpecDocs Builders.\n"
    rule = ("builder call sequences: BuildPlanBuilder over {provides, requires(+nested metadata), or} in any order "
            "incl. leading/trailing/double `or` (all sequences of length <=4 over 3 call kinds plus seeded longer "
            "ones); LaunchBuilder/ProcessBuilder over {process(+arg/default/working_directory calls), label, "
            "slice}; LayerContentMetadata, Store, PackageDescriptor values; exec.d output maps (also through fd 3 of "
            "a child process); string payloads with quotes, backslashes, control characters, newlines, Unicode, "
            "empty. The written text is parsed by Python tomllib (TOML 1.0) and judged in Coq. non-trivial = "
            "document with at least one entry.")
    trusted_base = [
        "Coq 8.16.1 kernel + vm_compute",
        "Python tomllib as the independent TOML 1.0 reader of the text layer",
        "Serde.v encode as model of serde Serialize + toml data model (validated by tree-level correspondence)",
        "translator schema extraction; harness",
    ]
    assumptions = ["no floats/datetimes; metadata tables contain strings, integers, booleans, arrays, tables"]

    def corpus(self):
        return []

    def meta(self, rng, depth=0):
        d = {}
        for _ in range(rng.randint(0, 3)):
            k = rng.choice(["k", "a-b", "n", "x y", "é", "q\"k", ""])
            r = rng.random()
            if r < 0.35:
                d[k] = rng.choice(STRS)
            elif r < 0.5:
                d[k] = rng.choice([0, -3, 2 ** 53 + 1])
            elif r < 0.6:
                d[k] = rng.choice([True, False])
            elif r < 0.8 and depth < 2:
                d[k] = self.meta(rng, depth + 1)
            else:
                d[k] = [rng.choice(STRS) for _ in range(rng.randint(0, 2))]
        return d

    def plan_call(self, rng, kind=None):
        kind = kind or rng.choice(["provides", "requires", "or"])
        if kind == "provides":
            return {"c": "provides", "n": rng.choice(STRS)}
        if kind == "requires":
            call = {"c": "requires", "n": rng.choice(STRS), "m": self.meta(rng)}
            if rng.random() < 0.3:      # Require::metadata called more than once: defaults first, then the final table
                call["m0"] = [self.meta(rng) for _ in range(rng.randint(1, 2))]
            return call
        return {"c": "or"}

    def gen(self, rng, tier):
        import itertools
        cases = []
        for n in range(0, 5):
            for kinds in itertools.product(["provides", "requires", "or"], repeat=n):
                cases.append({"kind": "plan", "calls": [self.plan_call(rng, k) for k in kinds]})
        for _ in range(1500 if tier == "thorough" else 200):
            cases.append({"kind": "plan", "calls": [self.plan_call(rng) for _ in range(rng.randint(5, 10))]})
        for _ in range(2000 if tier == "thorough" else 350):
            calls = []
            for _ in range(rng.randint(0, 5)):
                r = rng.random()
                if r < 0.6:
                    pcs = []
                    for _ in range(rng.randint(0, 4)):
                        k = rng.choice(["arg", "default", "wd"])
                        pcs.append({"c": "arg", "a": rng.choice(STRS)} if k == "arg" else
                                   {"c": "default", "v": rng.choice([True, False])} if k == "default" else
                                   {"c": "wd", "d": rng.choice([None, ".", "/srv", "a b", "", "./dist", "caf\u00e9", list(b"dist/caf\xe9"), list(b"\xff\xfe")])})
                    calls.append({"c": "process", "ty": rng.choice(["web", "worker", "a.b_c-1"]),
                                  "cmd": [rng.choice(STRS) for _ in range(rng.randint(0, 3))], "calls": pcs})
                elif r < 0.8:
                    calls.append({"c": "label", "k": rng.choice(STRS), "v": rng.choice(STRS)})
                else:
                    calls.append({"c": "slice", "paths": [rng.choice(STRS) for _ in range(rng.randint(0, 2))]})
            # (positions at which an intermediate Launch is built from the same builder and discarded)
            cases.append({"kind": "launch", "calls": calls,
                          "snapshots": [i for i in range(len(calls)) if rng.random() < 0.25]})
        for _ in range(1000 if tier == "thorough" else 200):
            cases.append({"kind": "layer", "types": None if rng.random() < 0.3 else [rng.choice([True, False]) for _ in range(3)],
                          "metadata": None if rng.random() < 0.3 else self.meta(rng)})
            cases.append({"kind": "store", "metadata": self.meta(rng)})
            cases.append({"kind": "package", "uri": rng.choice([".", "../x", "/abs/p", "docker://r/i:1", "libcnb:a/b", "https://h/p?q=1#f"]),
                          "deps": [rng.choice(["libcnb:x/y", "../b", "docker://d/e", "a%20b", "urn:x:y"]) for _ in range(rng.randint(0, 3))],
                          "os": rng.choice(["linux", "windows"])})
            keys = rng.sample(["A", "B_c", "d-e", "Z9", "_"], rng.randint(0, 4))
            cases.append({"kind": "execd", "pairs": [[k, rng.choice(STRS)] for k in keys], "fd3": rng.random() < 0.15})
        return cases

    # a longer document already at the destination (every third case): what is written must not depend on it
    OLD = list(b'# left by an earlier build\nold = "' + b"v" * 3000 + b'"\n\n[tail]\nz = 1\n\n[[processes]]\ntype = "stale"\n')

    def to_harness(self, c):
        h = {"id": c["id"], "kind": c["kind"], "pre": self.OLD if c["id"] % 3 == 0 else None}
        if c["kind"] == "plan":
            h["calls"] = [dict(x, n=jb(x["n"])) if "n" in x else x for x in c["calls"]]
            for x in h["calls"]:
                if "m" in x:
                    x["m"] = jtree(x["m"])
                if "m0" in x:
                    x["m0"] = [jtree(m) for m in x["m0"]]
        elif c["kind"] == "launch":
            calls = []
            for x in c["calls"]:
                if x["c"] == "process":
                    calls.append({"c": "process", "ty": jb(x["ty"]), "cmd": [jb(s) for s in x["cmd"]],
                                  "calls": [{"c": "arg", "a": jb(p["a"])} if p["c"] == "arg" else
                                            {"c": "wd", "d": None if p["d"] is None else jb(p["d"])} if p["c"] == "wd" else p
                                            for p in x["calls"]]})
                elif x["c"] == "label":
                    calls.append({"c": "label", "k": jb(x["k"]), "v": jb(x["v"])})
                else:
                    calls.append({"c": "slice", "paths": [jb(s) for s in x["paths"]]})
            h["calls"] = calls
            h["snapshots"] = c.get("snapshots", [])
        elif c["kind"] == "layer":
            h["types"] = c["types"]
            h["metadata"] = None if c["metadata"] is None else jtree(c["metadata"])
        elif c["kind"] == "store":
            h["metadata"] = jtree(c["metadata"])
        elif c["kind"] == "package":
            h.update({"uri": jb(c["uri"]), "deps": [jb(d) for d in c["deps"]], "os": c["os"]})
        elif c["kind"] == "execd":
            h["pairs"] = [[jb(k), jb(v)] for k, v in c["pairs"]]
        return h

    def run_impl(self, cases, workdir):
        obs = run_harness(self.stream, [self.to_harness(c) for c in cases], workdir)
        for c in cases:
            o = obs[c["id"]]
            o["tree"] = None
            if o.get("text") is not None:
                try:
                    o["tree"] = tomllib.loads(bytes(o["text"]).decode("utf-8"))
                    o["valid_toml"] = True
                except Exception as e:  # not TOML 1.0 (or not UTF-8): a violation of the property
                    o["valid_toml"] = False
                    o["toml_error"] = str(e)[:200]
            if c["kind"] == "execd" and c.get("fd3"):
                out = os.path.join(workdir, f"fd3_{c['id']}.toml")
                with open(out, "wb") as f:
                    e = dict(os.environ, VERIF_EXECD=json.dumps([[jb(k), jb(v)] for k, v in c["pairs"]]))
                    p = subprocess.run(["bash", "-c", f'exec "{HARNESS_BIN}" execd_child 3>&{f.fileno()}'], env=e,
                                       pass_fds=[f.fileno()], capture_output=True, timeout=60)
                try:
                    o["fd3"] = tomllib.loads(open(out, "rb").read().decode("utf-8")) if p.returncode == 0 else "FAILED"
                except Exception:
                    o["fd3"] = "FAILED"
        return obs

    def cq_plan_call(self, x):
        if x["c"] == "provides":
            return f"(CProvides {cq_str(x['n'])})"
        if x["c"] == "requires":
            return f"(CRequires {cq_str(x['n'])} {cq_tbl(x['m'])})"
        return "COr"

    def cq_lcall(self, x):
        if x["c"] == "process":
            pcs = cq_list([f"(PArg {cq_str(p['a'])})" if p["c"] == "arg" else f"(PDefault {cq_bool(p['v'])})" if p["c"] == "default"
                           else ("(PWorkDir None)" if p["d"] is None else f"(PWorkDir (Some {cq_str(p['d'])}))") for p in x["calls"]])
            return f"(LProcess {cq_str(x['ty'])} {cq_list([cq_str(s) for s in x['cmd']])} {pcs})"
        if x["c"] == "label":
            return f"(LLabel {cq_str(x['k'])} {cq_str(x['v'])})"
        return f"(LSlice {cq_list([cq_str(s) for s in x['paths']])})"

    def doc_value(self, c):
        def rec(items):
            return "(VRec %s)" % cq_list([f"({cq_str(k)}, {v})" for k, v in items])
        if c["kind"] == "layer":
            t = c["types"]
            types = "(VOpt None)" if t is None else "(VOpt (Some %s))" % rec([("launch", f"(VBool {cq_bool(t[0])})"), ("build", f"(VBool {cq_bool(t[1])})"), ("cache", f"(VBool {cq_bool(t[2])})")])
            md = "(VOpt None)" if c["metadata"] is None else f"(VOpt (Some (VTbl {cq_tbl(c['metadata'])})))"
            return "DLayer", rec([("types", types), ("metadata", md)])
        if c["kind"] == "store":
            return "DStore", rec([("metadata", f"(VTbl {cq_tbl(c['metadata'])})")])
        deps = cq_list([rec([("uri", f"(VStr {cq_str(d)})")]) for d in c["deps"]])
        return "DPackage", rec([("buildpack", rec([("uri", f"(VStr {cq_str(c['uri'])})")])), ("dependencies", f"(VList {deps})"),
                                ("platform", rec([("os", "(VUnit %d%%nat)" % (1 if c["os"] == "windows" else 0))]))])

    def to_coq(self, c, o):
        tree = "None" if o.get("tree") is None else f"(Some {cq_tv(o['tree'])})"
        rb = "None" if o.get("readback") is None else f"(Some {cq_sval(o['readback'])})"
        if c["kind"] == "plan":
            return f"(CPlan {cq_list([self.cq_plan_call(x) for x in c['calls']])} {tree})"
        if c["kind"] == "launch":
            return f"(CLaunch {cq_list([self.cq_lcall(x) for x in c['calls']])} {tree} {rb})"
        if c["kind"] == "execd":
            pairs = cq_list([f"({cq_str(k)}, {cq_str(v)})" for k, v in c["pairs"]])
            fd3 = "None"
            if "fd3" in o:
                fd3 = "(Some None)" if o["fd3"] == "FAILED" else f"(Some (Some {cq_tv(o['fd3'])}))"
            return f"(CExecd {pairs} {tree} {fd3})"
        k, v = self.doc_value(c)
        return f"(CDoc {k} {v} {tree} {rb})"

    def nontrivial(self, c, o):
        return bool(c.get("calls") or c.get("pairs") or c.get("metadata") or c.get("deps") or c.get("types"))

    def classify(self, c, o):
        if o.get("text") is not None and not o.get("valid_toml", False):
            return "invalid-toml"
        return c["kind"]

    def shrink(self, c):
        if "calls" in c:
            for i in range(len(c["calls"])):
                yield dict(c, calls=c["calls"][:i] + c["calls"][i + 1:], snapshots=[s - (s > i) for s in c.get("snapshots", []) if s != i])
            for i, x in enumerate(c["calls"]):
                if x.get("calls"):
                    for j in range(len(x["calls"])):
                        nc = list(c["calls"])
                        nc[i] = dict(x, calls=x["calls"][:j] + x["calls"][j + 1:])
                        yield dict(c, calls=nc)
        if c.get("pairs"):
            for i in range(len(c["pairs"])):
                yield dict(c, pairs=c["pairs"][:i] + c["pairs"][i + 1:])
        if c.get("metadata"):
            for k in list(c["metadata"]):
                m = dict(c["metadata"]); del m[k]
                yield dict(c, metadata=m)

    def sample(self, c, o):
        return {"kind": c["kind"], "input": {k: v for k, v in c.items() if k not in ("id",)},
                "text": None if o.get("text") is None else bytes(o["text"]).decode("utf-8", "replace")[:400]}

    def distribution(self, cases, obs):
        d = {"kind": {}, "invalid_toml": 0, "fd3_runs": 0}
        for c in cases:
            d["kind"][c["kind"]] = d["kind"].get(c["kind"], 0) + 1
            o = obs[c["id"]]
            if o.get("text") is not None and not o.get("valid_toml", False):
                d["invalid_toml"] += 1
            if "fd3" in o:
                d["fd3_runs"] += 1
        return d


PROP = C07()
