"""C12 -- a failed file operation in layer handling or output writing is reported."""
import os
import shutil
import subprocess

import bprun
from common import *  # noqa
from props.c01 import gen_req, gen_write, NAMES, bl, PROP as C01P
from props.c02 import gen_layer, PROBES, PROP as C02P
from props.c05 import base_cfg

SHIM_SRC = os.path.join(VERIF, "harness", "shim", "fault.c")
SHIM = os.path.join(BUILD, "libfault.so")
ERRNOS = [5, 13, 28]        # EIO, EACCES, ENOSPC


def build_shim():
    if not os.path.exists(SHIM) or os.path.getmtime(SHIM) < os.path.getmtime(SHIM_SRC):
        rc, out = run(["gcc", "-shared", "-fPIC", "-O1", "-o", SHIM, SHIM_SRC, "-ldl"])
        if rc != 0:
            raise RuntimeError("cannot build the fault-injection shim:\n" + out)
    os.chmod(SHIM, 0o755)


class C12:
    id = "C12"
    stream = "c12"
    translator_prefixes = ["io sites"]
    coq_targets = ["theories/Checks/C12Hold.vo", "theories/Checks/C12Agree.vo", "theories/Props/C12.vo"]
    hold_target = "theories/Checks/C12Hold.vo"
    agree_target = "theories/Checks/C12Agree.vo"
    hold_mod = "C12Hold"
    agree_mod = "C12Agree"
    per_shard = 40
    rule = ("operations on prepared states: a struct-API request (cached/uncached, all decision kinds) followed by at "
            "most one LayerRef write (metadata / env / SBOMs / exec.d / plain file), or a trait-API handle_layer "
            "(create / update / keep / recreate / migrate paths), each on a layers directory prepared by a 1..3 step "
            "history of the same kinds; and the detect and build phases of the test buildpack executable writing the "
            "build plan, launch.toml, store.toml and build/launch SBOMs over stale outputs. The operation runs in a "
            "child process under an LD_PRELOAD shim that counts open/openat, read/write on descriptors below the "
            "layers (or plan) directory, mkdir, unlink, rmdir, rename, chmod, symlink; the fault-free run gives n, "
            "then every position k in 1..n fails once (errno rotating over EIO, EACCES, ENOSPC; thorough: all three). "
            "non-trivial = n > 0.")
    trusted_base = [
        "Coq 8.16.1 kernel + vm_compute",
        "Rust's `?` / tail-expression semantics: a site that hands its Err on ends the function (FaultProp.run); every "
        "execution is a sequence of site executions (modelling assumption)",
        "translator: syntactic classification of how each fallible file-system call site consumes its Result "
        "(translator/src/io_sites.rs, 90 sites in 9 files); Matched sites reviewed by name in C12Agree.spec_reviewed",
        "harness/shim/fault.c: libc interposition (std's copy_file_range / statx go through raw syscalls and are not "
        "injectable; stat-family calls are not counted); harness c12 stream; bprun for the phase executables",
    ]
    assumptions = ["ENOENT on the best-effort deletes (default_on_not_found) is excluded by the property",
                   "faults are injected below the layers directory (layer operations, build phase) or the plan directory (detect phase)"]

    def corpus(self):
        return []

    def gen(self, rng, tier):
        cases = []
        nl = 40 if tier == "thorough" else 14
        for i in range(nl):
            prep = []
            for _ in range(rng.randint(1, 3)):
                if rng.random() < 0.5:
                    prep.append(C01P.to_harness({"id": 0, "names": NAMES, "ops": [gen_req(rng)]})["ops"][0])
                else:
                    prep.append(C02P.to_harness({"id": 0, "names": NAMES, "ops": [{"op": "handle", "n": rng.choice(NAMES), "layer": gen_layer(rng)}]})["ops"][0])
            if rng.random() < 0.15:
                prep.append({"op": "restore"})
            if rng.random() < 0.55:
                r = gen_req(rng)
                r["writes"] = [gen_write(rng)] if rng.random() < 0.7 else []
                if r["q"]["kind"] == "cached":
                    r["q"]["res"]["d"] = rng.choice(["keep", "delete"])
                    if r["q"]["inv"]["d"] == "err":
                        r["q"]["inv"] = {"d": "delete", "cause": 1}
                for w in r["writes"]:
                    if w["w"] == "execd":
                        w["progs"] = [p for p in w["progs"] if p[1] is not None]
                op = C01P.to_harness({"id": 0, "names": NAMES, "ops": [r]})["ops"][0]
                op["n"] = prep[0]["n"] if "n" in prep[0] and rng.random() < 0.7 else op["n"]
            else:
                L = gen_layer(rng)
                L["strategy"] = rng.choice(["keep", "update", "recreate"])
                if L["migrate"]["d"] == "err":
                    L["migrate"] = {"d": "recreate"}
                for key in ("create", "update"):
                    if L[key] is None:
                        L[key] = {"md": {"version": "1"}, "env": None, "execd": [], "sboms": [], "files": []}
                    L[key]["execd"] = [p for p in L[key]["execd"] if p[1] is not None]
                op = C02P.to_harness({"id": 0, "names": NAMES, "ops": [{"op": "handle", "n": rng.choice(NAMES), "layer": L}]})["ops"][0]
                op["n"] = prep[0]["n"] if "n" in prep[0] and rng.random() < 0.7 else op["n"]
            # somebody left dangling symbolic links where the layer's SBOM files go: removing them can fail too
            if i % 3 == 0:
                for sfx in rng.sample(["cdx.json", "spdx.json", "syft.json"], rng.choice([1, 2, 3])):
                    prep.append({"op": "plant", "path": op["n"] + bl(".sbom." + sfx), "target": bl("gone-" + sfx)})
            cases.append({"kind": "layer", "names": [bl(n) for n in NAMES], "probes": PROBES, "prep": prep, "op": op,
                          "errnos": ERRNOS, "all_errnos": tier == "thorough"})
        # designed operations that write back what they read (trait API: metadata of the wrong shape on disk,
        # migrate_incompatible_metadata = replace, then keep / update): a failed READ of an env file, of the
        # layer TOML or of an exec.d / SBOM source must not be swallowed
        def env_all(v):
            return [{"s": {"k": k}, "b": "override", "n": bl(n), "v": bl(v)} for k, n in (("all", "A"), ("build", "B"), ("launch", "PATH"))] + \
                   [{"s": {"k": "process", "p": bl("web")}, "b": "append", "n": bl("X"), "v": bl(v)}]
        for strategy in ("keep", "update"):
            first = {"types": {"launch": True, "build": True, "cache": True}, "m": "G", "strategy": "keep", "migrate": {"d": "recreate"},
                     "create": {"md": {"other": True}, "env": env_all("v1"), "execd": [[bl("p1"), [0o755, bl("#!/bin/sh\n")]]],
                                "sboms": [[0, bl("{}")]], "files": [[[bl("bin"), bl("tool")], bl("x")]]},
                     "update": {"md": {"other": True}, "env": [], "execd": [], "sboms": [], "files": []}}
            second = {"types": {"launch": True, "build": False, "cache": True}, "m": "V", "strategy": strategy,
                      "migrate": {"d": "replace", "md": {"version": "2.0"}},
                      "create": {"md": {"version": "1"}, "env": [], "execd": [], "sboms": [], "files": []},
                      "update": {"md": {"version": "2.0"}, "env": env_all("v2"), "execd": [], "sboms": [[1, bl("{}")]], "files": []}}
            prep = [C02P.to_harness({"id": 0, "names": NAMES, "ops": [{"op": "handle", "n": "a", "layer": first}]})["ops"][0], {"op": "restore"}]
            op = C02P.to_harness({"id": 0, "names": NAMES, "ops": [{"op": "handle", "n": "a", "layer": second}]})["ops"][0]
            cases.append({"kind": "layer", "names": [bl(n) for n in NAMES], "probes": PROBES, "prep": prep, "op": op,
                          "errnos": ERRNOS, "all_errnos": tier == "thorough"})
        # struct API: a restored layer whose metadata has another shape than the request's type (the TOML is read a second
        # time, generically, for the invalid-metadata callback): a failure of THAT read is an error too
        for inv in ({"d": "delete", "cause": 1}, {"d": "migrate", "cause": 3, "version": "2"}):
            first = {"op": "req", "n": "a", "q": {"kind": "cached", "launch": True, "build": False, "m": "G", "inv": {"d": "delete", "cause": 1},
                                                  "res": {"d": "keep", "cause": 2}},
                     "writes": [{"w": "meta", "md": {"other": True}}, {"w": "file", "rel": [bl("bin"), bl("tool")], "data": bl("t")}]}
            second = {"op": "req", "n": "a", "q": {"kind": "cached", "launch": True, "build": False, "m": "V", "inv": inv,
                                                   "res": {"d": "keep", "cause": 2}}, "writes": []}
            h = C01P.to_harness({"id": 0, "names": NAMES, "ops": [first, {"op": "restore"}, second]})
            cases.append({"kind": "layer", "names": h["names"], "probes": PROBES, "prep": h["ops"][:2], "op": h["ops"][2],
                          "errnos": ERRNOS, "all_errnos": tier == "thorough"})
        phases = [base_cfg(exe="build", nargs=3, store="ok", pre=True,
                           build={"error": False, "launch": True, "store": True, "build_sboms": ["cdx", "spdx", "syft"], "launch_sboms": ["cdx", "syft"]}),
                  base_cfg(exe="build", nargs=3, store="missing", pre=False,
                           build={"error": False, "launch": True, "store": False, "build_sboms": [], "launch_sboms": ["spdx"]}),
                  base_cfg(exe="detect", nargs=2, det="pass_plan", pre=True),
                  base_cfg(exe="detect", nargs=2, det="pass", pre=False)]
        for ph in phases:
            cases.append({"kind": "phase", "cfg": ph, "all_errnos": tier == "thorough"})
        return cases

    # ------------------------------------------------------------------ running
    def run_phase(self, c, workdir):
        root = os.path.join(workdir, f"ph_{c['id']}")
        prefix = os.path.join(root, "layers" if c["cfg"]["exe"] == "build" else "plandir")
        log = os.path.join(workdir, f"ph_{c['id']}.log")

        def one(k, e):
            if os.path.exists(log):
                os.remove(log)
            open(log, "w").close()
            os.chmod(log, 0o666)
            cfg = dict(c["cfg"], want_tree=True, extra_env={"LD_PRELOAD": SHIM, "VERIF_FAULT_PREFIX": prefix, "VERIF_FAULT_K": str(k),
                                                          "VERIF_FAULT_ERRNO": str(e), "VERIF_FAULT_LOG": log})
            try:
                o = bprun.run_one(cfg, root)
            finally:
                shutil.rmtree(root, ignore_errors=True)
            lines = [l.split(" ", 1)[1].strip() for l in open(log).read().splitlines() if " " in l]
            return o, lines
        o0, log0 = one(0, 5)
        runs = []
        for k in range(1, len(log0) + 1):
            for e in (ERRNOS if c["all_errnos"] else [ERRNOS[k % 3]]):
                o, lg = one(k, e)
                runs.append({"k": k, "errno": e, "ok": o["exit"] == 0, "crash": o["exit"] < 0, "calls": len(lg), "same_as_ok": o["tree"] == o0["tree"],
                             "call": log0[k - 1], "exit": o["exit"]})
        return {"id": c["id"], "n": len(log0), "ok": o0["exit"] == 0, "log_ok": log0, "runs": runs}

    def run_impl(self, cases, workdir):
        build_shim()
        sb = os.path.join(workdir, "sandbox")
        os.makedirs(sb, exist_ok=True)
        os.chmod(workdir, 0o755)
        layer = [c for c in cases if c["kind"] == "layer"]
        obs = run_harness(self.stream, layer, workdir, extra_env={"VERIF_SANDBOX": sb, "VERIF_FAULT_SHIM": SHIM}) if layer else {}
        pdir = os.path.join(workdir, "phase")
        os.makedirs(pdir, exist_ok=True)
        os.chmod(pdir, 0o755)
        for c in cases:
            if c["kind"] == "phase":
                obs[c["id"]] = self.run_phase(c, pdir)
        return obs

    def to_coq(self, c, o):
        runs = cq_list(["(mkRun %d%%nat %d %s %s %d%%nat %s)" % (r["k"], r["errno"], cq_bool(bool(r["ok"])), cq_bool(bool(r.get("crash"))), r["calls"],
                                                            cq_bool(r["same_as_ok"])) for r in o["runs"]])
        return "(mkCase %d%%nat %s %s)" % (o["n"], cq_bool(bool(o["ok"])), runs)

    def nontrivial(self, c, o):
        return o["n"] > 0

    def classify(self, c, o):
        return "fault"

    def shrink(self, c):
        if c["kind"] == "layer":
            for i in range(len(c["prep"])):
                yield dict(c, prep=c["prep"][:i] + c["prep"][i + 1:])

    def sample(self, c, o):
        return {"kind": c["kind"], "op": (c["op"].get("op"), c["op"].get("q", {}).get("kind") or c["op"].get("layer", {}).get("strategy")) if c["kind"] == "layer" else c["cfg"]["exe"],
                "n": o["n"], "calls": o["log_ok"][:12], "faults": len(o["runs"]),
                "reported": sum(1 for r in o["runs"] if not r["ok"])}

    def explain(self, c, o):
        bad = [r for r in o["runs"] if r["ok"] and not r["same_as_ok"] or r.get("crash")]
        return "fault-free ok=%s n=%d; offending runs: %s" % (o["ok"], o["n"], bad[:5])

    def distribution(self, cases, obs):
        d = {"operations": {"layer": 0, "phase": 0}, "faults_injected": 0, "reported_as_error": 0, "success_same_dir": 0, "by_call": {}, "by_errno": {}}
        for c in cases:
            o = obs[c["id"]]
            d["operations"][c["kind"]] += 1
            for r in o["runs"]:
                d["faults_injected"] += 1
                d["reported_as_error"] += not r["ok"]
                d["success_same_dir"] += bool(r["ok"] and r["same_as_ok"])
                k = r["call"].split(" ")[0]
                d["by_call"][k] = d["by_call"].get(k, 0) + 1
                d["by_errno"][str(r["errno"])] = d["by_errno"].get(str(r["errno"]), 0) + 1
        return d


PROP = C12()
