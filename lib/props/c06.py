"""C06 -- detect/build contexts faithfully reflect what the platform supplied."""
from common import *  # noqa
from tomlgen import *  # noqa
from fsgen import cq_tv, cq_fs
import bprun
import c05 as c05mod
import c08 as c08mod

NAMES = [b"FOO", b"B.c", b"with space", b"\xc3\xa9", b"A=B", b".hidden", b"UPPER_lower-1", b"\xff\xfe", b"x" * 40]
CONTENTS = [b"", b"v", b"multi\nline\n", b" padded ", b"\xc3\xa9\xe2\x98\x83", b"tab\there", b"\xff\xfe", b"\xc0\x80", b"\xed\xa0\x80",
            b"\xf4\x8f\xbf\xbf", b"\xf4\x90\x80\x80", b"trailing\n"]


def b(x):
    return list(x)


class C06:
    id = "C06"
    stream = "c06"
    translator_prefixes = ["serde schema", "runtime.rs"]
    coq_targets = ["theories/Checks/C06Hold.vo", "theories/Checks/C06Agree.vo", "theories/Props/C06.vo"]
    hold_target = "theories/Checks/C06Hold.vo"
    agree_target = "theories/Checks/C06Agree.vo"
    hold_mod = "C06Hold"
    agree_mod = "C06Agree"
    per_shard = 60
    extra_imports = "From LV Require Import Toml FS Serde SpecDocs Platform.\n"
    rule = ("generated platform directories (files with arbitrary names -- spaces, '=', dots, non-UTF-8 -- and "
            "contents -- empty, newlines, padding, valid multi-byte and invalid UTF-8 incl. overlong, surrogate and "
            ">U+10FFFF forms; sub-directories; symlinks to files, to directories, dangling; missing env directory), "
            "buildpack plans / store tables / descriptor metadata built from nested TOML values, all presence "
            "combinations of the CNB_TARGET_* variables incl. non-Unicode values; the test buildpack dumps the context "
            "it was handed. non-trivial = the phase was entered.")
    trusted_base = [
        "Coq 8.16.1 kernel + vm_compute",
        "FS.v (readdir / is_file following symlinks / read) and Serde.v as environment models",
        "translator: schemas, shape of context_target",
        "test buildpack + Python runner (lib/bprun.py); std::env::var semantics (NotUnicode) as modelled by utf8_valid",
    ]
    assumptions = ["platform env file names are listed by the kernel as given (no normalisation)"]

    def corpus(self):
        c = self.mk(c05mod.base_cfg(), [], {"variant": [255]})
        return [c]

    def mk(self, cfg, tree, env_values=None, plan=None, store=None, meta=None):
        cfg = dict(cfg)
        cfg["platform_tree"] = tree
        cfg["env_values"] = env_values or {}
        cfg["plan_doc"] = plan if plan is not None else {"entries": [{"name": "x"}]}
        cfg["store_doc"] = store
        cfg["meta_doc"] = meta
        return cfg

    def gen(self, rng, tier):
        cases = []
        g8 = c08mod.PROP
        n = 1500 if tier == "thorough" else 320
        for _ in range(n):
            exe = rng.choice(["detect", "build"])
            cfg = c05mod.base_cfg(exe=exe, nargs=2 if exe == "detect" else 3)
            # CNB_BUILDPACK_DIR as given: a plain path, a symlink to the directory, or a path with a `..` component
            cfg["bp_form"] = rng.choice(["plain", "plain", "symlink", "dotdot"])
            # CNB_APP_DIR in the environment: the working directory, absent, or some other directory
            cfg["app_env"] = rng.choice(["same", "same", "absent", "other", "other"])
            # the platform directory handed over under a name that is not UTF-8 (one case in twelve)
            cfg["odd_platform"] = rng.random() < 0.08
            # an earlier detect call for ANOTHER buildpack directory in the same process: nothing of it shows later
            cfg["prime"] = rng.random() < 0.25
            tree = []
            used = set()
            for _ in range(rng.randint(0, 5)):
                nm = rng.choice(NAMES)
                if nm in used:
                    continue
                used.add(nm)
                r = rng.random()
                if r < 0.6:
                    c = rng.choice(CONTENTS[:6]) if rng.random() < 0.8 else rng.choice(CONTENTS)
                    tree.append({"name": b(nm), "k": "f", "c": b(c)})
                elif r < 0.75:
                    tree.append({"name": b(nm), "k": "d", "inner": rng.random() < 0.5})
                else:
                    others = [bytes(e["name"]) for e in tree] or [b"nope"]
                    tree.append({"name": b(nm), "k": "l", "t": b(rng.choice(others + [b"nope", b".", b"../outside"]))})
            r = rng.random()
            if r < 0.1:
                cfg["plat"] = "env_missing"
                tree = []
            ev = {}
            for k in ("os", "arch", "variant", "dname", "dver"):
                rr = rng.random()
                if rr < 0.08:
                    cfg["vars"] = dict(cfg["vars"], **{k: False})
                elif rr < 0.16:
                    ev[k] = list(rng.choice([b"\xff", b"ok\xc0\x80", b""]))
                elif rr < 0.3:
                    # values are passed on as they are: quotes, surrounding blanks and line ends belong to them
                    ev[k] = list(rng.choice([b"v\xc3\xa9", b"a b", b"", b'"22.04"', b"'alpine'", b" 20230201\n", b'6"', b"\tx ", b"V8"]))
            plan = g8.valid(rng, "plan")
            # a plan that cannot be represented (a key the format does not define, in an entry or at the top): the phase
            # reports an error instead of handing over a context without it
            r = rng.random()
            if r < 0.1 and plan.get("entries"):
                plan["entries"][rng.randrange(len(plan["entries"]))][rng.choice(["version", "metdata", "Name"])] = "3.3"
            elif r < 0.14:
                plan[rng.choice(["entry", "Entries"])] = []
            store = g8.valid(rng, "store") if rng.random() < 0.6 else None
            meta = g8.meta(rng) if rng.random() < 0.6 else None
            cases.append(self.mk(cfg, tree, ev, plan, store, meta))
            # a store.toml that is present but cannot be read as text (not UTF-8, a directory): an error, never
            # "no previous store" -- only a missing file may be tolerated
            if rng.random() < 0.12 and cfg["exe"] == "build":
                cases[-1]["store_unreadable"] = rng.choice(["nonutf8", "isdir"])
        return cases

    def desc_doc(self, c):
        d = {"api": "0.10", "buildpack": {"id": "verif/test", "version": "0.0.1"}}
        if c.get("meta_doc") is not None:
            d["metadata"] = c["meta_doc"]
        return d

    def run_impl(self, cases, workdir):
        sb = os.path.join(workdir, "bp")
        os.makedirs(sb, exist_ok=True)
        os.chmod(workdir, 0o755)
        for c in cases:
            c["desc_text"] = render_doc(self.desc_doc(c), 1)
            c["plan_text"] = render_doc(c["plan_doc"], 0)
            if c.get("store_unreadable"):
                c["store"] = c["store_unreadable"]
            elif c["store_doc"] is not None:
                c["store"] = "ok"
                c["store_text"] = render_doc(c["store_doc"], 1)
            else:
                c["store"] = "missing"
        obs = bprun.run_many(cases, sb)
        for c in cases:
            obs[c["id"]]["root"] = os.path.join(sb, f"bp_{c['id']}")
        return obs

    def platform_fs(self, c):
        nodes = [{"p": [], "k": "d", "m": 0o755}]
        if c["plat"] != "env_missing":
            nodes.append({"p": [b(b"env")], "k": "d", "m": 0o755})
            for e in c["platform_tree"]:
                p = [b(b"env"), e["name"]]
                if e["k"] == "f":
                    nodes.append({"p": p, "k": "f", "m": 0o644, "c": e["c"]})
                elif e["k"] == "d":
                    nodes.append({"p": p, "k": "d", "m": 0o755})
                    if e.get("inner"):
                        nodes.append({"p": p + [b(b"inner")], "k": "f", "m": 0o644, "c": b(b"x")})
                else:
                    nodes.append({"p": p, "k": "l", "t": e["t"]})
        return nodes

    def to_coq(self, c, o):
        ev = c["env_values"]
        dflt = {"os": b"linux", "arch": b"amd64", "variant": b"v8", "dname": b"ubuntu", "dver": b"24.04"}

        def var(k):
            if not c["vars"][k]:
                return "None"
            v = ev.get(k, dflt[k])
            return f"(Some {cq_bytes(v)})"
        tv_vars = "(mkTV %s %s %s %s %s)" % tuple(var(k) for k in ("os", "arch", "variant", "dname", "dver"))
        phase = "PhBuild" if c["exe"] == "build" else "PhDetect"
        store = "None" if c["store_doc"] is None else f"(Some {cq_tv(c['store_doc'])})"
        if c.get("store_unreadable"):
            store = "(Some (TStr []))"       # present, but not a document: decoding it as a Store fails
        inputs = f"(mkIn {phase} {cq_fs(self.platform_fs(c))} {tv_vars} {cq_tv(self.desc_doc(c))} {cq_tv(c['plan_doc'])} {store})"
        ctx = o.get("build_context") if c["exe"] == "build" else o.get("detect_context")
        entered = (o["build_entered"] if c["exe"] == "build" else o["detect_entered"]) == 1
        if not entered and c.get("odd_platform") and o["exit"] not in (0, 100) and ctx is None:
            # arguments that cannot be represented as strings: refusing to run (any failure status) is a reported error;
            # for the model this is an input that cannot be represented (a descriptor that is not a table)
            unrep = f"(mkIn {phase} {cq_fs(self.platform_fs(c))} {tv_vars} (TStr []) {cq_tv(c['plan_doc'])} {store})"
            return f"(mkCase {unrep} None)"
        if not entered:
            ok_err = o["exit"] == 1 and o["on_error"] == 1 and ctx is None
            return f"(mkCase {inputs} None)" if ok_err else f"(mkCase {inputs} (Some (mkObs [] (mkTarget [] [] None [] []) (VBool false) None None false)))"
        root = o["root"]
        t = ctx["target"]
        tgt = "(mkTarget %s %s %s %s %s)" % (cq_bytes(t["os"]), cq_bytes(t["arch"]),
                                            "None" if t["arch_variant"] is None else f"(Some {cq_bytes(t['arch_variant'])})",
                                            cq_bytes(t["distro_name"]), cq_bytes(t["distro_version"]))
        dirs_ok = bytes(ctx["app_dir"]).decode() == os.path.join(root, "app") and bytes(ctx["buildpack_dir"]).decode() == o.get("bp_env", os.path.join(root, "bp"))
        if c["exe"] == "build":
            dirs_ok = dirs_ok and bytes(ctx["layers_dir"]).decode() == os.path.join(root, "layers")
        plat = cq_list([f"({cq_bytes(k)}, {cq_bytes(v)})" for k, v in ctx["platform"]])
        plan = "None" if c["exe"] != "build" else f"(Some {cq_sval(ctx['plan'])})"
        if c["exe"] != "build":
            st = "None"
        else:
            st = "(Some None)" if ctx["store"] is None else f"(Some (Some {cq_sval(ctx['store'])}))"
        return f"(mkCase {inputs} (Some (mkObs {plat} {tgt} {cq_sval(ctx['descriptor'])} {plan} {st} {cq_bool(dirs_ok)})))"

    def nontrivial(self, c, o):
        return o["detect_entered"] + o["build_entered"] > 0

    def classify(self, c, o):
        ev = c["env_values"]
        if c["vars"]["variant"] and "variant" in ev:
            try:
                bytes(ev["variant"]).decode("utf-8")
            except UnicodeDecodeError:
                if o["detect_entered"] + o["build_entered"] > 0:
                    return "arch-variant-not-unicode-dropped"
        return "context"

    def shrink(self, c):
        t = c["platform_tree"]
        for i in range(len(t)):
            yield dict(c, platform_tree=t[:i] + t[i + 1:])
        for k in list(c["env_values"]):
            ev = dict(c["env_values"]); del ev[k]
            yield dict(c, env_values=ev)
        if c["store_doc"] is not None and not c.get("store_unreadable"):
            yield dict(c, store_doc=None)
        if c["meta_doc"]:
            yield dict(c, meta_doc=None)
        if c["plan_doc"].get("entries"):
            yield dict(c, plan_doc={"entries": []})

    def sample(self, c, o):
        return {"phase": c["exe"], "platform_env": [(bytes(e["name"]).decode("latin-1"), e["k"]) for e in c["platform_tree"]],
                "env_values": {k: bytes(v).decode("latin-1") for k, v in c["env_values"].items()},
                "entered": o["detect_entered"] + o["build_entered"], "exit": o["exit"]}

    def distribution(self, cases, obs):
        d = {"phase": {}, "entered": 0, "reported_error": 0, "entry_kinds": {}, "invalid_utf8_contents": 0}
        for c in cases:
            o = obs[c["id"]]
            d["phase"][c["exe"]] = d["phase"].get(c["exe"], 0) + 1
            if o["detect_entered"] + o["build_entered"]:
                d["entered"] += 1
            else:
                d["reported_error"] += 1
            for e in c["platform_tree"]:
                d["entry_kinds"][e["k"]] = d["entry_kinds"].get(e["k"], 0) + 1
                if e["k"] == "f":
                    try:
                        bytes(e["c"]).decode("utf-8")
                    except UnicodeDecodeError:
                        d["invalid_utf8_contents"] += 1
        return d


PROP = C06()
