"""C04 -- applying a layer environment follows the CNB modification rules exactly."""
import itertools
import os

from common import *  # noqa

BEHS = ["append", "default", "delim", "override", "prepend"]
BEH_COQ = {"append": "Append", "default": "Default", "delim": "Delim", "override": "Override", "prepend": "Prepend"}


def scope_json(k, p=None):
    return {"k": k} if p is None else {"k": "process", "p": list(p)}


def cq_scope(s):
    return {"all": "SAll", "build": "SBuild", "launch": "SLaunch"}.get(s["k"]) or f"(SProcess {cq_bytes(s['p'])})"


def cq_ins(i):
    return f"({cq_scope(i['s'])}, {BEH_COQ[i['b']]}, {cq_bytes(i['n'])}, {cq_bytes(i['v'])})"


def cq_pairs(ps):
    return cq_list([cq_pair(cq_bytes(k), cq_bytes(v)) for k, v in ps])


class C04:
    id = "C04"
    stream = "c04"
    translator_prefixes = ["layer_env.rs"]
    coq_targets = ["theories/Checks/C04Hold.vo", "theories/Checks/C04Agree.vo", "theories/Props/C04.vo"]
    hold_target = "theories/Checks/C04Hold.vo"
    agree_target = "theories/Checks/C04Agree.vo"
    hold_mod = "C04Hold"
    agree_mod = "C04Agree"
    per_shard = 700
    extra_imports = "From LV Require Import LayerEnv.\n"
    rule = ("exhaustive: every set of <=2 keys out of 40 (2 names x 5 behaviours x {all,build,launch,process web}) "
            "with values from {'', 'v'} (3201 layer envs), each under a rotating (query scope, start env) pair "
            "[thorough: the full product with 5 query scopes x 3 start envs]; plus seeded random layer envs of 3-8 "
            "inserts over byte-class names/values with repeated keys. A case is non-trivial when the queried scope "
            "sees at least one entry. ins2 is the reversed insert list.")
    trusted_base = [
        "Coq 8.16.1 kernel + vm_compute",
        "translator (syn): ModificationBehavior index table, LayerEnv::apply per-scope field lists, shape of cmp/fold tails",
        "correspondence harness (Rust, public LayerEnv::insert/apply API) and Python case generator",
        "hand-written model of LayerEnvDelta::apply loop body (validated by correspondence)",
    ]
    assumptions = [
        "Env/HashMap iteration order is unobservable in apply (model uses canonical sorted maps)",
        "OsString on unix = arbitrary bytes; names/values are byte strings",
    ]

    def corpus(self):
        return []

    def gen(self, rng, tier):
        names = [b"A", b"B"]
        scopes = [scope_json("all"), scope_json("build"), scope_json("launch"), scope_json("process", b"web")]
        keys = [(s, b, n) for s in scopes for b in BEHS for n in names]
        vals = [b"", b"v"]
        qscopes = scopes + [scope_json("process", b"other")]
        env0s = [[], [[list(b"A"), []], [list(b"B"), []]], [[list(b"A"), list(b"p")], [list(b"B"), list(b"q")]]]
        combos = list(itertools.product(range(len(qscopes)), range(len(env0s))))
        envs = [[]]
        for k in keys:
            for v in vals:
                envs.append([(k, v)])
        for k1, k2 in itertools.combinations(keys, 2):
            for v1 in vals:
                for v2 in vals:
                    envs.append([(k1, v1), (k2, v2)])
        cases = []
        for idx, ent in enumerate(envs):
            ins = [{"s": s, "b": b, "n": list(n), "v": list(v)} for (s, b, n), v in ent]
            if tier == "thorough":
                sel = combos
            else:
                sel = [combos[idx % len(combos)], combos[(idx * 7 + 3) % len(combos)]]
            for qi, ei in sel:
                cases.append({"ins": ins, "ins2": list(reversed(ins)), "scope": qscopes[qi], "env0": env0s[ei]})
        # random deeper
        alphabet = [65, 66, 46, 0x80, 0xFF, 32, 61, 10, 58]
        nrand = 20000 if tier == "thorough" else 2500

        def rbytes(lo, hi):
            return [rng.choice(alphabet) for _ in range(rng.randint(lo, hi))]
        for _ in range(nrand):
            pool = [rbytes(1, 3) for _ in range(3)]
            if rng.random() < 0.3:
                pool[0] = list(rng.choice([b"PATH", b"LD_LIBRARY_PATH", b"LIBRARY_PATH", b"CPATH", b"PKG_CONFIG_PATH", b"HOME", b"path"]))
            procs = [list(b"web"), list(b"worker")]
            ins = []
            for _ in range(rng.randint(3, 8)):
                k = rng.choice(["all", "all", "build", "launch", "process"])
                s = scope_json(k) if k != "process" else scope_json("process", rng.choice(procs))
                ins.append({"s": s, "b": rng.choice(BEHS), "n": rng.choice(pool), "v": rbytes(0, 3)})
            ins2 = ins[:]
            rng.shuffle(ins2)
            q = rng.choice(["all", "build", "launch", "process", "process"])
            qs = scope_json(q) if q != "process" else scope_json("process", rng.choice(procs + [list(b"zz")]))
            env0 = []
            for n in pool:
                r = rng.random()
                if r < 0.3:
                    env0.append([n, []])
                elif r < 0.7:
                    env0.append([n, rbytes(1, 3)])
            # dedupe env0 keys (HashMap semantics: last wins) -- keep as given; model uses bof_list
            cases.append({"ins": ins, "ins2": ins2, "scope": qs, "env0": env0})
        return cases

    def run_impl(self, cases, workdir):
        return run_harness(self.stream, cases, workdir)

    def to_coq(self, c, o):
        return ("(mkCase %s %s %s %s %s %s %s %s)" % (
            cq_list([cq_ins(i) for i in c["ins"]]), cq_list([cq_ins(i) for i in c["ins2"]]),
            cq_scope(c["scope"]), cq_pairs(c["env0"]), cq_pairs(o["out"]), cq_pairs(o["out2"]),
            cq_bool(o["le_eq"]), cq_bool(o["env0_unchanged"])))

    def nontrivial(self, c, o):
        q = c["scope"]
        return any(i["s"]["k"] == "all" or i["s"] == q for i in c["ins"])

    def classify(self, c, o):
        return "apply-result"

    def shrink(self, c):
        ins = c["ins"]
        for i in range(len(ins)):
            r = ins[:i] + ins[i + 1:]
            yield {"ins": r, "ins2": list(reversed(r)), "scope": c["scope"], "env0": c["env0"]}
        for i in range(len(c["env0"])):
            yield {"ins": ins, "ins2": c["ins2"], "scope": c["scope"], "env0": c["env0"][:i] + c["env0"][i + 1:]}
        if c["ins2"] != list(reversed(ins)):
            yield {"ins": ins, "ins2": list(reversed(ins)), "scope": c["scope"], "env0": c["env0"]}

    def sample(self, c, o):
        def b2s(b):
            return bytes(b).decode("latin-1")
        return {"inserts": [[i["s"].get("k") + ("/" + b2s(i["s"]["p"]) if "p" in i["s"] else ""), i["b"], b2s(i["n"]), b2s(i["v"])] for i in c["ins"]],
                "scope": c["scope"]["k"], "env0": [[b2s(k), b2s(v)] for k, v in c["env0"]],
                "impl_out": [[b2s(k), b2s(v)] for k, v in o["out"]]}

    def distribution(self, cases, obs):
        d = {"n_inserts": {}, "query_scope": {}, "behaviours": {}, "env0_size": {}}
        for c in cases:
            d["n_inserts"][str(len(c["ins"]))] = d["n_inserts"].get(str(len(c["ins"])), 0) + 1
            d["query_scope"][c["scope"]["k"]] = d["query_scope"].get(c["scope"]["k"], 0) + 1
            d["env0_size"][str(len(c["env0"]))] = d["env0_size"].get(str(len(c["env0"])), 0) + 1
            for i in c["ins"]:
                d["behaviours"][i["b"]] = d["behaviours"].get(i["b"], 0) + 1
        return d


PROP = C04()
