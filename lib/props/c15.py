"""C15 -- cargo libcnb package writes complete buildpack dirs, also over stale output."""
import hashlib
import os
import shutil
import subprocess
import tomllib
from concurrent.futures import ThreadPoolExecutor

from common import *  # noqa

TARGET = "x86_64-unknown-linux-gnu"
PKG_TARGET = os.path.join(BUILD, "cargo-pkg" + os.environ.get("VERIF_CARGO_SUFFIX", ""))
CARGO_LIBCNB = os.path.join(PKG_TARGET, "debug", "cargo-libcnb")
LIBCNB_PKG_TOML = b'[buildpack]\nuri = "."\n'


def build_tool():
    e = env_offline()
    e["CARGO_TARGET_DIR"] = PKG_TARGET
    e["RUSTFLAGS"] = os.environ.get("VERIF_TOOL_RUSTFLAGS", "")      # non-empty only for tools/coverage.sh
    rc, out = run(["cargo", "build", "--offline", "-q", "-p", "libcnb-cargo"], cwd=REPO, env=e, timeout=2400)
    if rc != 0:
        raise RuntimeError("cannot build cargo-libcnb:\n" + out[-3000:])


def snapshot(root):
    """relative path -> ('d',) | ('l', target) | ('f', bytes)"""
    out = {}
    if not os.path.isdir(root):
        return out
    for dp, dn, fn in os.walk(root):
        dn.sort()
        for d in list(dn):
            p = os.path.join(dp, d)
            rel = os.path.relpath(p, root)
            if os.path.islink(p):
                out[rel] = ("l", os.readlink(p))
                dn.remove(d)
            else:
                out[rel] = ("d",)
        for f in sorted(fn):
            p = os.path.join(dp, f)
            rel = os.path.relpath(p, root)
            out[rel] = ("l", os.readlink(p)) if os.path.islink(p) else ("f", open(p, "rb").read())
    return out


class C15:
    id = "C15"
    stream = "c15"
    translator_prefixes = ["command.rs", "output.rs", "lib.rs", "cargo.rs", "package.rs"]
    coq_targets = ["theories/Checks/C15Hold.vo", "theories/Checks/C15Agree.vo", "theories/Props/C15.vo"]
    hold_target = "theories/Checks/C15Hold.vo"
    agree_target = "theories/Checks/C15Agree.vo"
    hold_mod = "C15Hold"
    agree_mod = "C15Agree"
    per_shard = 20
    extra_imports = "From LV Require Import SpecDocs PackageCmd.\n"
    rule = ("generated cargo workspaces with 1..5 libcnb.rs buildpack crates (1..3 bin targets, optionally an integration test, an example, a bench and a build script, which are not buildpack binaries; the main target is the only "
            "bin, or the one named like the package, or -- error case -- ambiguous), 0..3 composite buildpacks whose "
            "package.toml mixes libcnb: (to crates and to other composites, forming a DAG), relative-path and docker:// "
            "dependencies, non-libcnb buildpack directories, an .ignore file for the output directories; invoked from the "
            "workspace root, from a crate's or composite's directory, or from a directory without buildpack; dev / release; "
            "default, absolute and cwd-relative --package-dir; output directories of selected AND unselected buildpacks "
            "pre-seeded with stale files, directories, a regular file in place of bin/detect and ghost additional "
            "binaries. The real cargo-libcnb executable is run (host target triple, trivial crates, offline). "
            "non-trivial = at least one buildpack packaged over a pre-seeded directory or an error case.")
    trusted_base = [
        "Coq 8.16.1 kernel + vm_compute",
        "cargo itself (metadata, build, locate-project) and the `ignore` crate's directory walk as environment; the host "
        "triple x86_64-unknown-linux-gnu stands in for the musl target (not installed in the sandbox)",
        "lib/props/c15.py: workspace generator, and the digest of the package directory into entries (which compiled "
        "binary / which buildpack.toml a file is byte-identical to; package.toml read by tomllib)",
        "translator: shape facts of command.rs execute, output.rs, assemble_buildpack_directory, cargo.rs target selection, package.rs",
        "C14's model (PkgDesc.absolutize) for relative-path dependencies",
    ]
    assumptions = ["the output directory is excluded from the buildpack search by an ignore file (as the libcnb.rs documentation "
                   "requires); without it a second run finds the packaged composite buildpacks as sources, wipes one as its own "
                   "destination and fails (observed; outside the property's quantifier)",
                   "the wipe of a destination directory succeeds (its error is discarded by command.rs: `let _ = fs::remove_dir_all`); "
                   "with an undeletable stale directory the result is not that of an empty directory (c15_no_wipe_refuted)",
                   "buildpack ids contain no '_' (BuildpackId grammar), dependency graph is acyclic"]

    def corpus(self):
        return []

    # ------------------------------------------------------------------ generation
    def gen(self, rng, tier):
        cases = []
        for _ in range(60 if tier == "thorough" else 18):
            libs = []
            for k in range(rng.randint(1, 5)):
                name = rng.choice(["alpha", "beta", "gamma", "delta", "eps"]) + str(k)
                pkg = "p" + name
                r = rng.random()
                if r < 0.35:
                    bins = [rng.choice([pkg, "main-" + name])]
                elif r < 0.96:
                    bins = [pkg] + ["h%d%s" % (j, name) for j in range(rng.randint(1, 2))]
                    rng.shuffle(bins)
                else:
                    bins = ["x" + name, "y" + name]          # ambiguous
                libs.append({"dir": rng.choice(["buildpacks/", "", "deep/er/"]) + name, "id": rng.choice(["verif/", "org.x/", ""]) + name,
                             "pkg": pkg, "bins": bins, "extra": rng.choice(["", "\n[metadata]\nk = 1\n", "\n# trailing comment\n"]),
                             # cargo targets that are NOT binaries of the buildpack (cargo metadata lists them with
                             # crate_types ["bin"] too; only kind ["bin"] marks a binary)
                             "aux": [a for a in ["test", "example", "bench", "build"] if rng.random() < 0.3],
                             "own_pkg": rng.random() < 0.3})
            # a libcnb.rs buildpack's own package.toml may name other workspace buildpacks (libcnb:<id>): they are
            # dependencies like a composite's
            for j, L in enumerate(libs):
                if L["own_pkg"] and j > 0 and rng.random() < 0.7:
                    L["pkg_deps"] = [x["id"] for x in rng.sample(libs[:j], rng.randint(1, min(2, j)))]
            comps = []
            for k in range(rng.randint(0, 3)):
                name = "meta%d" % k
                deps = []
                for _ in range(rng.randint(1, 4)):
                    r = rng.random()
                    if r < 0.55:
                        tgt = rng.choice(libs + comps)
                        deps.append(["lib", tgt["id"]])
                    elif r < 0.75:
                        deps.append(["rel", rng.choice(["../foreign/x", "../../up", "./local", "sub/dir"])])
                    else:
                        deps.append(["uri", rng.choice(["docker://reg/img:1", "urn:cnb:registry:heroku/x"])])
                # shortcut edges: depend on a composite AND (after it) on one of its own dependencies
                for k2, v2 in list(deps):
                    if k2 == "lib" and rng.random() < 0.5:
                        inner = next((x for x in comps if x["id"] == v2), None)
                        if inner:
                            sub = [d for d in inner["deps"] if d[0] == "lib"]
                            if sub:
                                deps.append(list(rng.choice(sub)))
                if rng.random() < 0.03:
                    deps.append(["lib", "verif/does-not-exist"])
                # package.toml details that must survive normalisation: the buildpack uri as written, the platform
                comps.append({"dir": "meta/" + name, "id": "verif/" + name, "deps": deps,
                              "uri": rng.choice([".", ".", "./"]), "os": rng.choice([None, None, "linux", "windows"])})
            # nested layout: some libcnb.rs buildpacks live INSIDE a composite's directory (whether or not that
            # composite depends on them); packaging from the composite's directory selects the composite only
            if comps and rng.random() < 0.5:
                outer = rng.choice(comps)
                for L in rng.sample(libs, rng.randint(1, min(2, len(libs)))):
                    L["dir"] = outer["dir"] + "/components/" + L["dir"].split("/")[-1]
            foreign = [{"dir": "foreign/x", "id": "other/x"}] if rng.random() < 0.6 else []
            cw = rng.random()
            if cw < 0.45:
                cwd = ""
            elif cw < 0.7:
                cwd = rng.choice(libs)["dir"]
            elif cw < 0.92 and comps:
                cwd = rng.choice(comps)["dir"]
            elif cw < 0.96:
                cwd = "docs"
            else:
                cwd = foreign[0]["dir"] if foreign else ""
            sk = rng.randint(0, 4)
            # (the dangling-link output path only where packaging is expected to succeed: what a FAILING run leaves of a
            #  pre-seeded output path is not part of the property)
            if sk == 4 and (any(len(L["bins"]) > 1 and L["pkg"] not in L["bins"] for L in libs)
                            or any(d == ["lib", "verif/does-not-exist"] for C in comps for d in C["deps"])):
                sk = 3
            cases.append({"libs": libs, "comps": comps, "foreign": foreign, "cwd": cwd, "release": rng.random() < 0.3,
                          "pkgdir": rng.choice(["default", "default", "abs", "rel"]),
                          "seed_ids": [x["id"] for x in libs + comps if rng.random() < 0.6], "seed_kind": sk})
        # designed: a libcnb.rs buildpack whose own package.toml depends on another one, packaged from its own directory
        cases.append({"libs": [{"dir": "buildpacks/base", "id": "verif/base", "pkg": "pbase", "bins": ["pbase"], "extra": "", "aux": []},
                               {"dir": "buildpacks/web", "id": "verif/web", "pkg": "pweb", "bins": ["pweb"], "extra": "", "aux": [],
                                "own_pkg": True, "pkg_deps": ["verif/base"]},
                               {"dir": "buildpacks/other", "id": "verif/other", "pkg": "pother", "bins": ["pother"], "extra": "", "aux": []}],
                      "comps": [], "foreign": [], "cwd": "buildpacks/web", "release": False, "pkgdir": "default", "seed_ids": [], "seed_kind": 0})
        # designed: a libcnb.rs buildpack that depends (through its own package.toml) on a composite which depends on
        # another libcnb.rs buildpack: dependencies first, whatever kind they are
        for cwd in ("", "buildpacks/k"):
            cases.append({"libs": [{"dir": "buildpacks/leaf", "id": "verif/leaf", "pkg": "pleaf", "bins": ["pleaf"], "extra": "", "aux": []},
                                   {"dir": "buildpacks/k", "id": "verif/k", "pkg": "pk", "bins": ["pk"], "extra": "", "aux": [],
                                    "own_pkg": True, "pkg_deps": ["verif/m"]}],
                          "comps": [{"dir": "meta/m", "id": "verif/m", "deps": [["lib", "verif/leaf"]], "uri": ".", "os": None}],
                          "foreign": [], "cwd": cwd, "release": False, "pkgdir": "default", "seed_ids": [], "seed_kind": 0})
        # designed: ids with more than one slash, one of them extending another buildpack's id (acme/tools/ruby next to
        # acme/tools): every id has its own flat output directory
        cases.append({"libs": [{"dir": "buildpacks/plain", "id": "acme/plain", "pkg": "pplain", "bins": ["pplain"], "extra": "", "aux": []},
                               {"dir": "buildpacks/ruby", "id": "acme/tools/ruby", "pkg": "pruby", "bins": ["pruby"], "extra": "", "aux": []}],
                      "comps": [{"dir": "meta/tools", "id": "acme/tools", "deps": [["lib", "acme/tools/ruby"]], "uri": ".", "os": None}],
                      "foreign": [], "cwd": "", "release": False, "pkgdir": "default", "seed_ids": [], "seed_kind": 0})
        # designed: a composite whose directory is a symbolic link, packaged with everything else from the workspace root
        cases.append({"libs": [{"dir": "buildpacks/alpha", "id": "verif/alpha", "pkg": "palpha", "bins": ["palpha"], "extra": "", "aux": []}],
                      "comps": [{"dir": "meta/linked", "id": "verif/linked", "deps": [["lib", "verif/alpha"], ["uri", "docker://reg/img:1"]],
                                 "uri": ".", "os": None, "link": True}],
                      "foreign": [], "cwd": "", "release": False, "pkgdir": "default", "seed_ids": [], "seed_kind": 0})
        # designed: a composite WITHOUT libcnb: dependencies (relative path + registry reference only), packaged from its own
        # directory and from the workspace root -- its package.toml is normalised although nothing had to be packaged before it
        for cwd in ("meta/solo", ""):
            cases.append({"libs": [{"dir": "buildpacks/one", "id": "verif/one", "pkg": "pone", "bins": ["pone"], "extra": "", "aux": []}],
                          "comps": [{"dir": "meta/solo", "id": "verif/solo", "deps": [["rel", "../foreign/x"], ["uri", "docker://reg/img:1"], ["rel", "./local"]],
                                     "uri": ".", "os": None}],
                          "foreign": [{"dir": "foreign/x", "id": "other/x"}], "cwd": cwd, "release": False, "pkgdir": "default",
                          "seed_ids": [], "seed_kind": 0})
        cases.append({"libs": [{"dir": "buildpacks/one", "id": "verif/one", "pkg": "pone", "bins": ["pone"], "extra": "", "aux": []}],
                      "comps": [{"dir": "", "id": "verif/rootmeta", "deps": [["lib", "verif/one"], ["uri", "docker://reg/img:1"]], "uri": ".", "os": None}],
                      "foreign": [], "cwd": "", "release": False, "pkgdir": "default", "seed_ids": [], "seed_kind": 0})
        return cases

    # ------------------------------------------------------------------ running
    def materialise(self, c, root):
        shutil.rmtree(root, ignore_errors=True)
        os.makedirs(os.path.join(root, "docs"))
        open(os.path.join(root, "docs", "README.md"), "w").write("docs\n")
        open(os.path.join(root, ".ignore"), "w").write("packaged/\nout/\ntarget/\n")
        members = []
        for L in c["libs"]:
            d = os.path.join(root, L["dir"])
            os.makedirs(os.path.join(d, "src"))
            members.append(L["dir"])
            cargo = f'[package]\nname = "{L["pkg"]}"\nversion = "0.1.0"\nedition = "2021"\n'
            for bname in L["bins"]:
                cargo += f'\n[[bin]]\nname = "{bname}"\npath = "src/{bname}.rs"\n'
                open(os.path.join(d, "src", bname + ".rs"), "w").write(f'fn main() {{ println!("{L["id"]}:{bname}"); }}\n')
            for aux in L.get("aux", []):
                sub, body = {"test": ("tests", "#[test]\nfn t() {}\n"), "example": ("examples", "fn main() {}\n"),
                             "bench": ("benches", "fn main() {}\n"), "build": ("", "fn main() {}\n")}[aux]
                if sub:
                    os.makedirs(os.path.join(d, sub), exist_ok=True)
                    open(os.path.join(d, sub, f"{aux}_{L['pkg']}.rs"), "w").write(body)
                else:
                    open(os.path.join(d, "build.rs"), "w").write(body)
            open(os.path.join(d, "Cargo.toml"), "w").write(cargo)
            open(os.path.join(d, "buildpack.toml"), "w").write(f'api = "0.10"\n\n[buildpack]\nid = "{L["id"]}"\nversion = "0.1.0"\n{L["extra"]}')
            if L.get("own_pkg"):
                deps = "".join(f'\n[[dependencies]]\nuri = "libcnb:{i}"\n' for i in L.get("pkg_deps", []))
                open(os.path.join(d, "package.toml"), "w").write('# shipped with the buildpack\n[buildpack]\nuri = "."\n\n[platform]\nos = "windows"\n' + deps)
        for C in c["comps"]:
            d = os.path.join(root, C["dir"])
            if C.get("link"):
                # the buildpack directory is a symbolic link to a directory kept elsewhere (outside the workspace)
                real = os.path.join(os.path.dirname(root), "linked-store", C["dir"])
                os.makedirs(real, exist_ok=True)
                os.makedirs(os.path.dirname(d), exist_ok=True)
                os.symlink(real, d)
            os.makedirs(d, exist_ok=True)
            order = "".join(f'\n[[order.group]]\nid = "{i}"\nversion = "0.1.0"\n' for k, i in C["deps"] if k == "lib") or '\n[[order.group]]\nid = "x/y"\nversion = "1.0.0"\n'
            open(os.path.join(d, "buildpack.toml"), "w").write(f'api = "0.10"\n\n[buildpack]\nid = "{C["id"]}"\nversion = "0.1.0"\n\n[[order]]\n{order}')
            pk = '[buildpack]\nuri = "%s"\n' % C.get("uri", ".")
            for k, v in C["deps"]:
                pk += '\n[[dependencies]]\nuri = "%s"\n' % (("libcnb:" + v) if k == "lib" else v)
            if C.get("os"):
                pk += '\n[platform]\nos = "%s"\n' % C["os"]
            open(os.path.join(d, "package.toml"), "w").write(pk)
        for F in c["foreign"]:
            d = os.path.join(root, F["dir"])
            os.makedirs(d)
            open(os.path.join(d, "buildpack.toml"), "w").write(f'api = "0.10"\n\n[buildpack]\nid = "{F["id"]}"\nversion = "0.1.0"\n')
        open(os.path.join(root, "Cargo.toml"), "w").write('[workspace]\nresolver = "2"\nmembers = [%s]\n' % ", ".join(f'"{m}"' for m in members))

    def run_one(self, c, workdir):
        base = os.path.join(workdir, f"c{c['id']}")
        root = os.path.join(base, "ws")
        self.materialise(c, root)
        cwd = os.path.join(root, c["cwd"]) if c["cwd"] else root
        profile = "release" if c["release"] else "debug"
        if c["pkgdir"] == "default":
            pkgdir, arg = os.path.join(root, "packaged"), []
        elif c["pkgdir"] == "abs":
            pkgdir = os.path.join(base, "elsewhere", "pk")
            arg = ["--package-dir", pkgdir]
        else:
            pkgdir, arg = os.path.join(cwd, "out"), ["--package-dir", "out"]
        outbase = os.path.join(pkgdir, TARGET, profile)
        for bid in c["seed_ids"]:
            d = os.path.join(outbase, bid.replace("/", "_"))
            if c["seed_kind"] == 4:
                # the output path is a dangling symbolic link left by something else: same as an empty directory
                os.makedirs(outbase, exist_ok=True)
                os.symlink("/nonexistent/elsewhere", d)
                continue
            os.makedirs(os.path.join(d, "bin", "old"), exist_ok=True)
            open(os.path.join(d, "stale.txt"), "w").write("stale")
            if c["seed_kind"] >= 1:
                open(os.path.join(d, "bin", "detect"), "w").write("not a link")
                open(os.path.join(d, "buildpack.toml"), "w").write("garbage")
            if c["seed_kind"] >= 2:
                os.makedirs(os.path.join(d, ".libcnb-cargo", "additional-bin"), exist_ok=True)
                open(os.path.join(d, ".libcnb-cargo", "additional-bin", "ghost"), "w").write("ghost")
                open(os.path.join(d, "package.toml"), "w").write("junk = true\n")
            if c["seed_kind"] >= 3:
                os.symlink("/nonexistent", os.path.join(d, "bin", "build"))
        os.makedirs(os.path.join(pkgdir, "unrelated"), exist_ok=True)
        open(os.path.join(pkgdir, "unrelated", "keep.txt"), "w").write("keep")
        before_pkg = snapshot(pkgdir)
        before_ws = {k: v for k, v in snapshot(root).items() if not (k.startswith("packaged") or "/out" in k or k.startswith("out") or k == "Cargo.lock")}
        e = env_offline()
        e["CARGO"] = shutil.which("cargo")
        e["CARGO_TARGET_DIR"] = os.path.join(base, "target")
        e["RUSTFLAGS"] = ""
        e.pop("CI", None)
        p = subprocess.run([CARGO_LIBCNB, "libcnb", "package", "--target", TARGET, "--no-cross-compile-assistance"] + (["--release"] if c["release"] else []) + arg,
                           cwd=cwd, env=e, stdout=subprocess.PIPE, stderr=subprocess.PIPE, timeout=600)
        after_pkg = snapshot(pkgdir)
        after_ws = {k: v for k, v in snapshot(root).items() if not (k.startswith("packaged") or "/out" in k or k.startswith("out") or k == "Cargo.lock")}
        # which buildpack directories changed
        rel_base = os.path.relpath(outbase, pkgdir)
        names = set()
        for k in set(before_pkg) | set(after_pkg):
            if k.startswith(rel_base + "/"):
                names.add(k[len(rel_base) + 1:].split("/")[0])
        if os.path.isdir(outbase):
            names |= set(os.listdir(outbase))
        changed, untouched = [], after_ws == before_ws
        bins = {}
        bdir = os.path.join(base, "target", TARGET, profile)
        for L in c["libs"]:
            for bn in L["bins"]:
                q = os.path.join(bdir, bn)
                if os.path.exists(q):
                    bins[(L["id"], bn)] = open(q, "rb").read()
        srcs = {x["id"]: open(os.path.join(root, x["dir"], "buildpack.toml"), "rb").read() for x in c["libs"] + c["comps"]}
        for n in sorted(names):
            pre = {k[len(rel_base) + len(n) + 2:]: v for k, v in before_pkg.items() if k.startswith(f"{rel_base}/{n}/")}
            post = {k[len(rel_base) + len(n) + 2:]: v for k, v in after_pkg.items() if k.startswith(f"{rel_base}/{n}/")}
            if pre == post and (f"{rel_base}/{n}" in before_pkg) == (f"{rel_base}/{n}" in after_pkg):
                continue
            bid = next((x["id"] for x in c["libs"] + c["comps"] if x["id"].replace("/", "_") == n), None)
            rows = []
            for rel, v in sorted(post.items()):
                if v[0] == "d":
                    rows.append([rel, "EDir"])
                elif v[0] == "l":
                    rows.append([rel, "ELink", v[1]])
                else:
                    data = v[1]
                    if bid is not None and rel == "buildpack.toml" and data == srcs[bid]:
                        rows.append([rel, "ESameToml"])
                    elif bid is not None and any(data == bins.get((bid, bn)) for bn in next((x["bins"] for x in c["libs"] if x["id"] == bid), [])):
                        bn = next(bn for bn in next(x["bins"] for x in c["libs"] if x["id"] == bid) if data == bins.get((bid, bn)))
                        rows.append([rel, "EBin", bn])
                    elif rel == "package.toml" and data != LIBCNB_PKG_TOML:
                        try:
                            d = tomllib.loads(data.decode())
                            rows.append([rel, "EPackageToml", d.get("buildpack", {}).get("uri", ""), [x.get("uri", "") for x in d.get("dependencies", [])],
                                         d.get("platform", {}).get("os", "linux")])
                        except Exception:
                            rows.append([rel, "EText", data.decode("utf-8", "replace")])
                    else:
                        rows.append([rel, "EText", data.decode("latin-1") if len(data) < 200 else "<%d bytes %s>" % (len(data), hashlib.sha1(data).hexdigest())])
            changed.append([os.path.join(outbase, n), rows])
        # everything else below the package dir unchanged (the <target>/<profile> directories themselves may be created)
        def rest(s):
            return {k: v for k, v in s.items()
                    if k not in (TARGET, rel_base)
                    and not any(k == f"{rel_base}/{os.path.basename(d)}" or k.startswith(f"{rel_base}/{os.path.basename(d)}/") for d, _ in changed)}
        untouched = untouched and rest(before_pkg) == rest(after_pkg)
        import re
        order = re.findall(r"\[\d+/\d+\] Building (\S+) \(", p.stderr.decode("utf-8", "replace"))
        out = {"id": c["id"], "exit": p.returncode, "stdout": p.stdout.decode().splitlines(), "stderr": p.stderr.decode()[-600:], "order": order,
               "dirs": changed, "untouched": untouched, "root": root, "pkgdir": pkgdir, "cwd": cwd}
        shutil.rmtree(base, ignore_errors=True)
        return out

    def run_impl(self, cases, workdir):
        build_tool()
        os.makedirs(workdir, exist_ok=True)
        obs = {}
        with ThreadPoolExecutor(max_workers=8) as ex:
            for o in ex.map(lambda c: self.run_one(c, workdir), cases):
                obs[o["id"]] = o
        return obs

    # ------------------------------------------------------------------ Coq
    def to_coq(self, c, o):
        def B(x):
            return cq_bytes(x.encode())
        ws = []
        for L in c["libs"]:
            ws.append(f"(mkBp {B(L['dir'])} {B(L['id'])} (KLib {B(L['pkg'])} {cq_list([B(x) for x in L['bins']])} {cq_list([B(x) for x in L.get('pkg_deps', [])])}))")
        for C in c["comps"]:
            deps = cq_list(["(%s %s)" % ({"lib": "DLib", "rel": "DRel", "uri": "DUri"}[k], B(v)) for k, v in C["deps"]])
            ws.append(f"(mkBp {B(C['dir'])} {B(C['id'])} (KComp {B(C.get('uri', '.'))} {B(C.get('os') or 'linux')} {deps}))")
        for F in c["foreign"]:
            ws.append(f"(mkBp {B(F['dir'])} {B(F['id'])} KOther)")
        inv = f"(mkInv {B(c['cwd'])} {cq_bool(c['release'])} {B(o['pkgdir'])} {B(TARGET)})"
        dirs = []
        for d, rows in o["dirs"]:
            rs = []
            for r in rows:
                if r[1] in ("EDir", "ESameToml"):
                    e = r[1]
                elif r[1] == "EPackageToml":
                    e = f"(EPackageToml {B(r[2])} {B(r[4])} {cq_list([B(x) for x in r[3]])})"
                else:
                    e = f"({r[1]} {cq_bytes(r[2].encode('latin-1', 'replace'))})"
                rs.append(f"({B(r[0])}, {e})")
            dirs.append(f"({B(d)}, {cq_list(rs)})")
        return "(mkCase %s %s %s %s %s %s %s %s)" % (cq_list(ws), inv, B(o["root"]), cq_bool(o["exit"] == 0), cq_list([B(x) for x in o["stdout"]]),
                                                  cq_list(dirs), cq_bool(o["untouched"]), cq_list([B(x) for x in o.get("order", [])]))

    def nontrivial(self, c, o):
        return o["exit"] != 0 or bool(c["seed_ids"])

    def classify(self, c, o):
        return "package"

    def shrink(self, c):
        for key in ("libs", "comps", "foreign", "seed_ids"):
            for i in range(len(c[key])):
                d = dict(c, **{key: c[key][:i] + c[key][i + 1:]})
                # the invocation directory must survive the shrink step
                dirs = {x["dir"] for k in ("libs", "comps", "foreign") for x in d[k] if isinstance(x, dict) and "dir" in x}
                if d["cwd"] in ("", "docs") or any(x == d["cwd"] or x.startswith(d["cwd"] + "/") for x in dirs):
                    yield d
        if c["pkgdir"] != "default":
            yield dict(c, pkgdir="default")
        if c["release"]:
            yield dict(c, release=False)

    def sample(self, c, o):
        return {"libs": [(x["id"], x["bins"]) for x in c["libs"]], "comps": [(x["id"], x["deps"]) for x in c["comps"]], "cwd": c["cwd"], "pkgdir": c["pkgdir"],
                "release": c["release"], "exit": o["exit"], "stdout": [os.path.basename(x) for x in o["stdout"]], "written": [os.path.basename(d) for d, _ in o["dirs"]]}

    def explain(self, c, o):
        return str(self.sample(c, o)) + " stderr: " + o["stderr"][-300:] + " dirs: " + str(o["dirs"])[:1500]

    def distribution(self, cases, obs):
        d = {"exit": {}, "cwd": {"root": 0, "buildpack": 0, "other": 0}, "pkgdir": {}, "release": 0, "buildpacks_written": 0, "over_stale": 0, "composites": 0}
        for c in cases:
            o = obs[c["id"]]
            d["exit"][str(o["exit"])] = d["exit"].get(str(o["exit"]), 0) + 1
            d["cwd"]["root" if c["cwd"] == "" else "other" if c["cwd"] == "docs" else "buildpack"] += 1
            d["pkgdir"][c["pkgdir"]] = d["pkgdir"].get(c["pkgdir"], 0) + 1
            d["release"] += c["release"]
            d["buildpacks_written"] += len(o["dirs"])
            d["over_stale"] += sum(1 for dd, _ in o["dirs"] if os.path.basename(dd) in [i.replace("/", "_") for i in c["seed_ids"]])
            d["composites"] += len(c["comps"])
        return d


PROP = C15()
