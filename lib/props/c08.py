"""C08 -- CNB documents are parsed strictly: unknown/missing keys, mixed kinds rejected."""
import copy

from common import *  # noqa
from tomlgen import *  # noqa
from fsgen import cq_tv

KINDS = {"buildpack": "DBuildpack", "plan": "DPlan", "layer": "DLayer", "launch": "DLaunch", "store": "DStore",
         "package": "DPackage"}
SYNONYMS = {"distros": ["distributions", "distro"], "arch": ["architecture"], "os": ["operating-system", "platform"], "variant": ["arch-variant"],
            "id": ["identifier", "ID"], "uri": ["url", "URI"], "version": ["ver"], "args": ["arguments"], "command": ["cmd"],
            "metadata": ["meta"], "types": ["type"], "processes": ["process"], "entries": ["entry"], "labels": ["label"],
            "slices": ["slice"], "paths": ["path", "globs"], "default": ["is-default"], "working-dir": ["workdir", "working-directory"],
            "key": ["name"], "value": ["val"], "launch": ["run"], "build": ["compile"], "cache": ["cached"], "homepage": ["home-page"],
            "description": ["desc"], "keywords": ["tags"], "licenses": ["license"], "targets": ["target"], "stacks": ["stack"],
            "dependencies": ["deps"], "order": ["orders"], "group": ["groups"], "optional": ["opt"], "api": ["api-version"],
            "buildpack": ["buildpacks"], "clear-env": ["clearenv"], "sbom-formats": ["sbom"], "mixins": ["mixin"]}
RESPELL = ["x86_64", "aarch64", "i386", "i686", "AMD64", "arm64/v8", "Linux", "windows", " amd64 ", "armv7l", "v8 ", "UBUNTU", "jammy"]
STRS = ["", "x", "a b", 'q"uote', "back\\slash", "new\nline", "tab\t", "é☃", "\x01ctl", "="]


class C08:
    id = "C08"
    stream = "c08"
    translator_prefixes = ["serde schema"]
    coq_targets = ["theories/Checks/C08Hold.vo", "theories/Checks/C08Agree.vo", "theories/Props/C08.vo"]
    hold_target = "theories/Checks/C08Hold.vo"
    agree_target = "theories/Checks/C08Agree.vo"
    hold_mod = "C08Hold"
    agree_mod = "C08Agree"
    per_shard = 120
    extra_imports = "From LV Require Import Toml Serde SpecDocs.\n"
    rule = ("valid documents of the six formats (buildpack.toml component/composite, buildpack plan, layer content "
            "metadata, launch.toml, store.toml, package.toml) with every optional key independently present/absent "
            "(seeded subsets) and nested free-form metadata; for each valid document every single-point mutation: an "
            "unknown key inserted at each table (outside free-form metadata), each key deleted, each scalar retyped "
            "(string<->bool<->int<->array<->table), and order/targets/stacks added; invalid identifiers, versions, "
            "API versions, URIs; two TOML spellings (inline tables vs [table]/[[array]] headers). non-trivial = a "
            "mutated document or a valid one with at least one optional key.")
    trusted_base = [
        "Coq 8.16.1 kernel + vm_compute",
        "Serde.v interpreter as model of serde derive + the toml crate's data model",
        "translator: derive attribute extraction into schemas (rename, default, skip_serializing_if, deny_unknown_fields, untagged, try_from, deserialize_with)",
        "Python TOML writer (self-checked with tomllib on every document) and the toml crate's text layer",
        "URI validity is a character-class model of uriparse on the generated alphabet",
    ]
    assumptions = ["no floats or datetimes in documents"]

    def corpus(self):
        return []

    # ---- valid documents
    def meta(self, rng, depth=0):
        d = {}
        for _ in range(rng.randint(0, 3)):
            k = rng.choice(["k", "a-b", "n", "x y", "é"])
            r = rng.random()
            if r < 0.3:
                d[k] = rng.choice(STRS)
            elif r < 0.45:
                d[k] = rng.choice([0, -3, 9007199254740993])
            elif r < 0.6:
                d[k] = rng.choice([True, False])
            elif r < 0.8 and depth < 2:
                d[k] = self.meta(rng, depth + 1)
            else:
                d[k] = [rng.choice(STRS) for _ in range(rng.randint(0, 2))]
        return d

    def maybe(self, rng, d, k, v, p=0.5):
        if rng.random() < p:
            d[k] = v

    def bp_table(self, rng):
        bp = {"id": rng.choice(["heroku/ruby", "a", "x.y/z-1"]), "version": rng.choice(["1.2.3", "0.0.0", "10.20.30"])}
        self.maybe(rng, bp, "name", rng.choice(STRS))
        self.maybe(rng, bp, "homepage", "https://example.com")
        self.maybe(rng, bp, "clear-env", rng.choice([True, False]))
        self.maybe(rng, bp, "description", rng.choice(STRS))
        self.maybe(rng, bp, "keywords", [rng.choice(STRS) for _ in range(rng.randint(0, 2))])
        if rng.random() < 0.5:
            lic = []
            for _ in range(rng.randint(0, 2)):
                l = {}
                self.maybe(rng, l, "type", "MIT")
                self.maybe(rng, l, "uri", "https://x")
                lic.append(l)
            bp["licenses"] = lic
        self.maybe(rng, bp, "sbom-formats", rng.sample(["application/vnd.cyclonedx+json", "application/spdx+json", "application/vnd.syft+json"], rng.randint(0, 3)))
        return bp

    def valid(self, rng, ty):
        if ty == "buildpack":
            d = {"api": rng.choice(["0.10", "0.9", "1", "01.2"]), "buildpack": self.bp_table(rng)}
            if rng.random() < 0.5:
                if rng.random() < 0.6:
                    d["stacks"] = [dict({"id": rng.choice(["*", "heroku-24"])}, **({"mixins": ["m"]} if rng.random() < 0.5 else {})) for _ in range(rng.randint(0, 2))]
                if rng.random() < 0.6:
                    ts = []
                    for _ in range(rng.randint(0, 2)):
                        t = {}
                        self.maybe(rng, t, "os", "linux")
                        self.maybe(rng, t, "arch", "amd64")
                        self.maybe(rng, t, "variant", "v8")
                        self.maybe(rng, t, "distros", rng.choice([
                            [{"name": "ubuntu", "version": "24.04"}],
                            [{"name": "ubuntu", "version": "22.04"}, {"name": "ubuntu", "version": "24.04"}],
                            [{"name": "ubuntu", "version": "24.04"}, {"name": "debian", "version": "12"}, {"name": "ubuntu", "version": "24.04"}]]))
                        ts.append(t)
                    d["targets"] = ts
            else:
                # (a composite that also spells out empty component keys mixes the two kinds: rejected)
                if rng.random() < 0.2:
                    d[rng.choice(["targets", "stacks"])] = []
                d["order"] = [{"group": [dict({"id": "a/b", "version": "1.0.0"}, **({"optional": rng.choice([True, False])} if rng.random() < 0.5 else {}))
                                         for _ in range(rng.randint(0, 2))]} for _ in range(rng.randint(1, 2))]
            self.maybe(rng, d, "metadata", self.meta(rng))
            return d
        if ty == "plan":
            d = {}
            # the lifecycle writes one entry per matched `requires`: the same name may come several times (every second
            # document draws its names from two strings only)
            pool = STRS if rng.random() < 0.5 else ["x", "a b"]
            self.maybe(rng, d, "entries", [dict({"name": rng.choice(pool)}, **({"metadata": self.meta(rng)} if rng.random() < 0.6 else {})) for _ in range(rng.randint(0, 4))], 0.8)
            return d
        if ty == "layer":
            d = {}
            if rng.random() < 0.7:
                t = {}
                for k in ["launch", "build", "cache"]:
                    self.maybe(rng, t, k, rng.choice([True, False]))
                d["types"] = t
            self.maybe(rng, d, "metadata", self.meta(rng))
            return d
        if ty == "launch":
            d = {}
            self.maybe(rng, d, "labels", [{"key": rng.choice(STRS), "value": rng.choice(STRS)} for _ in range(rng.randint(0, 2))])
            if rng.random() < 0.8:
                ps = []
                for _ in range(rng.randint(0, 3)):
                    p = {"type": rng.choice(["web", "worker", "a.b_c-1"]), "command": [rng.choice(STRS) for _ in range(rng.randint(0, 2))]}
                    self.maybe(rng, p, "args", [rng.choice(STRS) for _ in range(rng.randint(0, 2))])
                    self.maybe(rng, p, "default", rng.choice([True, False]))
                    self.maybe(rng, p, "working-dir", rng.choice([".", "/srv", "sub/dir", ""]))
                    ps.append(p)
                d["processes"] = ps
            self.maybe(rng, d, "slices", [{"paths": [rng.choice(["*.txt", "a/**"])]} for _ in range(rng.randint(0, 2))])
            return d
        if ty == "store":
            return {"metadata": self.meta(rng)}
        if ty == "package":
            d = {"buildpack": {"uri": rng.choice([".", "../x", "/abs/p", "docker://r/i:1", "libcnb:a/b", "https://h/p?q=1#f", "urn:cnb:registry:x"])}}
            self.maybe(rng, d, "dependencies", [{"uri": rng.choice(["libcnb:x/y", "../b", "docker://d/e", "a%20b",
                                                                        # references that are not in RFC 3986 normal form are values like any other
                                                                        "./buildpacks/ruby", "../shared/../b", "a/./b", "/opt/%7Euser/./java",
                                                                        "docker://Registry.Example.COM/img:1"])} for _ in range(rng.randint(0, 3))])
            self.maybe(rng, d, "platform", {"os": rng.choice(["linux", "windows"])})
            return d
        raise ValueError(ty)

    # ---- single-point mutations; free-form tables are not descended into
    FREE = {"metadata"}

    def tables(self, doc, path=()):
        yield path, doc
        for k, v in doc.items():
            if k in self.FREE:
                continue
            if isinstance(v, dict):
                yield from self.tables(v, path + (k,))
            elif isinstance(v, list):
                for i, x in enumerate(v):
                    if isinstance(x, dict):
                        yield from self.tables(x, path + (k, i))

    def at(self, doc, path):
        cur = doc
        for p in path:
            cur = cur[p]
        return cur

    def mutations(self, rng, doc):
        for path, tbl in list(self.tables(doc)):
            m = copy.deepcopy(doc)
            self.at(m, path)["zzz-unknown"] = rng.choice([1, "x", {}, []])
            yield "unknown@" + "/".join(map(str, path)), m
            # near misses of the table's own keys: the Rust spelling of a hyphenated key (present or optional and
            # absent) and other re-spellings are keys the format does not define
            near = set()
            for k in list(tbl.keys()) + ["clear-env", "sbom-formats", "working-dir", "arch-variant"]:
                if "-" in k:
                    near.add(k.replace("-", "_"))
                    near.add(k.replace("-", ""))
                else:
                    near.add(k.upper())
            for nk in sorted(near):
                if nk not in tbl:
                    m = copy.deepcopy(doc)
                    self.at(m, path)[nk] = rng.choice([True, "x", [], ["application/spdx+json"]])
                    yield "unknown@" + "/".join(map(str, path)), m
            # a key under another plausible name (long form, singular / plural, other tools' spelling) carrying the
            # same value: not a key of the format, so not an accepted alias of one
            for k in list(tbl.keys()):
                if k in self.FREE:
                    continue
                for nk in SYNONYMS.get(k, []) + ([k + "s"] if not k.endswith("s") else [k[:-1]]):
                    if nk and nk not in tbl:
                        m = copy.deepcopy(doc)
                        t = self.at(m, path)
                        t[nk] = t.pop(k)
                        yield "synonym@" + "/".join(map(str, path + (k,))), m
            # a string under another spelling other tools use for the same thing (uname vs GOARCH names, case, padding):
            # still a conforming document, and what is read is what is written
            for k in list(tbl.keys()):
                if k not in self.FREE and isinstance(tbl[k], str):
                    for nv in rng.sample(RESPELL, 4):
                        if nv != tbl[k]:
                            m = copy.deepcopy(doc)
                            self.at(m, path)[k] = nv
                            yield "respell@" + "/".join(map(str, path + (k,))), m
            for k in list(tbl.keys()):
                m = copy.deepcopy(doc)
                del self.at(m, path)[k]
                yield "delete@" + "/".join(map(str, path + (k,))), m
                v = tbl[k]
                alts = [x for x in ["s", 7, True, [], {}, [3], ["s"], {"q": 1}] if type(x) is not type(v) or isinstance(v, (list, dict))]
                m = copy.deepcopy(doc)
                self.at(m, path)[k] = rng.choice(alts)
                yield "retype@" + "/".join(map(str, path + (k,))), m
        # serde's sequence form: a table replaced by the list of its values (in document order)
        for path, tbl in list(self.tables(doc)):
            if path:
                m = copy.deepcopy(doc)
                parent = self.at(m, path[:-1])
                parent[path[-1]] = list(tbl.values())
                yield "seqform@" + "/".join(map(str, path)), m
        for extra in ["order", "targets", "stacks"]:
            if extra not in doc and "buildpack" in doc and "api" in doc:
                m = copy.deepcopy(doc)
                m[extra] = [{"group": [{"id": "q/r", "version": "1.0.0"}]}] if extra == "order" else ([{"os": "linux"}] if extra == "targets" else [{"id": "*"}])
                yield "add-" + extra, m
        # invalid validated strings
        if "buildpack" in doc and isinstance(doc["buildpack"], dict) and "id" in doc["buildpack"]:
            for key, bad in [("id", "app"), ("id", "a b"), ("id", ""), ("version", "1.2"), ("version", "+1.2.3"), ("version", "01.2.3")]:
                m = copy.deepcopy(doc)
                m["buildpack"][key] = bad
                yield f"invalid-{key}", m
            for bad in ["", "1.2.3", "+1", "a", "1."]:
                m = copy.deepcopy(doc)
                m["api"] = bad
                yield "invalid-api", m
        if "buildpack" in doc and isinstance(doc["buildpack"], dict) and "uri" in doc["buildpack"]:
            for bad in ["a b", "<x>", 'q"']:
                m = copy.deepcopy(doc)
                m["buildpack"]["uri"] = bad
                yield "invalid-uri", m
            m = copy.deepcopy(doc)
            m["platform"] = {"os": "darwin"}
            yield "invalid-os", m
        if "processes" in doc and doc["processes"]:
            m = copy.deepcopy(doc)
            m["processes"][0]["type"] = "we b"
            yield "invalid-process-type", m

    def gen(self, rng, tier):
        cases = []
        n_valid = 60 if tier == "thorough" else 14
        for ty in KINDS:
            for _ in range(n_valid):
                doc = self.valid(rng, ty)
                cases.append({"ty": ty, "doc": doc, "mut": "valid", "style": rng.choice([0, 1])})
                muts = list(self.mutations(rng, doc))
                if tier != "thorough" and len(muts) > 40:
                    # (renamed keys are few per document and each name is its own question: all of them are kept)
                    syn = [x for x in muts if x[0].startswith(("synonym@", "respell@"))]
                    other = [x for x in muts if not x[0].startswith(("synonym@", "respell@"))]
                    muts = rng.sample(other, min(40, len(other))) + syn
                for name, m in muts:
                    cases.append({"ty": ty, "doc": m, "mut": name, "style": rng.choice([0, 1])})
        for c in cases:
            c["text"] = list(render_doc(c["doc"], c["style"]).encode("utf-8"))
        return cases

    def run_impl(self, cases, workdir):
        return run_harness(self.stream, cases, workdir)

    def to_coq(self, c, o):
        tree = "None" if o["tree"] is None else f"(Some {cq_jtv(o['tree'])})"
        parsed = "None" if o["parsed"] is None else f"(Some {cq_sval(o['parsed'])})"
        return f"(mkCase {KINDS[c['ty']]} {cq_tv(c['doc'])} {tree} {parsed})"

    def nontrivial(self, c, o):
        return c["mut"] != "valid" or len(json.dumps(c["doc"])) > 60

    def has_array_at_struct(self, doc):
        """some position where the format has a table (outside free-form metadata) holds an array
        that is not an array of tables"""
        STRUCT_KEYS = {"buildpack", "types", "platform"}
        ARR_OF_STRUCT = {"stacks", "targets", "distros", "order", "group", "licenses", "entries", "labels", "processes",
                         "slices", "dependencies"}

        def walk(t):
            if not isinstance(t, dict):
                return False
            for k, v in t.items():
                if k in self.FREE:
                    continue
                if k in STRUCT_KEYS and isinstance(v, list):
                    return True
                if k in ARR_OF_STRUCT and isinstance(v, list):
                    if any(isinstance(x, list) for x in v):
                        return True
                    if any(walk(x) for x in v):
                        return True
                if isinstance(v, dict) and walk(v):
                    return True
            return False
        return walk(doc)

    def classify(self, c, o):
        if o["parsed"] is not None and self.has_array_at_struct(c["doc"]):
            return "array-accepted-as-struct"
        kind = c["mut"].split("@")[0]
        if o["parsed"] is not None:
            return f"accepted-after-{kind}"
        return f"rejected-{kind}"

    def shrink(self, c):
        doc = c["doc"]
        for k in list(doc.keys()):
            m = copy.deepcopy(doc)
            del m[k]
            yield self._mk(c, m)
        for path, tbl in list(self.tables(doc)):
            for k in list(tbl.keys()):
                if path:
                    m = copy.deepcopy(doc)
                    del self.at(m, path)[k]
                    yield self._mk(c, m)

    def _mk(self, c, doc):
        return {"ty": c["ty"], "doc": doc, "mut": c["mut"], "style": 0, "text": list(render_doc(doc, 0).encode("utf-8"))}

    def sample(self, c, o):
        return {"ty": c["ty"], "mutation": c["mut"], "text": bytes(c["text"]).decode("utf-8")[:400], "accepted": o["parsed"] is not None}

    def distribution(self, cases, obs):
        d = {"ty": {}, "mutation_kind": {}, "accepted": 0, "rejected": 0}
        for c in cases:
            d["ty"][c["ty"]] = d["ty"].get(c["ty"], 0) + 1
            k = c["mut"].split("@")[0]
            d["mutation_kind"][k] = d["mutation_kind"].get(k, 0) + 1
            if obs[c["id"]]["parsed"] is None:
                d["rejected"] += 1
            else:
                d["accepted"] += 1
        return d


PROP = C08()
