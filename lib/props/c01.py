"""C01 -- cached/uncached layer requests obey the layer state machine over build histories."""
import os

from common import *  # noqa
from fsgen import cq_fs, cq_tv, cq_path
from tomlgen import render_doc, cq_jtv
from props.c04 import cq_ins, BEH_COQ  # noqa
from props.c01fs import SbomWrites

NAMES = ["a", "a.b", "c"]      # "a.b": a dotted layer name next to its dot-free sibling
METAS = [None, {}, {"version": "1.2"}, {"version": "2"}, {"version": 3}, {"a": {"b": [1, 2]}, "version": "x"}, {"other": True}]
CORRUPT = [None, "{{ not toml", "", "[metadata]\nversion = 1\n", "[types]\nlaunch = true\n\n[metadata]\nversion = \"9\"\n",
           "foo = 1\n", "[types]\nbogus = true\n", "metadata = 3\n", "[types]\ncache = true\nbuild = true\n", "[metadata]\nversion = \"7\"\nextra = [1]\n"]
ERR = {"buildpack": "EBuildpack", "read_layer": "EReadLayer", "generic_meta": "EGenericMeta", "write_meta": "EWriteMeta", "write_io": "EWriteIo",
       "missing_layer": "EMissingLayer", "missing_execd": "EMissingExecd", "delete": "EDelete", "after_create": "EAfterCreate", "other": "EFuelH"}


def bl(s):
    return list(s.encode())


def cq_md(m):
    if m is None:
        return "None"
    t = cq_tv(m)      # (TTbl [...])
    return "(Some %s)" % t[len("(TTbl "):-1]


def cq_md_dump(j):
    """harness dump::generic -> md"""
    if j["opt"] is None:
        return "None"
    t = cq_jtv(j["opt"]["tbl"])
    return "(Some %s)" % t[len("(TTbl "):-1]


def gen_write(rng):
    r = rng.random()
    if r < 0.3:
        return {"w": "meta", "md": rng.choice(METAS)}
    if r < 0.5:
        ins = []
        for _ in range(rng.randint(0, 3)):
            s = rng.choice([{"k": "all"}, {"k": "build"}, {"k": "launch"}, {"k": "process", "p": bl(rng.choice(["web", "w2"]))}])
            ins.append({"s": s, "b": rng.choice(list(BEH_COQ)), "n": bl(rng.choice(["PATH", "X", "Y_Z", "app.name", "app.port", ".hid"])), "v": bl(rng.choice(["", "v", "/a:/b"]))})
        return {"w": "env", "ins": ins}
    if r < 0.7:
        return {"w": "sboms", "l": [[rng.randint(0, 2), bl(rng.choice(["{}", "{\"a\":1}", ""]))] for _ in range(rng.randint(0, 3))]}
    if r < 0.85:
        progs = {}
        for _ in range(rng.randint(0, 2)):
            progs[rng.choice(["p1", "p2", "x.sh"])] = [rng.choice([0o755, 0o700, 0o644]), bl(rng.choice(["#!/bin/sh\n", "bin", ""]))]
        if rng.random() < 0.1:
            progs = {"gone": None}
        return {"w": "execd", "progs": [[bl(k), v] for k, v in progs.items()]}
    if r < 0.9:
        # a symlink inside the layer: to a sibling file, to a directory, dangling (e.g. into a layer that the
        # restore did not bring back), to itself
        rel = rng.choice([["lnk"], ["d", "lnk"], ["node_modules", ".bin", "tool"]])
        return {"w": "link", "rel": [bl(x) for x in rel], "target": bl(rng.choice(["f", "d", "../gone/tool", "lnk", "/nonexistent/x"]))}
    rel = rng.choice([["f"], ["d", "f"], ["bin", "tool"], ["env", "X"], ["d", "e", "g"]])
    return {"w": "file", "rel": [bl(x) for x in rel], "data": bl(rng.choice(["", "data", "x\ny"]))}


def gen_req(rng):
    n = rng.choice(NAMES)
    if rng.random() < 0.28:
        q = {"kind": "uncached", "launch": rng.random() < 0.5, "build": rng.random() < 0.5}
    else:
        m = rng.choice(["G", "V"])
        d = rng.random()
        if d < 0.45:
            inv = {"d": "delete", "cause": rng.randint(0, 9)}
        elif d < 0.85:
            inv = {"d": "replace", "cause": rng.randint(0, 9)}
            if m == "V":
                inv["version"] = rng.choice(["1", "2.0", ""])
            else:
                inv["md"] = rng.choice(METAS)
        else:
            inv = {"d": "err"}
        d = rng.random()
        res = {"d": "keep" if d < 0.55 else "delete" if d < 0.87 else "err", "cause": rng.randint(0, 9)}
        q = {"kind": "cached", "launch": rng.random() < 0.5, "build": rng.random() < 0.5, "m": m, "inv": inv, "res": res}
    return {"op": "req", "n": n, "q": q, "writes": [gen_write(rng) for _ in range(rng.choice([0, 0, 1, 2, 3]))]}


class C01:
    id = "C01"
    stream = "c01"
    extra_streams = [SbomWrites()]
    translator_prefixes = ["shared.rs", "layer_shared", "sbom"]
    coq_targets = ["theories/Checks/C01Hold.vo", "theories/Checks/C01Agree.vo", "theories/Props/C01.vo",
                   "theories/Checks/C01FsHold.vo", "theories/Checks/C01FsAgree.vo"]
    hold_target = "theories/Checks/C01Hold.vo"
    agree_target = "theories/Checks/C01Agree.vo"
    hold_mod = "C01Hold"
    agree_mod = "C01Agree"
    per_shard = 12
    extra_imports = "From LV Require Import Toml FS LayerEnv LayerStore LayerStoreSpec.\n"
    rule = ("histories of 2..4 builds over the layer names a, b, c, each build 1..4 operations: cached_layer "
            "(GenericMetadata or a typed struct {version: String}; restored-layer decision keep/delete/Err and "
            "invalid-metadata decision delete/replace/Err with causes) or uncached_layer, build/launch flags free, each "
            "followed by 0..3 LayerRef writes (write_metadata with valid/invalid/empty/none tables, write_env over all "
            "four scopes, write_sboms with repeated formats, write_exec_d_programs incl. a missing source, plain files "
            "incl. nested and env/ paths); between requests test-side tampering with <layer>.toml (removed, syntax "
            "error, wrong value types, unknown keys, types without metadata); between builds the lifecycle restore "
            "(cache=true keeps dir+metadata without types+SBOMs, launch-only keeps the metadata file, others vanish). "
            "After every operation the whole layers directory is abstracted per layer (tree with modes and contents, "
            "TOML document, SBOM files) and compared. non-trivial = some request saw an existing layer.")
    trusted_base = [
        "Coq 8.16.1 kernel + vm_compute",
        "the abstraction of the layers directory per layer name (harness/src/c01.rs abstract_store) and the simulated "
        "lifecycle restore (same file; spec: LayerStore.restore_lay) as environment models",
        "toml crate text layer (documents are compared as trees read by the toml crate); FS.v primitives inside a layer "
        "directory (validated by the FSM stream); symlinks/permissions of the layers directory itself are C11's subject",
        "translator: delete_layer / SBOM suffix facts (GenLayerShared.v), LayerContentMetadata schema (GenSerde.v) compared "
        "with the hand-written reading on every document seen",
    ]
    assumptions = ["the metadata a ReplaceMetadata decision returns deserialises as the layer's metadata type (inv_valid); "
                   "otherwise handle_layer recurses without bound (termination relies on M's serde round trip)",
                   "layer directories are ordinary directories with default permissions (C11 covers hostile trees)"]

    def corpus(self):
        keep = {"names": NAMES, "ops": [
            {"op": "req", "n": "a", "q": {"kind": "cached", "launch": True, "build": False, "m": "V", "inv": {"d": "delete", "cause": 1}, "res": {"d": "keep", "cause": 2}},
             "writes": [{"w": "meta", "md": {"version": "1"}}, {"w": "sboms", "l": [[0, bl("{}")]]}, {"w": "file", "rel": [bl("f")], "data": bl("x")}]},
            {"op": "restore"},
            {"op": "req", "n": "a", "q": {"kind": "cached", "launch": False, "build": True, "m": "V", "inv": {"d": "delete", "cause": 1}, "res": {"d": "keep", "cause": 5}}, "writes": []},
            {"op": "restore"},
            {"op": "req", "n": "a", "q": {"kind": "cached", "launch": False, "build": True, "m": "V", "inv": {"d": "delete", "cause": 1}, "res": {"d": "delete", "cause": 6}}, "writes": []},
        ]}
        return [keep]

    def gen(self, rng, tier):
        cases = []
        for _ in range(700 if tier == "thorough" else 130):
            ops = []
            for bi in range(rng.randint(2, 4)):
                if bi:
                    ops.append({"op": "restore"})
                for _ in range(rng.randint(1, 4)):
                    if rng.random() < 0.15:
                        ops.append({"op": "corrupt", "n": rng.choice(NAMES), "content": rng.choice(CORRUPT)})
                    else:
                        ops.append(gen_req(rng))
            cases.append({"names": NAMES, "ops": ops})
        return cases

    def to_harness(self, c):
        ops = []
        for o in c["ops"]:
            if o["op"] == "req":
                q = dict(o["q"])
                if q["kind"] == "cached":
                    inv = dict(q["inv"])
                    if "md" in inv:
                        inv["md"] = None if inv["md"] is None else bl(render_doc(inv["md"], 0))
                    if "version" in inv:
                        inv["version"] = bl(inv["version"])
                    q["inv"] = inv
                ws = []
                for w in o["writes"]:
                    w = dict(w)
                    if w["w"] == "meta":
                        w["md"] = None if w["md"] is None else bl(render_doc(w["md"], 0))
                    ws.append(w)
                ops.append({"op": "req", "n": bl(o["n"]), "q": q, "writes": ws})
            elif o["op"] == "corrupt":
                ops.append({"op": "corrupt", "n": bl(o["n"]), "content": None if o["content"] is None else bl(o["content"])})
            else:
                ops.append(o)
        return {"id": c["id"], "names": [bl(n) for n in c["names"]], "ops": ops}

    def run_impl(self, cases, workdir):
        sb = os.path.join(workdir, "sandbox")
        os.makedirs(sb, exist_ok=True)
        return run_harness(self.stream, [self.to_harness(c) for c in cases], workdir, extra_env={"VERIF_SANDBOX": sb})

    # ---------------------------------------------------------------- Coq rendering
    def cq_store(self, a):
        items = []
        for n in NAMES:
            l = a["layers"][n]
            d = "None" if l["dir"] is None else f"(Some {cq_fs(l['dir'])})"
            if l["toml"] is None:
                t = "None"
            elif "doc" in l["toml"]:
                t = f"(Some (Doc {cq_jtv(l['toml']['doc'])}))"
            else:
                t = f"(Some (Raw {cq_bytes(l['toml']['raw'])}))"
            sb = cq_list([f"({cq_bytes(k)}, {cq_bytes(v)})" for k, v in l["sboms"]])
            items.append(f"({cq_bytes(n.encode())}, mkLay {d} {t} {sb})")
        return cq_list(items)

    def cq_request(self, q):
        if q["kind"] == "uncached":
            return f"(QUncached {cq_bool(q['launch'])} {cq_bool(q['build'])})"
        inv = q["inv"]
        if inv["d"] == "delete":
            i = f"(IDelete {inv['cause']}%nat)"
        elif inv["d"] == "replace":
            md = {"version": inv["version"]} if q["m"] == "V" else inv["md"]
            i = f"(IReplace {cq_md(md)} {inv['cause']}%nat)"
        else:
            i = "IErr"
        res = q["res"]
        r = {"keep": f"(RKeep {res['cause']}%nat)", "delete": f"(RDelete {res['cause']}%nat)", "err": "RErr"}[res["d"]]
        return f"(QCached {cq_bool(q['launch'])} {cq_bool(q['build'])} {'MV' if q['m'] == 'V' else 'MG'} {i} {r})"

    def cq_wop(self, w):
        if w["w"] == "meta":
            return f"(WMeta {cq_md(w['md'])})"
        if w["w"] == "env":
            return "(WEnv %s)" % cq_list([cq_ins(i) for i in w["ins"]])
        if w["w"] == "sboms":
            return "(WSboms %s)" % cq_list([f"({i}%nat, {cq_bytes(d)})" for i, d in w["l"]])
        if w["w"] == "execd":
            return "(WExecd %s)" % cq_list(["(%s, %s)" % (cq_bytes(k), "None" if v is None else f"(Some ({v[0]}, {cq_bytes(v[1])}))") for k, v in w["progs"]])
        if w["w"] == "link":
            return f"(WLink {cq_path(w['rel'])} {cq_bytes(w['target'])})"
        return f"(WFile {cq_path(w['rel'])} {cq_bytes(w['data'])})"

    def cq_res(self, r):
        if "err" in r:
            return f"(Err {ERR.get(r['err'], 'EFuelH')})"
        s = r["s"]
        if s == "empty_new":
            return "(Ok SEmptyNew)"
        return "(Ok (%s %d%%nat))" % ({"restored": "SRestored", "empty_invalid": "SEmptyInvalid", "empty_restored": "SEmptyRestored"}[s], r["c"])

    def to_coq(self, c, o):
        steps = []
        extra = False
        for op, ob in zip(c["ops"], o["steps"]):
            extra = extra or bool(ob["post"]["extra"])
            if op["op"] == "restore":
                steps.append(f"(XRestore {self.cq_store(ob['post'])})")
            elif op["op"] == "corrupt":
                if op["content"] is None:
                    cc = "None"
                else:
                    import tomllib
                    try:
                        cc = f"(Some (Doc {cq_tv(tomllib.loads(op['content']))}))"
                    except Exception:
                        cc = f"(Some (Raw {cq_bytes(op['content'].encode())}))"
                steps.append(f"(XCorrupt {cq_bytes(op['n'].encode())} {cc} {self.cq_store(ob['post'])})")
            else:
                calls = cq_list([("(CallRestored %s)" if x["cb"] == "restored" else "(CallInvalid %s)") % cq_md_dump(x["md"]) for x in ob["calls"]])
                ws = []
                for w, wo in zip(op["writes"], ob["writes"]):
                    extra = extra or bool(wo["post"]["extra"])
                    ws.append(f"({self.cq_wop(w)}, {cq_bool(wo['ok'])}, {self.cq_store(wo['post'])})")
                steps.append("(XReq %s %s %s %s %s %s)" % (cq_bytes(op["n"].encode()), self.cq_request(op["q"]), self.cq_res(ob["res"]), calls,
                                                         self.cq_store(ob["post"]), cq_list(ws)))
        return "(mkCase %s %s %s)" % (cq_list([cq_bytes(n.encode()) for n in NAMES]), cq_bool(extra), cq_list(steps))

    def nontrivial(self, c, o):
        return any(ob.get("calls") for ob in o["steps"])

    def classify(self, c, o):
        return "layer-state-machine"

    def shrink(self, c):
        ops = c["ops"]
        for i in range(len(ops)):
            yield dict(c, ops=ops[:i] + ops[i + 1:])
        for i, o in enumerate(ops):
            if o["op"] == "req" and o["writes"]:
                for j in range(len(o["writes"])):
                    yield dict(c, ops=ops[:i] + [dict(o, writes=o["writes"][:j] + o["writes"][j + 1:])] + ops[i + 1:])

    def sample(self, c, o):
        out = []
        for op, ob in zip(c["ops"], o["steps"]):
            if op["op"] == "req":
                out.append({"req": op["n"], "q": op["q"], "result": ob["res"], "calls": [x["cb"] for x in ob["calls"]],
                            "writes": [(w["w"], wo["ok"]) for w, wo in zip(op["writes"], ob["writes"])]})
            else:
                out.append(op["op"])
        return out

    def explain(self, c, o):
        return str(self.sample(c, o))

    def distribution(self, cases, obs):
        d = {"ops": {"req_cached": 0, "req_uncached": 0, "corrupt": 0, "restore": 0}, "results": {}, "writes": {}, "write_errors": 0, "callbacks": {"restored": 0, "invalid": 0}}
        for c in cases:
            for op, ob in zip(c["ops"], obs[c["id"]]["steps"]):
                if op["op"] == "req":
                    d["ops"]["req_" + op["q"]["kind"]] += 1
                    k = ob["res"].get("s") or ("err:" + ob["res"]["err"])
                    d["results"][k] = d["results"].get(k, 0) + 1
                    for x in ob["calls"]:
                        d["callbacks"][x["cb"]] += 1
                    for w, wo in zip(op["writes"], ob["writes"]):
                        d["writes"][w["w"]] = d["writes"].get(w["w"], 0) + 1
                        d["write_errors"] += not wo["ok"]
                else:
                    d["ops"][op["op"]] += 1
        return d


PROP = C01()
