"""C10 -- implicit layer paths: from directories, build/launch only, never persisted."""
import itertools

from common import *  # noqa
from fsgen import *  # noqa
import c03 as c03mod
from c03 import C03, LAYER, R, b, scope_json
import c04 as c04mod

KINDS = ["absent", "dir", "file", "link_dir", "link_file", "dangling"]
SUBS = [b"bin", b"lib", b"include", b"pkgconfig"]
VARS = [b"PATH", b"LIBRARY_PATH", b"LD_LIBRARY_PATH", b"CPATH", b"PKG_CONFIG_PATH"]


class C10(C03):
    id = "C10"
    coq_targets = ["theories/Checks/C03Hold.vo", "theories/Checks/C03Agree.vo", "theories/Props/C10.vo"]
    exhaustive = True
    rule = ("exhaustive: all 6^4 = 1296 assignments of {absent, directory, file, symlink to dir, symlink to file, "
            "dangling symlink} to bin/lib/include/pkgconfig, each with seeded explicit entries on the same five "
            "variables (all behaviours, scopes all/build/launch/process) and the history read(probes) -> "
            "read+write -> read+write -> read(probes); probes = {all, build, launch, process web} x starting "
            "environments that do / do not define the variables. non-trivial = at least one of the four paths is a "
            "directory (following symlinks).")

    def corpus(self):
        return []

    def probes10(self, layer_dirs=False):
        env0s = [[], [[b(v), b(b"/usr/x")] for v in VARS], [[b(VARS[0]), []]]] if not layer_dirs else [[], [[b(v), b(b"/usr/x")] for v in VARS], [[b(VARS[0]), []]],
                 # a starting environment that already lists the layer's own directories (a layer env applied again)
                 [[b(VARS[0]), b(b"/usr/local/x:$ROOT/r/layer/bin")], [b(VARS[2]), b(b"$ROOT/r/layer/lib")], [b(VARS[4]), b(b"$ROOT/r/layer/pkgconfig:/p")]]]
        scopes = [scope_json("all"), scope_json("build"), scope_json("launch"), scope_json("process", b"web")]
        return [{"scope": s, "env0": e} for s in scopes for e in env0s]

    def gen(self, rng, tier):
        cases = []
        for assign in itertools.product(KINDS, repeat=4):
            extra = [{"p": R + [b(b"realdir")], "k": "d", "m": 0o755}, {"p": R + [b(b"realfile")], "k": "f", "m": 0o644, "c": [1]}]
            for sub, kind in zip(SUBS, assign):
                p = LAYER + [b(sub)]
                if kind == "dir":
                    extra.append({"p": p, "k": "d", "m": rng.choice([0o755, 0o555, 0o000])})
                elif kind == "file":
                    extra.append({"p": p, "k": "f", "m": 0o644, "c": [2]})
                elif kind == "link_dir":
                    extra.append({"p": p, "k": "l", "t": b(rng.choice([b"../realdir", b"/r/realdir", b"."]))})
                elif kind == "link_file":
                    extra.append({"p": p, "k": "l", "t": b(rng.choice([b"../realfile", b"keep"]))})
                elif kind == "dangling":
                    extra.append({"p": p, "k": "l", "t": b(rng.choice([b"nope", b"/r/nope", bytes(sub)]))})
            # explicit entries on the same variables, written through libcnb first (writer-canonical)
            ins = []
            for _ in range(rng.randint(0, 4)):
                k = rng.choice(["all", "build", "launch", "process"])
                s = scope_json(k) if k != "process" else scope_json("process", b"web")
                # (also the layer's own standard directories, named explicitly: implicit and explicit entries both count)
                ins.append({"s": s, "b": rng.choice(c04mod.BEHS), "n": b(rng.choice(VARS)),
                            "v": b(rng.choice([b"/opt/y", b"", b":"] + ([] if len(cases) % 4 == 1 else          # (not in the dot_dir runs: they mark the canonical spelling)
                                                                            [b"$ROOT/r/layer/bin", b"$ROOT/r/layer/lib", b"$ROOT/r/layer/pkgconfig"])))})
            ld = len(cases) % 4 != 1      # (not in the dot_dir runs: they mark the canonical spelling)
            steps = [{"op": "write", "ins": ins}, {"op": "read", "probes": self.probes10(ld)}, {"op": "read_write"},
                     {"op": "read_write"}, {"op": "read", "probes": self.probes10(ld)[3:9]}]
            case = {"init": self.base_tree(extra), "dir": LAYER, "steps": steps, "assign": list(assign),
                    "dot_dir": len(cases) % 4 == 1}
            if len(cases) % 4 == 3:
                # a layer directory whose name is not UTF-8 (file names are bytes): the implicit entries carry it unchanged
                odd = list(b"lay\xe9r")
                ren = lambda p: [odd if comp == LAYER[-1] else comp for comp in p]
                case["init"] = [dict(e, p=ren(e["p"])) for e in case["init"]]
                case["dir"] = ren(LAYER)
            if len(cases) % 8 == 6:
                # a layer directory whose name contains the path-list separator (a legal file name)
                odd = list(b"lay:er")
                ren = lambda p: [odd if comp == LAYER[-1] else comp for comp in p]
                case["init"] = [dict(e, p=ren(e["p"])) for e in case["init"]]
                case["dir"] = ren(LAYER)
            cases.append(case)
        if tier == "thorough":
            for _ in range(1500):
                assign = [rng.choice(KINDS) for _ in range(4)]
                cases.append(dict(cases[rng.randrange(1296)], steps=[{"op": "read", "probes": self.probes10()}, {"op": "read_write"},
                                                                    {"op": "read", "probes": self.probes10()}]))
        return cases

    def nontrivial(self, c, o):
        return any(k in ("dir", "link_dir") for k in c.get("assign", []))

    def shrink(self, c):
        for cand in super().shrink(c):
            cand["assign"] = c.get("assign", [])
            cand["dot_dir"] = c.get("dot_dir", False)
            yield cand

    def distribution(self, cases, obs):
        d = super().distribution(cases, obs)
        d["kind_counts"] = {}
        for c in cases:
            for k in c.get("assign", []):
                d["kind_counts"][k] = d["kind_counts"].get(k, 0) + 1
        return d


PROP = C10()
