"""C03 -- layer env is persisted in the spec's on-disk layout and reads back unchanged.
(The stream machinery is shared with C10, which subclasses this.)"""
import itertools

from common import *  # noqa
from fsgen import *  # noqa
import c04 as c04mod
import fsm

R = [list(b"r")]
LAYER = R + [list(b"layer")]
ERRS = fsm.ERRS
NAMES_ENV = [b"A", b"B.c", b".x", b"\xc3\xa9", b"\xff\x80", b"A B", b"=", b"PATH", b"A.append", b"x.y.z", b"-"]
VALUES = [b"", b"v", b"a:b", b"\n", b"\x00\xff", b" v ", b"multi\nline\n"]
# process types may contain dots, dashes and underscores; "worker.high" / "worker.low" / "worker" share a stem
PROCS = [b"web", b"worker", b"worker.high", b"worker.low", b"w-1_x", b"worker.default", b"web.override"]     # (process types may end like a file suffix)
SUFFIXES = [b".append", b".default", b".delim", b".override", b".prepend"]


def b(x):
    return list(x)


def scope_json(k, p=None):
    return {"k": k} if p is None else {"k": "process", "p": list(p)}


class C03:
    id = "C03"
    stream = "c03"
    translator_prefixes = ["layer_env.rs"]
    coq_targets = ["theories/Checks/C03Hold.vo", "theories/Checks/C03Agree.vo", "theories/Props/C03.vo"]
    hold_target = "theories/Checks/C03Hold.vo"
    agree_target = "theories/Checks/C03Agree.vo"
    hold_mod = "C03Hold"
    agree_mod = "C03Agree"
    per_shard = 60
    extra_imports = "From LV Require Import FS LayerEnv.\n"
    rule = ("layer directories with stray files from earlier environments; histories write(old) -> write(new) -> read "
            "with probes (4 scopes incl. an unknown process x 3 starting environments), environments over byte-class "
            "names (dots, non-UTF-8, spaces, '=') x 5 behaviours x {all, build, launch, process web / worker / worker.high / worker.low / w-1_x} with raw "
            "byte values (empty, NUL, newline); plus hand-made spec-shaped env directories for the read side "
            "(suffix-less files, unknown suffixes, directories and symlinks inside env dirs). non-trivial = at least "
            "one write with a non-empty environment or a read of a non-empty directory.")
    trusted_base = [
        "Coq 8.16.1 kernel + vm_compute",
        "FS.v environment model (validated by the fsops stream of C11)",
        "translator: writer/reader suffix tables, env directory names, reader/ writer shape flags",
        "harness: public LayerEnv::write_to_layer_dir / read_from_layer_dir / apply, run as uid 65534",
    ]
    assumptions = [
        "variable names are non-empty byte strings without '/' and NUL; process names are valid process types",
        "no two files of one env directory map to the same (behaviour, name) (e.g. FOO and FOO.override)",
        "directory listing order is unobservable (model lists in sorted order)",
    ]

    def corpus(self):
        # F2: a process-scoped entry, written then read
        ins = [{"s": scope_json("process", b"web"), "b": "override", "n": b(b"A"), "v": b(b"v")}]
        return [{"init": self.base_tree(), "dir": LAYER,
                 "steps": [{"op": "write", "ins": ins}, {"op": "read", "probes": self.probes([b"A"])}]}]

    def base_tree(self, extra=()):
        return [{"p": R, "k": "d", "m": 0o755}, {"p": LAYER, "k": "d", "m": 0o755},
                {"p": LAYER + [b(b"keep")], "k": "f", "m": 0o644, "c": [7]},
                # not environment directories, although their names start like them
                {"p": LAYER + [b(b"env.d")], "k": "d", "m": 0o755},
                {"p": LAYER + [b(b"env.d"), b(b"10-defaults.sh")], "k": "f", "m": 0o644, "c": [8]},
                {"p": LAYER + [b(b"env.example")], "k": "d", "m": 0o755},
                {"p": LAYER + [b(b"envs")], "k": "d", "m": 0o755},
                {"p": LAYER + [b(b"env.sh")], "k": "f", "m": 0o644, "c": [9]},
                {"p": R + [b(b"sibling")], "k": "d", "m": 0o755},
                {"p": R + [b(b"sibling"), b(b"env")], "k": "d", "m": 0o755},
                {"p": R + [b(b"sibling"), b(b"env"), b(b"Z.override")], "k": "f", "m": 0o644, "c": [1]}] + list(extra)

    def probes(self, names):
        env0s = [[], [[b(n), []] for n in names[:2]], [[b(n), b(b"p")] for n in names[:2]]]
        scopes = [scope_json("all"), scope_json("build"), scope_json("launch"), scope_json("process", b"web"),
                  scope_json("process", b"other"), scope_json("process", b"worker.high"), scope_json("process", b"worker")]
        return [{"scope": s, "env0": e} for s in scopes for e in env0s]

    def rand_ins(self, rng, lo=0, hi=5, names=None):
        names = names or NAMES_ENV
        out = []
        for _ in range(rng.randint(lo, hi)):
            k = rng.choice(["all", "all", "build", "launch", "process"])
            s = scope_json(k) if k != "process" else scope_json("process", rng.choice(PROCS))
            out.append({"s": s, "b": rng.choice(c04mod.BEHS), "n": b(rng.choice(names)), "v": b(rng.choice(VALUES))})
        return out

    @staticmethod
    def entry_key(nm):
        """(stem, behaviour suffix) a file name is read as: Rust's file_stem/extension split, no extension = override"""
        if nm != b".." and b"." in nm[1:]:
            i = nm.rindex(b".")
            stem, ext = nm[:i], nm[i:]
        else:
            stem, ext = nm, b".override"
        return (stem, ext)

    def stray(self, rng):
        """left-overs of an earlier environment / foreign content in the env roots"""
        extra = []
        for root in [b"env", b"env.build", b"env.launch"]:
            if rng.random() < 0.1:
                # the env root is a symbolic link to a directory (of the layer, or the sibling env root): writing the
                # environment replaces the LINK; what it points to keeps its files
                if not any(e["p"] == LAYER + [b(b"shared")] for e in extra):
                    extra.append({"p": LAYER + [b(b"shared")], "k": "d", "m": 0o755})
                    extra.append({"p": LAYER + [b(b"shared"), b(b"KEEP.txt")], "k": "f", "m": 0o644, "c": [6]})
                    extra.append({"p": LAYER + [b(b"shared"), b(b"X.override")], "k": "f", "m": 0o644, "c": b(b"shared-x")})
                extra.append({"p": LAYER + [b(root)], "k": "l", "t": b(rng.choice([b"shared", b"shared", b"/r/sibling/env"]) if root != b"env" else b"shared")})      # (targets that exist)
                continue
            if rng.random() < 0.5:
                extra.append({"p": LAYER + [b(root)], "k": "d", "m": 0o755})
                used = set()
                for _ in range(rng.randint(0, 3)):
                    var, sx = rng.choice(NAMES_ENV), rng.choice(SUFFIXES + [b"", b".unknown", b".APPEND", b".\xfe"])
                    nm = var + sx
                    # FOO and FOO.override are one (behaviour, name): which one a read returns depends on the
                    # order of fs::read_dir, which the property does not fix (assumption 2) -- never both
                    key = self.entry_key(nm)
                    p = LAYER + [b(root), b(nm)]
                    if key not in used and not any(e["p"] == p for e in extra):
                        used.add(key)
                        extra.append({"p": p, "k": "f", "m": 0o644, "c": b(rng.choice(VALUES))})
                if root == b"env.launch" and rng.random() < 0.5:
                    extra.append({"p": LAYER + [b(root), b(b"web")], "k": "d", "m": 0o755})
                    extra.append({"p": LAYER + [b(root), b(b"web"), b(b"OLD.default")], "k": "f", "m": 0o644, "c": [9]})
        return extra

    def gen(self, rng, tier):
        cases = []
        n = 2500 if tier == "thorough" else 450
        for _ in range(n):
            old, new = self.rand_ins(rng, 0, 5), self.rand_ins(rng, 0, 5)
            names = sorted({bytes(i["n"]) for i in old + new}) or [b"A"]
            steps = []
            r = rng.random()
            stray = self.stray(rng)
            if any(e["k"] == "l" and len(e["p"]) == len(LAYER) + 1 for e in stray):
                r = 0.0       # (a linked env root is judged by what writing does; reading back and re-writing is about real directories)
            if r < 0.5:
                steps = [{"op": "write", "ins": old}, {"op": "write", "ins": new}, {"op": "read", "probes": self.probes(names)}]
            elif r < 0.8:
                steps = [{"op": "write", "ins": new}, {"op": "read", "probes": self.probes(names)}, {"op": "read_write"},
                         {"op": "read", "probes": self.probes(names)[:5]}]
            else:
                steps = [{"op": "read", "probes": self.probes(names)}, {"op": "write", "ins": new}]
            cases.append({"init": self.base_tree(stray), "dir": LAYER, "steps": steps})
        # spec-shaped directories for the read side
        for _ in range(n // 3):
            extra = []
            for root in [b"env", b"env.build", b"env.launch"]:
                if rng.random() < 0.7:
                    extra.append({"p": LAYER + [b(root)], "k": "d", "m": 0o755})
                    used = set()
                    for _ in range(rng.randint(0, 4)):
                        var = rng.choice(NAMES_ENV[:8])
                        sx = rng.choice(SUFFIXES + [b"", b".unknown", b".Override", b".default.bak", b".\xff", b".\xc3\x28", b".", b".append\xff"])
                        key = self.entry_key(var + sx)
                        if key in used:
                            continue
                        used.add(key)
                        extra.append({"p": LAYER + [b(root), b(var + sx)], "k": "f", "m": 0o644, "c": b(rng.choice(VALUES))})
                    if rng.random() < 0.3:
                        extra.append({"p": LAYER + [b(root), b(b"subdir")], "k": "d", "m": 0o755})
                        extra.append({"p": LAYER + [b(root), b(b"subdir"), b(b"Q.override")], "k": "f", "m": 0o644, "c": [5]})
                    if rng.random() < 0.2:
                        extra.append({"p": LAYER + [b(root), b(b"LNK.override")], "k": "l", "t": b(b"../keep")})
            cases.append({"init": self.base_tree(extra), "dir": LAYER,
                          "steps": [{"op": "read", "probes": self.probes([v for v in NAMES_ENV[:3]] + [b"Q", b"LNK"])}]})
        return cases

    def run_impl(self, cases, workdir):
        sb = os.path.join(workdir, "sandbox")
        os.makedirs(sb, exist_ok=True)
        os.chmod(sb, 0o1777)
        os.chmod(workdir, 0o777)
        return run_harness(self.stream, cases, workdir, extra_env={"VERIF_SANDBOX": sb}, prefix=UNPRIV)

    def cq_step(self, st, ob):
        if st["op"] == "write":
            # ($ROOT in a value stands for the sandbox: the model's paths are sandbox-relative)
            rel = lambda i: dict(i, v=list(bytes(i["v"]).replace(b"$ROOT", b"")))
            s = "(SWrite %s)" % cq_list([c04mod.cq_ins(rel(i)) for i in st["ins"]])
        elif st["op"] == "read":
            rel0 = lambda e: [[k, list(bytes(v).replace(b"$ROOT", b""))] for k, v in e]
            s = "(SRead %s)" % cq_list(["(%s, %s)" % (c04mod.cq_scope(p["scope"]), c04mod.cq_pairs(rel0(p["env0"]))) for p in st["probes"]])
        else:
            s = "SReadWrite"
        r = ob["res"]
        if r["ok"]:
            res = "(SOk %s)" % cq_list([c04mod.cq_pairs(p) for p in r.get("probes", [])])
        else:
            res = "(SErr %s)" % (f"(Some {r['err']})" if r["err"] in ERRS else "None")
        return f"({s}, {res}, {cq_fs(ob['snapshot'])})"

    def to_coq(self, c, o):
        steps = cq_list([self.cq_step(st, ob) for st, ob in zip(c["steps"], o["steps"])])
        return f"(mkCase {cq_fs(o['pre'])} {cq_path(c['dir'])} {steps})"

    def nontrivial(self, c, o):
        return any(st["op"] == "write" and st["ins"] for st in c["steps"]) or len(c["init"]) > 7

    def classify(self, c, o):
        for st, ob in zip(c["steps"], o["steps"]):
            if st["op"] in ("read", "read_write") and not ob["res"]["ok"] and ob["res"].get("err") == "EISDIR":
                return "process-env-unreadable"
        return "layer-env-fs"

    def shrink(self, c):
        steps = c["steps"]
        for i in range(len(steps)):
            if len(steps) > 1:
                yield {"init": c["init"], "dir": c["dir"], "steps": steps[:i] + steps[i + 1:]}
        for i, st in enumerate(steps):
            if st["op"] == "write":
                for j in range(len(st["ins"])):
                    ns = [dict(x) for x in steps]
                    ns[i] = {"op": "write", "ins": st["ins"][:j] + st["ins"][j + 1:]}
                    yield {"init": c["init"], "dir": c["dir"], "steps": ns}
            if st["op"] == "read" and len(st["probes"]) > 1:
                ns = [dict(x) for x in steps]
                ns[i] = {"op": "read", "probes": st["probes"][:1]}
                yield {"init": c["init"], "dir": c["dir"], "steps": ns}
        init = c["init"]
        for i in range(2, len(init)):
            n = init[i]
            rest = [m for m in init if not (len(m["p"]) >= len(n["p"]) and m["p"][:len(n["p"])] == n["p"])]
            if len(rest) < len(init):
                yield {"init": rest, "dir": c["dir"], "steps": steps}

    def sample(self, c, o):
        def sp(p):
            return "/".join(bytes(x).decode("latin-1") for x in p)
        return {"tree": [sp(n["p"]) for n in c["init"]][2:],
                "steps": [st["op"] + (":" + ",".join("%s/%s/%s" % (i["s"]["k"], i["b"], bytes(i["n"]).decode("latin-1")) for i in st.get("ins", []))) for st in c["steps"]],
                "results": [ob["res"].get("err", "ok") for ob in o["steps"]],
                "final_env_files": [sp(n["p"]) for n in o["steps"][-1]["snapshot"] if len(n["p"]) > 2 and bytes(n["p"][2]).startswith(b"env")]}

    def distribution(self, cases, obs):
        d = {"steps": {}, "results": {}, "process_entries": 0, "non_utf8_names": 0}
        for c in cases:
            for st, ob in zip(c["steps"], obs[c["id"]]["steps"]):
                d["steps"][st["op"]] = d["steps"].get(st["op"], 0) + 1
                k = ob["res"].get("err", "ok")
                d["results"][k] = d["results"].get(k, 0) + 1
                for i in st.get("ins", []):
                    if i["s"]["k"] == "process":
                        d["process_entries"] += 1
                    if max(i["n"]) > 127:
                        d["non_utf8_names"] += 1
        return d


PROP = C03()
