"""FSM -- validation stream of the environment model FS.v (not a property; runs inside C11 as well)."""
from common import *  # noqa
from fsgen import *  # noqa

ERRS = {"ENOENT", "ENOTDIR", "EACCES", "ELOOP", "EEXIST", "EISDIR", "ENOTEMPTY", "EINVAL"}


class FSM:
    id = "FSM"
    stream = "fsops"
    translator_prefixes = []
    coq_targets = ["theories/Checks/FSMHold.vo", "theories/Checks/FSMAgree.vo"]
    hold_target = "theories/Checks/FSMHold.vo"
    agree_target = "theories/Checks/FSMAgree.vo"
    hold_mod = "FSMHold"
    agree_mod = "FSMAgree"
    per_shard = 150
    extra_imports = "From LV Require Import FS.\n"
    rule = "random trees (depth<=3, 4 names, owner modes, every symlink kind) x random sequences of 1..6 primitive std::fs calls"
    trusted_base = ["the real kernel + Rust std as the reference"]
    assumptions = []

    def corpus(self):
        return []

    def gen(self, rng, tier, n=None):
        cases = []
        n = n or (6000 if tier == "thorough" else 1500)
        for _ in range(n):
            init = gen_tree(rng)
            ops = []
            for _ in range(rng.randint(1, 6)):
                k = rng.choice(["mkdir", "create_dir_all", "write", "read", "unlink", "rmdir", "remove_dir_all", "chmod",
                                "symlink", "copy", "readdir", "stat", "lstat", "exists", "is_dir", "is_file"])
                op = {"op": k, "p": rand_path(rng)}
                if k == "remove_dir_all":
                    # address an entry of the generated tree directly (all its proper prefixes are real
                    # directories): removing a directory through a symlink that lives inside it is a
                    # self-referential corner std handles by its own rules and the modelled code never does
                    op["p"] = list(rng.choice(init)["p"]) + ([list(b"nope")] if rng.random() < 0.1 else [])
                    if op["p"] == [list(b"r")]:
                        op["p"] = [list(b"r"), list(b"a")]
                if k == "write":
                    op["c"] = [rng.choice([88, 89]) for _ in range(rng.randint(0, 2))]
                if k == "chmod":
                    op["m"] = rng.choice(DIR_MODES + FILE_MODES)
                if k == "symlink":
                    op["t"] = list(rng.choice([b"a", b"../b", b"/r/a/b", b"nope", b"."]))
                if k == "copy":
                    # destination is a fresh name: copying a file onto itself (directly or through links)
                    # truncates it, which the modelled code never does
                    op["q"] = rand_path(rng, max_len=2)[:-1] + [list(b"z")]
                ops.append(op)
            if any(op["op"] == "remove_dir_all" for op in ops):
                # std::fs::remove_dir_all fails part-way on directories it cannot list/empty; the model
                # reports the error without the partial deletion, so such trees are not generated
                for n in init:
                    if n["k"] == "d":
                        n["m"] = 0o755
                ops = [op for op in ops if op["op"] != "chmod"]
            cases.append({"init": init, "ops": ops})
        return cases

    def run_impl(self, cases, workdir):
        sb = os.path.join(workdir, "sandbox")
        os.makedirs(sb, exist_ok=True)
        os.chmod(sb, 0o1777)
        os.chmod(workdir, 0o777)
        return run_harness(self.stream, cases, workdir, extra_env={"VERIF_SANDBOX": sb}, prefix=UNPRIV)

    def cq_op(self, op):
        k, p = op["op"], cq_path(op["p"])
        return {
            "mkdir": f"OMkdir {p}", "create_dir_all": f"OCreateDirAll {p}", "read": f"ORead {p}",
            "unlink": f"OUnlink {p}", "rmdir": f"ORmdir {p}", "remove_dir_all": f"ORemoveDirAll {p}",
            "readdir": f"OReaddir {p}", "stat": f"OStat {p}", "lstat": f"OLstat {p}", "exists": f"OExists {p}",
            "is_dir": f"OIsDir {p}", "is_file": f"OIsFile {p}",
        }.get(k) or (f"OWrite {p} {cq_bytes(op['c'])}" if k == "write" else
                     f"OChmod {p} {op['m']}" if k == "chmod" else
                     f"OSymlink {cq_bytes(op['t'])} {p}" if k == "symlink" else
                     f"OCopy {p} {cq_path(op['q'])}")

    def cq_res(self, r):
        if not r["ok"]:
            return f"(RErr {r['err']})" if r["err"] in ERRS else "ROtherErr"
        if "c" in r:
            return f"(RBytes (Raw {cq_bytes(r['c'])}))"
        if "names" in r:
            return f"(RNames {cq_list([cq_bytes(n) for n in r['names']])})"
        if "k" in r:
            return "(RKind %s %d)" % ({"f": "KFile", "d": "KDir", "l": "KLink"}[r["k"]], r["m"])
        if "b" in r:
            return f"(RBool {cq_bool(r['b'])})"
        return "RUnit"

    def to_coq(self, c, o):
        ops = cq_list([f"({self.cq_op(op)}, {self.cq_res(r)})" for op, r in zip(c["ops"], o["results"])])
        return f"(mkCase {cq_fs(c['init'])} {ops} {cq_fs(o['snapshot'])})"

    def nontrivial(self, c, o):
        return any(r["ok"] for r in o["results"])

    def classify(self, c, o):
        return "fs-model"

    def shrink(self, c):
        for i in range(len(c["ops"])):
            if len(c["ops"]) > 1:
                yield {"init": c["init"], "ops": c["ops"][:i] + c["ops"][i + 1:]}
        for i in range(len(c["init"])):
            n = c["init"][i]
            rest = [m for m in c["init"] if not (len(m["p"]) >= len(n["p"]) and m["p"][:len(n["p"])] == n["p"])]
            if len(rest) < len(c["init"]):
                yield {"init": rest, "ops": c["ops"]}

    def sample(self, c, o):
        return {"init": [("/".join(bytes(x).decode("latin-1") for x in n["p"]), n["k"], n.get("m"), bytes(n.get("t", [])).decode("latin-1")) for n in c["init"]],
                "ops": [(op["op"], "/".join(bytes(x).decode("latin-1") for x in op["p"])) for op in c["ops"]],
                "results": [r.get("err", "ok") for r in o["results"]]}

    def distribution(self, cases, obs):
        d = {"ops": {}, "results": {}}
        for c in cases:
            for op, r in zip(c["ops"], obs[c["id"]]["results"]):
                d["ops"][op["op"]] = d["ops"].get(op["op"], 0) + 1
                k = "ok" if r["ok"] else r["err"]
                d["results"][k] = d["results"].get(k, 0) + 1
        return d


PROP = FSM()
