"""C20 -- identical inputs give byte-identical layer and phase outputs."""
import itertools
import os
import shutil

import bprun
from common import *  # noqa
from props.c01 import NAMES, bl, PROP as C01P
from props.c02 import PROBES, gen_layer, PROP as C02P
from props.c05 import base_cfg
from props.c04 import BEH_COQ


def rich_layer(rng):
    """a layer whose result exercises the unordered containers: several processes, several exec.d programs"""
    L = gen_layer(rng)
    for key in ("create", "update"):
        if L[key] is None:
            L[key] = {"md": {"version": "1"}, "env": None, "execd": [], "sboms": [], "files": []}
        ins = []
        for p in rng.sample(["web", "worker", "w2", "release", "console", "z"], rng.randint(2, 6)):
            for n in rng.sample(["PATH", "X", "Y_Z", "A", "B"], rng.randint(1, 3)):
                ins.append({"s": {"k": "process", "p": bl(p)}, "b": rng.choice(list(BEH_COQ)), "n": bl(n), "v": bl(rng.choice(["", "v", "/a:/b"]))})
        for k in ("all", "build", "launch"):
            for n in rng.sample(["PATH", "X", "Y_Z", "A", "B"], rng.randint(0, 3)):
                ins.append({"s": {"k": k}, "b": rng.choice(list(BEH_COQ)), "n": bl(n), "v": bl("v")})
        rng.shuffle(ins)
        L[key]["env"] = ins
        L[key]["execd"] = [[bl(n), [rng.choice([0o755, 0o700]), bl("#!/bin/sh\necho " + n)]] for n in rng.sample(["p1", "p2", "x.sh", "aa", "zz", "m"], rng.randint(2, 6))]
        if rng.random() < 0.3:
            # names that share their last component (rejected by the unchanged code -- consistently in both processes)
            L[key]["execd"] += [[bl("nodejs/setup_env"), [0o755, bl("#!/bin/sh\necho node")]], [bl("python/setup_env"), [0o755, bl("#!/bin/sh\necho python")]]]
        L[key]["sboms"] = [[i, bl("{\"f\":%d}" % i)] for i in rng.sample([0, 1, 2], rng.randint(1, 3))]
    return L


class C20:
    id = "C20"
    stream = "c20"
    translator_prefixes = ["determinism", "shared.rs: fn replace_layer_exec_d_programs", "layer_env.rs"]
    coq_targets = ["theories/Checks/C20Hold.vo", "theories/Checks/C20Agree.vo", "theories/Props/C20.vo"]
    hold_target = "theories/Checks/C20Hold.vo"
    agree_target = "theories/Checks/C20Agree.vo"
    hold_mod = "C20Hold"
    agree_mod = "C20Agree"
    per_shard = 200
    rule = ("the history generators of C01 (struct API) and C02 (trait API), the latter enriched so that every result "
            "carries 2..6 process scopes, 2..6 exec.d programs and 1..3 SBOMs (the unordered containers), and the build / "
            "detect phase configurations of C05 that write outputs; every scenario is executed by two separate processes "
            "(fresh hash seeds, different pids and sandbox paths) and the resulting trees are compared byte for byte "
            "including names and permission bits. non-trivial = at least 3 files compared.")
    trusted_base = [
        "Coq 8.16.1 kernel + vm_compute",
        "translator: inventory of HashMap/HashSet mentions, of loops over them and of clock/random sources in libcnb, "
        "libcnb-data and libcnb-common (translator/src/determinism.rs), compared with the reviewed lists in C20Agree",
        "Rust's per-process random SipHash keys as the source of iteration-order variation between the two runs",
        "toml crate: tables are BTreeMaps (no preserve_order feature), serialisation is a function of the value",
    ]
    assumptions = ["exec.d program output (ExecDProgramOutput, a HashMap written to fd 3 at launch) is not among the "
                   "files the property lists and is not compared",
                   "the buildpack's own logic is deterministic (the test buildpack is)"]

    def corpus(self):
        return []

    def gen(self, rng, tier):
        cases = []
        n = 60 if tier == "thorough" else 16
        for c in C01P.gen(rng, "quick")[:n]:
            h = C01P.to_harness(dict(c, id=0))
            cases.append({"kind": 1, "names": h["names"], "ops": h["ops"], "probes": PROBES})
        for _ in range(n):
            ops = []
            for bi in range(rng.randint(1, 3)):
                if bi:
                    ops.append({"op": "restore"})
                for _ in range(rng.randint(1, 3)):
                    ops.append({"op": "handle", "n": rng.choice(NAMES), "layer": rich_layer(rng)})
            h = C02P.to_harness({"id": 0, "names": NAMES, "ops": ops})
            cases.append({"kind": 2, "names": h["names"], "ops": h["ops"], "probes": PROBES})
        # designed histories: the same exec.d program names written again with other content, over a kept restored
        # layer (struct API) and through an update (trait API) -- what ends up in exec.d is a function of the
        # content handed over, not of when the files were written
        def keep_req(progs):
            return {"op": "req", "n": "a", "q": {"kind": "cached", "launch": True, "build": False, "m": "G",
                                                 "inv": {"d": "delete", "cause": 1}, "res": {"d": "keep", "cause": 2}},
                    "writes": [{"w": "execd", "progs": [[bl(k), [0o755, bl(v)]] for k, v in progs]}]}
        hist = [keep_req([("p1", "#!/bin/sh\necho v1\n"), ("x.sh", "one")]), {"op": "restore"},
                keep_req([("p1", "#!/bin/sh\necho v2\n"), ("x.sh", "two")])]
        h = C01P.to_harness({"id": 0, "names": NAMES, "ops": hist})
        cases.append({"kind": 1, "names": h["names"], "ops": h["ops"], "probes": PROBES})

        def upd_layer(content):
            res = {"md": {"version": "1"}, "env": [], "execd": [[bl("p1"), [0o755, bl(content)]]], "sboms": [], "files": []}
            return {"types": {"launch": True, "build": False, "cache": True}, "m": "G", "strategy": "update", "migrate": {"d": "recreate"},
                    "create": res, "update": res}
        ops = [{"op": "handle", "n": "c", "layer": upd_layer("old program")}, {"op": "restore"},
               {"op": "handle", "n": "c", "layer": upd_layer("new program")}]
        h = C02P.to_harness({"id": 0, "names": NAMES, "ops": ops})
        cases.append({"kind": 2, "names": h["names"], "ops": h["ops"], "probes": PROBES})
        # a failed call: ONE exec.d program whose source file is missing (no unordered container involved, so the
        # failure and whatever it leaves behind are a function of the inputs); the trees are compared although an
        # operation failed -- a later build finds that directory
        def missing_layer(strategy):
            good = {"md": {"version": "1"}, "env": [], "execd": [[bl("p1"), [0o755, bl("prog")]]], "sboms": [], "files": [[[bl("f")], bl("x")]]}
            bad = dict(good, execd=[[bl("gone"), None]])
            return {"types": {"launch": True, "build": False, "cache": True}, "m": "G", "strategy": strategy, "migrate": {"d": "recreate"},
                    "create": bad if strategy == "create" else good, "update": bad}
        for strat, ops in (("create", [{"op": "handle", "n": "c", "layer": missing_layer("create")}]),
                           ("update", [{"op": "handle", "n": "c", "layer": missing_layer("update")}, {"op": "restore"},
                                       {"op": "handle", "n": "c", "layer": missing_layer("update")}])):
            h = C02P.to_harness({"id": 0, "names": NAMES, "ops": ops})
            cases.append({"kind": 2, "names": h["names"], "ops": h["ops"], "probes": PROBES, "cmp_failed": True})
        def odd_layer():
            ins = []
            for p in ["web", "worker", "release", "clock", "console", "jobs/nightly", "a b"]:
                ins.append({"s": {"k": "process", "p": bl(p)}, "b": "override", "n": bl("X"), "v": bl(p)})
            res = {"md": {"version": "1"}, "env": ins, "execd": [], "sboms": [], "files": []}
            return {"types": {"launch": True, "build": False, "cache": True}, "m": "G", "strategy": "update", "migrate": {"d": "recreate"},
                    "create": res, "update": res}
        h = C02P.to_harness({"id": 0, "names": NAMES, "ops": [{"op": "handle", "n": "c", "layer": odd_layer()}]})
        cases.append({"kind": 2, "names": h["names"], "ops": h["ops"], "probes": PROBES, "cmp_failed": True})
        req = {"op": "req", "n": "a", "q": {"kind": "cached", "launch": True, "build": False, "m": "G",
                                            "inv": {"d": "delete", "cause": 1}, "res": {"d": "keep", "cause": 2}},
               "writes": [{"w": "file", "rel": [bl("bin"), bl("tool")], "data": bl("t")}, {"w": "execd", "progs": [[bl("gone"), None]]}]}
        h = C01P.to_harness({"id": 0, "names": NAMES, "ops": [req, {"op": "restore"}, req]})
        cases.append({"kind": 1, "names": h["names"], "ops": h["ops"], "probes": PROBES, "cmp_failed": True})
        # exec.d programs registered again from the layer's own exec.d, each under the other's name: the sources are gone
        # when they are read (the directory is wiped first) -- whatever happens, it happens the same way in every process
        first = keep_req([("a", "AAAA"), ("b", "BBBB")])
        swap = {"op": "req", "n": "a", "q": {"kind": "cached", "launch": True, "build": False, "m": "G",
                                             "inv": {"d": "delete", "cause": 1}, "res": {"d": "keep", "cause": 2}},
                "writes": [{"w": "execd", "progs": [[bl("a"), {"layer_rel": [bl("exec.d"), bl("b")]}], [bl("b"), {"layer_rel": [bl("exec.d"), bl("a")]}]]}]}
        h = C01P.to_harness({"id": 0, "names": NAMES, "ops": [first, {"op": "restore"}, swap]})
        for _ in range(6):
            cases.append({"kind": 1, "names": h["names"], "ops": h["ops"], "probes": PROBES, "cmp_failed": True})
        # two exec.d names for ONE source file of the layer: both are installed, the source stays
        tool = keep_req([("z", "ZZ")])
        tool["writes"].insert(0, {"w": "file", "rel": [bl("bin"), bl("multitool")], "data": bl("#!/bin/sh\n")})
        both = {"op": "req", "n": "a", "q": {"kind": "cached", "launch": True, "build": False, "m": "G",
                                             "inv": {"d": "delete", "cause": 1}, "res": {"d": "keep", "cause": 2}},
                "writes": [{"w": "execd", "progs": [[bl("10-env"), {"layer_rel": [bl("bin"), bl("multitool")]}],
                                                      [bl("20-path"), {"layer_rel": [bl("bin"), bl("multitool")]}]]}]}
        h = C01P.to_harness({"id": 0, "names": NAMES, "ops": [tool, {"op": "restore"}, both]})
        for _ in range(6):
            cases.append({"kind": 1, "names": h["names"], "ops": h["ops"], "probes": PROBES, "cmp_failed": True})
        subsets = [["cdx", "spdx", "syft"], ["syft"], []]
        for la, st, bs, ls in itertools.product([True, False], [True, False], subsets, subsets):
            cases.append({"kind": 5, "cfg": base_cfg(exe="build", nargs=3, store="ok", pre=True,
                                                     build={"error": False, "launch": la, "store": st, "build_sboms": bs, "launch_sboms": ls})})
        # a launch.toml with several processes, slices and labels, one label key set twice
        for st in (True, False, True, False, True, False):      # (a two-way choice shows with probability 1/2 per pair of runs)
            cases.append({"kind": 5, "cfg": base_cfg(exe="build", nargs=3, store="ok", pre=True,
                                                     build={"error": False, "launch": "rich", "store": st, "build_sboms": [], "launch_sboms": ["cdx"]})})
        # metadata tables assembled from HashMaps by the buildpack (build plan requirement, store)
        cases.append({"kind": 5, "cfg": base_cfg(exe="build", nargs=3, store="ok", pre=True,
                                                 build={"error": False, "launch": True, "store": "rich", "build_sboms": [], "launch_sboms": []})})
        # a launch.toml that cannot be written (a working directory that is no UTF-8): both runs fail, and leave the same files
        for st in (True, False):
            cases.append({"kind": 5, "cfg": base_cfg(exe="build", nargs=3, store="ok", pre=st,
                                                     build={"error": False, "launch": "bad_wd", "store": st, "build_sboms": ["cdx"], "launch_sboms": []})})
        for det in ("pass_plan", "pass", "pass_plan_multi", "pass_plan_multi", "pass_plan_meta", "pass_plan_meta", "pass_plan_dup", "pass_plan_dup"):
            cases.append({"kind": 5, "cfg": base_cfg(exe="detect", nargs=2, det=det, pre=True)})
        return cases

    def run_impl(self, cases, workdir):
        sb = os.path.join(workdir, "sandbox")
        os.makedirs(sb, exist_ok=True)
        os.chmod(workdir, 0o755)
        lay = [c for c in cases if c["kind"] in (1, 2)]
        obs = run_harness(self.stream, lay, workdir, extra_env={"VERIF_SANDBOX": sb}) if lay else {}
        pdir = os.path.join(workdir, "phase")
        os.makedirs(pdir, exist_ok=True)
        os.chmod(pdir, 0o755)
        for c in cases:
            if c["kind"] == 5:
                trees = []
                for tag in ("a", "second_run_longer_path"):
                    root = os.path.join(pdir, f"ph_{c['id']}_{tag}")
                    try:
                        o = bprun.run_one(dict(c["cfg"], want_tree=True), root)
                    finally:
                        shutil.rmtree(root, ignore_errors=True)
                    trees.append((o["exit"], o["tree"]))
                obs[c["id"]] = {"id": c["id"], "equal": trees[0] == trees[1], "files": len(trees[0][1]), "bytes": sum(len(x[1]) // 2 for x in trees[0][1]),
                                "diff": None if trees[0] == trees[1] else [trees[0][1][:3], trees[1][1][:3]]}
        return obs

    def to_coq(self, c, o):
        return "(mkCase %d %d%%nat %d%%nat %s)" % (c["kind"], o["files"], o["bytes"], cq_bool(o["equal"]))

    def nontrivial(self, c, o):
        return o["files"] >= 3

    def classify(self, c, o):
        return "nondeterministic-output"

    def shrink(self, c):
        if "ops" in c:
            for i in range(len(c["ops"])):
                yield dict(c, ops=c["ops"][:i] + c["ops"][i + 1:])

    def sample(self, c, o):
        return {"kind": {1: "struct history", 2: "trait history", 5: "phase"}[c["kind"]], "files": o["files"], "bytes": o["bytes"], "equal": o["equal"]}

    def explain(self, c, o):
        return f"first difference: {o.get('diff')}"

    def distribution(self, cases, obs):
        d = {"kinds": {}, "files_compared": 0, "bytes_compared": 0}
        for c in cases:
            k = {1: "struct history", 2: "trait history", 5: "phase"}[c["kind"]]
            d["kinds"][k] = d["kinds"].get(k, 0) + 1
            d["files_compared"] += obs[c["id"]]["files"]
            d["bytes_compared"] += obs[c["id"]]["bytes"]
        return d


PROP = C20()
