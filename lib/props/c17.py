"""C17 -- libcnb-test passes configuration to pack and docker completely, unambiguously."""
import os

from common import *  # noqa
from ltutil import FIXTURE_LISTING

VALS = ["", "-", "--", "--rm", "-e", "a b", "a=b", "=x", "x=", "ünï©ödé ✓", "--env=X=Y", "--privileged", "$(id)", "a\tb",
        "'q'", '"dq"', "a,b", "--name", "--name=evil", "--mount", "libcnbtest_aaaaaaaaaaaa", "\\", "*", "new\nline"]
KEYS = ["A", "PATH", "MY_VAR", "a.b", "-k", "--rm", "k k", "ü", "K2"]
BPS = ["heroku/nodejs", "-x", "--builder", "docker://x/y:1", "a b", "urn:cnb:registry:heroku/ruby", "--trust-builder", "--env=A=B", "ü/ß"]
BUILDERS = ["heroku/builder:22", "--weird", "b b", "builder=1", "registry.example.com/Team/builder:24-RC1", "heroku/builder:Noble_2024.10"]
APPDIRS = ["fixtures/app", "a b/ünï", "./x", "-app", "$ABS/appdir", "$ABS/a b/--x", "x//y", "t/",
           "$TMP/fix", "$TMP/a b/app"]        # $TMP: a fixture below the system temporary directory
PORTS = [0, 1, 80, 443, 8080, 65535]
MPATHS = ["/src", "/a b", "/ü", "rel/p", "/x=y", "/-d", "--mount", "/target=/etc", "/a;b"]


def comp_key(p):
    """std::path::Path ordering (component-wise; RootDir sorts before Normal)."""
    comps = []
    if p.startswith("/"):
        comps.append((1, b""))
    parts = [x for x in p.split("/") if x != ""]
    for i, x in enumerate(parts):
        if x == ".":
            if i == 0 and not p.startswith("/"):
                comps.append((2, b""))
            continue
        comps.append((3, b"") if x == ".." else (4, x.encode()))
    return comps


class C17:
    id = "C17"
    stream = "lt"
    translator_prefixes = ["docker.rs", "pack.rs", "test_context.rs: TestContext::start_container"]
    coq_targets = ["theories/Checks/C17Hold.vo", "theories/Checks/C17Agree.vo", "theories/Props/C17.vo"]
    hold_target = "theories/Checks/C17Hold.vo"
    agree_target = "theories/Checks/C17Agree.vo"
    hold_mod = "C17Hold"
    agree_mod = "C17Agree"
    per_shard = 60
    extra_imports = "From LV Require Import SpecDocs Argv.\n"
    rule = ("one TestRunner::build with one start_container per case, run through the public libcnb-test API against "
            "stand-in pack/docker executables that log argv: builder, buildpack references, environment values, "
            "entrypoint and command elements drawn from strings with leading dashes (incl. real option names such as "
            "--privileged, --env=X=Y, --name=evil), spaces, '=', quotes, newlines, Unicode and the empty string; env keys "
            "without '='; 0..3 ports from {0,1,80,443,8080,65535}; 0..2 bind mounts (paths without ','); relative and "
            "absolute app dirs with spaces/dashes; with and without app_dir_preprocessor. non-trivial = valid_ccfg && "
            "valid_bcfgv (hypotheses of c17_run_judged / c17_pack_judged).")
    trusted_base = [
        "Coq 8.16.1 kernel + vm_compute",
        "Argv.parse_opts as the environment model of docker's / pack's pflag option grammar (docker run: options stop at "
        "the first positional; pack build: interspersed), publish_view / mount_view / env_view as docker's reading of "
        "the option values; not validated against a real docker (none in the sandbox)",
        "harness: stand-in docker/pack executables (harness/src/bin/standin.rs), one process per scenario; Python compares "
        "directory listings (fixture untouched, private copy = fixture + preprocessor's file)",
        "translator: string literals of the From<...> for Command impls (GenLibcnbTest.v)",
    ]
    assumptions = ["env keys contain no '=' (not valid variable names otherwise); bind-mount paths contain no ',' "
                   "(docker's --mount is comma separated; see c17_mount_comma_refuted); strings contain no NUL",
                   "BuildpackReference::CurrentCrate / WorkspaceBuildpack (cargo packaging) are covered by C15, not here"]

    def corpus(self):
        return []

    def gen(self, rng, tier):
        cases = []
        for _ in range(900 if tier == "thorough" else 200):
            def envs():
                """a history of env()/envs() calls with overlapping keys and the environment it configures"""
                calls = []
                for _ in range(rng.randint(0, 3)):
                    pairs = [[rng.choice(KEYS), rng.choice(VALS)] for _ in range(rng.randint(1, 3))]
                    calls.append({"via": rng.choice(["env", "envs"]), "pairs": pairs})
                final = {}
                for call in calls:
                    for k, v in call["pairs"]:
                        final[k] = v
                return final, calls
            benv, benv_calls = envs()
            cenv, cenv_calls = envs()
            c = {
                "builder": rng.choice(BUILDERS), "app_dir": rng.choice(APPDIRS),
                "buildpacks": [rng.choice(BPS) for _ in range(rng.randint(0, 3))], "benv": benv, "benv_calls": benv_calls,
                "pre": rng.random() < 0.4, "app_dir_via_setter": rng.random() < 0.3,
                "entrypoint": rng.choice([None] + VALS) if rng.random() < 0.7 else None,
                "command": None if rng.random() < 0.3 else [rng.choice(VALS) for _ in range(rng.randint(0, 3))],
                "cenv": cenv, "cenv_calls": cenv_calls, "ports": sorted(set(rng.choice(PORTS) for _ in range(rng.randint(0, 3)))),
                "mounts": {rng.choice(MPATHS): rng.choice(MPATHS) for _ in range(rng.randint(0, 2))},
                # a build that is expected to fail and does (pack exits non-zero): still one invocation, same arguments
                "pack_fails": rng.random() < 0.25,
            }
            # the command set once or twice before on the same configuration (a config reused for several containers)
            c["command_history"] = [[rng.choice(VALS) for _ in range(rng.randint(1, 2))] for _ in range(rng.choice([0, 0, 1, 2]))] if c["command"] is not None else []
            cases.append(c)
        return cases

    def to_harness(self, c):
        def b(x):
            return list(x.encode())
        cfg = {"builder": b(c["builder"]), "app_dir": b(c["app_dir"]), "buildpacks": [b(x) for x in c["buildpacks"]],
               "app_dir_via_setter": c.get("app_dir_via_setter", False),
               "env": [] if "benv_calls" in c else [[b(k), b(v)] for k, v in c["benv"].items()],
               "env_calls": [{"via": x["via"], "pairs": [[b(k), b(v)] for k, v in x["pairs"]]} for x in c.get("benv_calls", [])],
               "expected": "failure" if c.get("pack_fails") else "success", "pre": "touch" if c["pre"] else None}
        ccfg = {"entrypoint": None if c["entrypoint"] is None else b(c["entrypoint"]),
                "command": None if c["command"] is None else [b(x) for x in c["command"]],
                "command_history": [[b(x) for x in h] for h in c.get("command_history", [])],
                "env": [] if "cenv_calls" in c else [[b(k), b(v)] for k, v in c["cenv"].items()],
                "env_calls": [{"via": x["via"], "pairs": [[b(k), b(v)] for k, v in x["pairs"]]} for x in c.get("cenv_calls", [])],
                "ports": c["ports"],
                "mounts": [[b(k), b(v)] for k, v in c["mounts"].items()]}
        return {"id": c["id"], "build": cfg, "fail": [0] if c.get("pack_fails") else [], "body": [{"op": "start", "cfg": ccfg, "body": []}]}

    def run_impl(self, cases, workdir):
        sb = os.path.join(workdir, "sandbox")
        os.makedirs(sb, exist_ok=True)
        return run_harness(self.stream, [self.to_harness(c) for c in cases], workdir, extra_env={"VERIF_SANDBOX": sb})

    def to_coq(self, c, o):
        def B(x):
            return cq_bytes(x.encode())
        root = os.path.dirname(o["manifest_dir"])
        app_dir = c["app_dir"].replace("$ABS", os.path.join(root, "abs")).replace("$TMP", o["tmp_dir"])
        leftover = [x for x in o["leftover"] if not (c["app_dir"].startswith("$TMP/") and x == c["app_dir"].split("/")[1])]
        benv = cq_list([f"({B(k)}, {B(v)})" for k, v in sorted(c["benv"].items(), key=lambda kv: kv[0].encode())])
        cenv = cq_list([f"({B(k)}, {B(v)})" for k, v in sorted(c["cenv"].items(), key=lambda kv: kv[0].encode())])
        mounts = cq_list([f"({B(k)}, {B(v)})" for k, v in sorted(c["mounts"].items(), key=lambda kv: comp_key(kv[0]))])
        ccfg = "(mkC %s %s %s %s %s)" % (
            cq_opt(None if c["entrypoint"] is None else B(c["entrypoint"])),
            cq_opt(None if c["command"] is None else cq_list([B(x) for x in c["command"]])),
            cenv, cq_list([str(p) for p in c["ports"]]), mounts)
        cmds = cq_list([f"({cq_bytes(e['prog'].encode())}, {cq_list([cq_bytes(bytes(a)) for a in e['argv']])})" for e in o["log"]])
        packs = [e for e in o["log"] if e["prog"] == "pack" and e["argv"][:1] == [list(b"build")]]
        want = sorted(FIXTURE_LISTING + [])
        if c["pre"]:      # what the preprocessor leaves in the private copy: a new file, app.txt rewritten, sub/inner.txt extended
            want = sorted([["PREPROCESSED", [120]], ["app.txt", list(b"changed")], ["link.txt", list(b"app")], ["sub/", []], ["sub/inner.txt", list(b"inner+more")]])
        copy_ok = len(packs) == 1 and packs[0].get("path_listing") == want
        untouched = len(o["fixtures"]) == 1 and o["fixtures"][0]["listing"] == FIXTURE_LISTING and o["status"] == "done" and not leftover
        return "(mkCase %s %s %s %s %s %s %s %s %s %s %s)" % (
            B(c["builder"]), B(app_dir), cq_list([B(x) for x in c["buildpacks"]]), benv, cq_bool(c["pre"]), ccfg,
            B(o["manifest_dir"]), B(o["tmp_dir"]), cmds, cq_bool(copy_ok), cq_bool(untouched))

    def nontrivial(self, c, o):
        return True

    def classify(self, c, o):
        return "argv"

    def shrink(self, c):
        for k in ("buildpacks", "command"):
            if c[k]:
                for i in range(len(c[k])):
                    yield dict(c, **{k: c[k][:i] + c[k][i + 1:]})
        for k in ("benv", "cenv"):
            calls = c.get(k + "_calls", [])
            for i in range(len(calls)):
                rest = calls[:i] + calls[i + 1:]
                final = {}
                for call in rest:
                    for kk, vv in call["pairs"]:
                        final[kk] = vv
                yield dict(c, **{k: final, k + "_calls": rest})
        for key in list(c["mounts"]):
            yield dict(c, mounts={a: v for a, v in c["mounts"].items() if a != key})
        if c["ports"]:
            yield dict(c, ports=c["ports"][1:])
        if c["entrypoint"] is not None:
            yield dict(c, entrypoint=None)
        if c["command"] is not None:
            yield dict(c, command=None)
        if c["pre"]:
            yield dict(c, pre=False)
        if c.get("pack_fails"):
            yield dict(c, pack_fails=False)
        if c["app_dir"] != "fixtures/app":
            yield dict(c, app_dir="fixtures/app")

    def sample(self, c, o):
        return {"config": {k: c[k] for k in ("builder", "app_dir", "buildpacks", "benv", "entrypoint", "command", "cenv", "ports", "mounts", "pre")},
                "argv": [[e["prog"]] + [bytes(a).decode("utf-8", "replace") for a in e["argv"]] for e in o["log"][:2]]}

    def explain(self, c, o):
        return "status=%s log=%s" % (o["status"], [[e["prog"]] + [bytes(a).decode("utf-8", "replace") for a in e["argv"]] for e in o["log"]])

    def distribution(self, cases, obs):
        d = {"pre": 0, "env_keys_set_twice": 0, "envs_calls": 0, "abs_app_dir": 0, "entrypoint": 0, "command": 0, "leading_dash_values": 0, "env_pairs": 0, "ports": 0, "mounts": 0, "buildpacks": 0}
        for c in cases:
            d["pre"] += c["pre"]
            for k in ("benv_calls", "cenv_calls"):
                keys = [kk for call in c.get(k, []) for kk, _ in call["pairs"]]
                d["env_keys_set_twice"] += len(keys) - len(set(keys))
                d["envs_calls"] += sum(1 for call in c.get(k, []) if call["via"] == "envs")
            d["abs_app_dir"] += c["app_dir"].startswith("$ABS")
            d["app_dir_below_tmp"] = d.get("app_dir_below_tmp", 0) + c["app_dir"].startswith("$TMP")
            d["entrypoint"] += c["entrypoint"] is not None
            d["command"] += c["command"] is not None
            vals = list(c["benv"].values()) + list(c["cenv"].values()) + (c["command"] or []) + c["buildpacks"] + ([c["entrypoint"]] if c["entrypoint"] else [])
            d["leading_dash_values"] += sum(1 for v in vals if v.startswith("-"))
            d["env_pairs"] += len(c["benv"]) + len(c["cenv"])
            d["ports"] += len(c["ports"])
            d["mounts"] += len(c["mounts"])
            d["buildpacks"] += len(c["buildpacks"])
        return d


PROP = C17()
