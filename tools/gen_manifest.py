#!/usr/bin/env python3
"""Regenerate MANIFEST.json from tools/claims.json (per-property claim texts)."""
import json, os
HERE = os.path.dirname(os.path.dirname(os.path.abspath(__file__)))
props = [json.loads(l) for l in open(os.path.join(HERE, "properties.jsonl"))]
claims = json.load(open(os.path.join(HERE, "tools", "claims.json")))
man = {
    "version": 1,
    "setup_cmd": "./setup",
    "hooks": {
        "guard": "libcnb_rs_verif",
        "enable": "RUSTFLAGS='--cfg libcnb_rs_verif' (set by lib/common.py for every harness build). One hook: libcnb::layer::verif_hooks, add-only public wrappers around crate-private layer helpers (delete_layer, remove_dir_recursively, read_layer, write_layer, replace_layer_*)",
        "baseline_off_cmd": "cd /repo && cargo test --workspace --no-fail-fast --offline",
        "source_commits": ["e28e03d", "c8b8917"],
        "add_only": True,
    },
    "engines": [{
        "name": "coq-proof+correspondence", "path": "check",
        "serves_properties": sorted(claims["claimed"].keys()),
        "kind_free_text": "Coq 8.16 theorems over Gallina models; syn translator regenerates tables from /repo each run; Rust harness + vm_compute correspondence judged by a verified boolean oracle",
    }],
    "checks": [],
    "notes": "See DESIGN.md. ./check <ID> runs translate -> coq make -> hygiene -> harness build -> generate -> run implementation -> evaluate in Coq -> decide.",
    "not_applicable": [],
}
for p in props:
    pid = p["id"]
    if pid in claims["claimed"]:
        c = claims["claimed"][pid]
        man["checks"].append({
            "property_id": pid,
            "quick_cmd": f"./check {pid} --tier quick",
            "thorough_cmd": f"./check {pid} --tier thorough",
            "evidence_file": f"evidence/{pid}.json",
            "replay_cmd_template": f"./check {pid} --replay {{path}}",
            "engine": "coq-proof+correspondence",
            "level_claimed": {"category": "proof", "text": c["text"], "design_ref": f"DESIGN.md section 6 {pid}"},
            "level_note": c["note"],
            "technique": c.get("technique", "Coq proof over model with regenerated tables + vm_compute correspondence judged by a verified oracle"),
        })
    else:
        man["not_applicable"].append({"property_id": pid, "reason": claims.get("unclaimed", {}).get(pid, "check not built yet (work in progress; see DESIGN.md build order)")})
json.dump(man, open(os.path.join(HERE, "MANIFEST.json"), "w"), indent=1)
print("claimed:", sorted(claims["claimed"].keys()))
