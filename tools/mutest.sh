#!/bin/sh
# usage: tools/mutest.sh <patch-file> <ID>...   -- apply patch to /repo, run checks, restore repo + evidence
patch="$1"; shift
cp -r /verif/evidence /verif/build/evidence.bak
git -C /repo apply "$patch" || { echo "patch failed"; exit 2; }
for id in "$@"; do
  /verif/check "$id" 2>&1 | tail -4
  echo "rc($id)=$?"
done
git -C /repo checkout -- .
git -C /repo clean -fdq
rm -rf /verif/evidence; mv /verif/build/evidence.bak /verif/evidence
