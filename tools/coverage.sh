#!/bin/sh
# Source coverage of /repo's crates by the checks' own runs (a measurement of the correspondence
# generators, not a check): builds the harness, the test buildpack, the stand-ins and cargo-libcnb
# with -C instrument-coverage (nightly toolchain: its llvm-tools match), runs the quick checks given
# as arguments (default: all 20) and prints per-file line coverage plus the uncovered regions of
# the files the properties are anchored in.  Evidence is restored afterwards.
set -e
cd /verif
COV=/verif/build/cov
rm -rf "$COV"; mkdir -p "$COV"; chmod 1777 "$COV"
cp -r evidence build/evidence.cov.bak
export RUSTUP_TOOLCHAIN=nightly VERIF_CARGO_SUFFIX=-cov RUSTFLAGS="-C instrument-coverage" VERIF_TOOL_RUSTFLAGS="-C instrument-coverage" LLVM_PROFILE_FILE="$COV/p-%p-%8m.profraw"
IDS="$*"; [ -n "$IDS" ] || IDS="C01 C02 C03 C04 C05 C06 C07 C08 C09 C10 C11 C12 C13 C14 C15 C16 C17 C18 C19 C20"
for id in $IDS; do ./check "$id" 2>&1 | tail -1; done
rm -rf evidence; mv build/evidence.cov.bak evidence
TOOLS=$(dirname "$(rustup which --toolchain nightly rustc)")/../lib/rustlib/x86_64-unknown-linux-gnu/bin
"$TOOLS/llvm-profdata" merge -sparse "$COV"/*.profraw -o "$COV/merged.profdata"
OBJS=""
for b in build/cargo-cov/debug/harness build/cargo-cov/debug/testbp build/cargo-cov/debug/standin build/cargo-pkg-cov/debug/cargo-libcnb; do
  [ -x "$b" ] && OBJS="$OBJS -object $b"
done
# shellcheck disable=SC2086
"$TOOLS/llvm-cov" report -instr-profile "$COV/merged.profdata" $OBJS --ignore-filename-regex='(\.cargo|/rustc/|/verif/)' > "$COV/report.txt" 2>/dev/null || true
# shellcheck disable=SC2086
"$TOOLS/llvm-cov" show -instr-profile "$COV/merged.profdata" $OBJS --ignore-filename-regex='(\.cargo|/rustc/|/verif/)' --show-line-counts-or-regions > "$COV/show.txt" 2>/dev/null || true
cat "$COV/report.txt" | cut -c1-200
rm -f "$COV"/*.profraw
