#!/usr/bin/env python3
"""Print model vs observed for an FSM replay / case."""
import json, sys, os, subprocess
sys.path.insert(0, '/verif/lib'); sys.path.insert(0, '/verif/lib/props')
from common import *
import fsm
d = json.load(open(sys.argv[1]))
c, o = d["input"], d["observed"]
P = fsm.PROP
ops = cq_list([f"({P.cq_op(op)}, {P.cq_res(r)})" for op, r in zip(c["ops"], o["results"])])
from fsgen import cq_fs
v = f"""From LV Require Import Base FS. From LV.Checks Require Import FSMHold. Open Scope N_scope.
Definition init := root_entry :: {cq_fs(c['init'])}.
Definition ops := {ops}.
Fixpoint go (ops : list (fop * fres)) (s : fs) : list fres * fs := match ops with [] => ([], s) | (o, _) :: r => let '(s', x) := run_op o s in let '(l, sf) := go r s' in (x :: l, sf) end.
Eval vm_compute in go ops init.
"""
open('/tmp/fsm_dbg.v', 'w').write(v)
print("INIT", [("/".join(bytes(x).decode('latin-1') for x in n['p']), n['k'], oct(n.get('m', 0)), bytes(n.get('t', [])).decode('latin-1')) for n in c['init']])
print("OPS", [(op['op'], "/".join(bytes(x).decode('latin-1') for x in op['p']), op.get('m'), bytes(op.get('t', [])).decode('latin-1'), op.get('q')) for op in c['ops']])
print("OBS", o["results"])
print("OBS SNAP", [("/".join(bytes(x).decode('latin-1') for x in n['p']), n['k'], oct(n.get('m', 0))) for n in o['snapshot']])
r = subprocess.run(["coqc", "-noglob"] + COQ_FLAGS + ["/tmp/fsm_dbg.v"], capture_output=True, text=True)
print(r.stdout[-3000:], r.stderr[-2000:])
