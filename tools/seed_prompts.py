#!/usr/bin/env python3
"""Write the prompts given to the independent sub-agents that seed mutations (one per property).
usage: seed_prompts.py <out_dir> <round>   (round >= 2 tells the agent which earlier mutations to avoid)"""
import json, os, sys
out, rnd = sys.argv[1], int(sys.argv[2])
os.makedirs(out, exist_ok=True)
props = {}
for l in open('/verif/properties.jsonl'):
    d = json.loads(l); props[d['id']] = d
HINTS = {
 "C11": "Note: libcnb/src/layer/verif_hooks.rs (compiled only with `--cfg libcnb_rs_verif`) is test instrumentation -- do not modify it and do not rely on it.",
 "C12": "For the demonstration you may make a file-system operation fail by ordinary means (a read-only directory, a path component that is a file), running as an unprivileged user via `setpriv --reuid=65534 --regid=65534 --clear-groups` if you are root.",
 "C15": "Hints: the musl target is NOT installed; `cargo libcnb package --target x86_64-unknown-linux-gnu --no-cross-compile-assistance` works on the host when CARGO=$(which cargo) is set; build the tool with `cargo build --offline -p libcnb-cargo` and run `target/debug/cargo-libcnb libcnb package ...` in a scratch workspace whose buildpack crates have NO dependencies (trivial `fn main(){}` per bin target; a libcnb.rs buildpack for packaging purposes is a directory with buildpack.toml + Cargo.toml). Put an `.ignore` file containing `packaged/` at the scratch workspace root.",
 "C16": "Hints: no Docker / pack CLI in the sandbox; use stand-in `docker` and `pack` shell scripts first on PATH that log argv and can be told to fail on a chosen invocation; libcnb-test needs CARGO_MANIFEST_DIR at run time; use `BuildpackReference::Other(\"some/id\".into())` as the only buildpack; one process per scenario; inspect the log and $TMPDIR afterwards.",
 "C17": "Hints: no Docker / pack CLI in the sandbox; use stand-in `docker` and `pack` shell scripts first on PATH that log argv (one argument per line or NUL separated); libcnb-test needs CARGO_MANIFEST_DIR at run time; use `BuildpackReference::Other(\"some/id\".into())` as the only buildpack.",
}
for i, p in props.items():
    wt, od = f"/tmp/wt{rnd}_{i}", f"{out}/{i}"
    avoid = ""
    if rnd >= 2:
        prev = []
        for r in range(1, rnd):
            m = f"/verif/seeded/{i}/meta.json" if r == 1 else f"/verif/seeded/{i}/round{r}/meta.json"
            if os.path.exists(m):
                prev.append(json.load(open(m))["summary"])
        if prev:
            avoid = ("\nEarlier mutations for this property (do NOT repeat them; pick a different function, mechanism or clause of the statement):\n"
                     + "\n".join(f"  - {x}" for x in prev) + "\n")
    text = f"""You are helping to evaluate a verification suite by mutation. You get ONE semantic property of the Rust project heroku/libcnb.rs (a framework for writing Cloud Native Buildpacks) and your own scratch git worktree of the repository at {wt} (detached HEAD; work ONLY inside that directory and inside {od}; never touch /repo or /verif; do not commit, do not push). The sandbox has NO network: always use `cargo ... --offline` (CARGO_NET_OFFLINE=true); set CARGO_TARGET_DIR={wt}/target so builds stay inside your worktree.

The property ({i}): {p['title']}
Statement: {p['statement']}
Quantified over: {p['quantifier']['text']}
Why unit tests cannot settle it: {p['why_tests_cant']}
Anchored in: {', '.join(p['anchors']['files'])}
{avoid}
Task: make a REALISTIC source change (the kind of slip a maintainer could make in a refactoring, an optimisation or a feature patch -- not sabotage that any reader would spot, no dead code, no test-only changes) to the non-test code in the worktree that BREAKS this property, such that
  1. the workspace still compiles (`cargo build --workspace --offline`), and
  2. the existing test suite still passes (`cargo test --workspace --no-fail-fast --offline`; the doctest `libherokubuildpack/src/download.rs - download::download_file` fails already on the unchanged tree because it needs network -- ignore that one), and
  3. the violation needs something SPECIFIC to manifest (a particular input shape, state, ordering, or failure), i.e. it is not visible on the simplest happy path.
{"Prefer a code path that a verification harness concentrating on the main functions could overlook: a secondary public entry point or convenience wrapper, a rarely used builder method, an error or cleanup path, a multi-step sequence of calls, an unusual-but-legal input (empty, duplicated, very long, non-UTF-8, dotted or nested names), or two sites that each look fine alone. " if rnd >= 9 else ""}Do not edit or add tests in the repository's test modules. Keep the patch small (ideally < 25 changed lines, one or two files). {HINTS.get(i, '')}

Then DEMONSTRATE the violation: write a small standalone demonstration (e.g. a scratch cargo project under {od}/demo with path dependencies on the crates in your worktree and an empty [workspace] table, copying {wt}/Cargo.lock next to its Cargo.toml first if one exists so that it resolves offline; or a shell script) that shows concretely: with your patch the property fails on a specific input (print the input and the wrong outcome), and on the unpatched code (`git diff > patch; git checkout -- .`) the same input behaves correctly. Actually run it both ways and record the outputs.

Deliver in {od}/ :
  - patch.diff : output of `git -C {wt} diff` (must apply with `git apply` on the unchanged tree at the same commit)
  - demonstration.md : what the change is, why it breaks the property, the specific input/state needed, the commands you ran and their output with and without the patch
  - meta.json : {{"property": "{i}", "files": [...changed files...], "summary": "<one sentence>", "trigger": "<what specific input/state is needed>", "build_ok": true/false, "tests_ok": true/false, "demonstrated": true/false}}
Leave the worktree with your patch APPLIED (uncommitted) when you finish. Report back a short summary (what you changed, the trigger, whether build/tests/demonstration succeeded). Budget: about 25 minutes; prefer a simple, convincing mutation over an elaborate one."""
    open(f"{out}/prompt_{i}.txt", "w").write(text)
    os.makedirs(od, exist_ok=True)
print("wrote", len(props), "prompts to", out)
