#!/bin/sh
# usage (from a `vp run --with-repo` snapshot): tools/thorough_all.sh  -- every thorough tier once, against the repo snapshot
if [ -n "$VP_RUN_REPO" ]; then
  sed -i "s#\"/repo/#\"$VP_RUN_REPO/#" harness/Cargo.toml
  export VERIF_REPO="$VP_RUN_REPO"
  [ -f "$VP_RUN_REPO/Cargo.lock" ] || cp /repo/Cargo.lock "$VP_RUN_REPO/Cargo.lock"   # not tracked in /repo
fi
./setup || exit 1
for i in 01 02 03 04 05 06 07 08 09 10 11 12 13 14 15 16 17 18 19 20; do
  s=$(date +%s)
  ./check C$i --tier thorough 2>&1 | tail -3
  echo "C$i thorough took $(( $(date +%s) - s )) s"
done
