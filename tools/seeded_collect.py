#!/usr/bin/env python3
"""Collect a sub-agent's seeded mutation into /verif/seeded/<id>/ and record which checks caught it.
usage: seeded_collect.py <ID> <check:result> [<check:result> ...]"""
import json, os, shutil, sys
pid = sys.argv[1]
rnd = int(os.environ.get("SEED_ROUND", "1"))
src = f"/tmp/seeded_out/{pid}" if rnd == 1 else f"/tmp/seeded{rnd}_out/{pid}"
dst = f"/verif/seeded/{pid}" if rnd == 1 else f"/verif/seeded/{pid}/round{rnd}"
os.makedirs(dst, exist_ok=True)
for f in os.listdir(src):
    p = os.path.join(src, f)
    if os.path.isfile(p) and os.path.getsize(p) < 200_000:
        shutil.copy(p, os.path.join(dst, f))
demo = os.path.join(src, "demo")
if os.path.isdir(demo):
    for dp, dn, fn in os.walk(demo):
        dn[:] = [d for d in dn if d not in ("target", ".git")]
        for f in fn:
            p = os.path.join(dp, f)
            if os.path.isfile(p) and os.path.getsize(p) < 100_000 and f != "Cargo.lock":
                rel = os.path.relpath(p, src)
                os.makedirs(os.path.dirname(os.path.join(dst, rel)), exist_ok=True)
                shutil.copy(p, os.path.join(dst, rel))
meta = json.load(open(os.path.join(dst, "meta.json")))
meta["confirmed_by_checks"] = {x.split(":", 1)[0]: x.split(":", 1)[1] for x in sys.argv[2:]}
meta["round"] = rnd
json.dump(meta, open(os.path.join(dst, "meta.json"), "w"), indent=1)
print("collected", pid, meta["confirmed_by_checks"])
