(* RecreateFacts.v -- recreating a layer = delete_layer then write_layer (both as regenerated from the
   source): whatever the old layer held, what the layer owns afterwards is exactly a fresh directory
   and a fresh content-metadata document; nothing else changed. *)
From LV Require Import Base Toml FS FSFacts LayerShared LayerSharedFacts LayerSharedGone LayerSharedTotal Determinism LayerEnvFSExact.
From LV Require Import ImpPrims ImpTypes ImpFacts LayerSboms LayerSbomsFacts WriteLayerFacts.
From LVGen Require Import GenLayerSharedImp.

Lemma simple_dir_transfer s s' d :
  (forall k, (k <= length d)%nat -> pget (firstn k d) s' = pget (firstn k d) s) ->
  simple_dir s d -> simple_dir s' d.
Proof.
  intros T [Vn Dd Dw]. constructor; [exact Vn| |].
  - intros k Hk. rewrite (T k Hk). apply Dd, Hk.
  - specialize (T (length d) (le_n _)). rewrite firstn_all in T. rewrite T. exact Dw.
Qed.

Lemma simple_dir_dirs_to s d : simple_dir s d -> dirs_to s d.
Proof. intros [_ Dd _] k Hk. destruct (Dd k Hk) as (m & Hm & _). exists m. exact Hm. Qed.

Lemma prefix_not_under (d : path) x k : (k <= length d)%nat -> is_prefix (d ++ [x]) (firstn k d) = false.
Proof. apply prefix_of_dir_not_under. Qed.

(* the removal loop over the SBOM paths, without any assumption on what they hold *)
Lemma unlink_loop_gone layers n l : forall s s',
  (forall sx, In sx l -> valid_path (sbom_path layers n sx)) ->
  dirs_to s layers ->
  iterM (fun sx => default_on_not_found (unlink (sbom_path layers n sx))) l s = (s', Ok tt) ->
  dirs_to s' layers /\
  (forall q, (forall sx, In sx l -> q <> sbom_path layers n sx) -> pget q s' = pget q s) /\
  (forall sx, In sx l -> pget (sbom_path layers n sx) s' = None).
Proof.
  induction l as [|sx l IH]; intros s s' V D H; cbn [iterM] in H.
  - unfold ret in H. injection H as <-. split; [exact D|]. split; [reflexivity|intros ? []].
  - unfold bindM in H.
    destruct (default_on_not_found (unlink (sbom_path layers n sx)) s) as [s1 r1] eqn:U.
    destruct (tolerant_unlink layers (sbom_name n sx) (V sx (or_introl eq_refl)) s s1 r1 D U) as [Fr Gone].
    fold (sbom_path layers n sx) in Fr, Gone.
    destruct r1 as [[]|e]; [|discriminate].
    assert (D1 : dirs_to s1 layers) by (destruct Fr as [->| ->]; [exact D|apply dirs_to_pdel, D]).
    destruct (IH s1 s' (fun y Hy => V y (or_intror Hy)) D1 H) as (D2 & O2 & G2).
    split; [exact D2|]. split.
    + intros q Hq. rewrite O2 by (intros y Hy; apply Hq; now right).
      destruct Fr as [->| ->]; [reflexivity|]. apply pget_pdel_other, Hq. now left.
    + intros y [<-|Hy]; [|apply G2, Hy].
      destruct (in_dec (list_eq_dec N.eq_dec) sx l) as [I|NI]; [apply G2, I|].
      rewrite O2; [apply Gone; reflexivity|].
      intros z Hz E. apply NI. unfold sbom_path, sbom_name in E. apply app_inv_head in E. injection E as E.
      apply app_inv_head in E. inversion E; subst; exact Hz.
Qed.

Lemma toml_neq_sbom layers n sx : layers ++ [toml_name n] <> sbom_path layers n sx.
Proof.
  unfold sbom_path, toml_name, sbom_name. intros E. apply app_inv_head in E. injection E as E.
  apply app_inv_head in E. discriminate.
Qed.

Lemma delete_layer_owned_gone sfxs layers n s s' :
  valid_path layers -> valid_name n = true -> Forall sfx_ok sfxs -> valid_fs s ->
  simple_dir s layers ->
  delete_layer true true sfxs layers n s = (s', Ok tt) ->
  simple_dir s' layers /\ pget (layers ++ [toml_name n]) s' = None /\
  (forall sx, In sx sfxs -> pget (layers ++ [sbom_name n sx]) s' = None).
Proof.
  intros Vl Vn Vs Vf SD H.
  assert (VL : valid_path (layers ++ [n])) by (apply valid_path_snoc; assumption).
  assert (Vt : valid_name (toml_name n) = true) by (apply valid_name_app; [exact Vn|cbn; lia|reflexivity]).
  assert (Vsx : forall sx, In sx sfxs -> valid_path (sbom_path layers n sx)).
  { intros sx I. apply valid_path_snoc; [exact Vl|]. unfold sbom_name. apply valid_name_app; [exact Vn|rewrite app_length; cbn; lia|].
    rewrite existsb_app. cbn [existsb]. cbn. rewrite Forall_forall in Vs. exact (Vs sx I). }
  unfold delete_layer in H. unfold bindM at 1 in H.
  destruct (default_on_not_found (remove_dir_recursively true (rdr_fuel s) (layers ++ [n])) s) as [s1 r1] eqn:E1.
  destruct r1 as [[]|e]; [|discriminate].
  assert (O1 : only_under (layers ++ [n]) s s1).
  { unfold default_on_not_found in E1.
    destruct (remove_dir_recursively true (rdr_fuel s) (layers ++ [n]) s) as [s0 r0] eqn:R0.
    assert (s1 = s0) by (destruct r0 as [u|e]; [|destruct e]; cbv iota beta in E1; congruence). subst s0.
    exact (proj1 (rdr_frame true _ _ _ _ _ VL Vf (dirs_to_real s layers n (simple_dir_dirs_to _ _ SD)) (or_introl eq_refl) R0)). }
  assert (SD1 : simple_dir s1 layers).
  { apply (simple_dir_transfer s s1 layers); [|exact SD]. intros k Hk. apply O1, prefix_not_under, Hk. }
  unfold bindM at 1 in H.
  destruct (default_on_not_found (unlink (layers ++ [toml_name n])) s1) as [s2 r2] eqn:U2.
  destruct (tolerant_unlink layers (toml_name n) (valid_path_snoc _ _ Vl Vt) s1 s2 r2 (simple_dir_dirs_to _ _ SD1) U2) as [Fr2 Gone2].
  destruct r2 as [[]|e]; [|discriminate].
  assert (SD2 : simple_dir s2 layers).
  { destruct Fr2 as [->| ->]; [exact SD1|]. apply (simple_dir_transfer s1 _ layers); [|exact SD1].
    intros k Hk. apply pget_pdel_other, firstn_neq_snoc. }
  change (iterM (fun sx => default_on_not_found (unlink (sbom_path layers n sx))) sfxs s2 = (s', Ok tt)) in H.
  destruct (unlink_loop_gone layers n sfxs s2 s' Vsx (simple_dir_dirs_to _ _ SD2) H) as (_ & O3 & G3).
  split; [|split].
  - apply (simple_dir_transfer s2 s' layers); [|exact SD2]. intros k Hk. apply O3. intros sx _. apply firstn_neq_snoc.
  - rewrite O3; [apply Gone2; reflexivity|]. intros sx _. apply toml_neq_sbom.
  - exact G3.
Qed.

Lemma gen_delete_layer_is layers n s :
  gen_delete_layer layers n s = delete_layer true true (map sbom_suffix_of SBOM_FORMATS) layers n s.
Proof.
  unfold gen_delete_layer, delete_layer.
  apply bindM_ext; [reflexivity|]. intros s1.
  apply bindM_ext; [reflexivity|]. intros s2.
  rewrite bind_ret_tt, iterM_map. apply iterM_ext. intros f s3. rewrite bind_ret_tt.
  destruct f; reflexivity.
Qed.

(* recreating a layer, as the code does it: delete_layer, then write_layer *)
Theorem recreate_exact {T} (enc : T -> tv) (lcm : T) layers n s :
  valid_path layers -> valid_name n = true -> valid_fs s -> parent_closed s -> layers_ok s layers ->
  simple_dir s layers ->
  (pget (layers ++ [n]) s = None \/ (exists m, pget (layers ++ [n]) s = Some (Dir m)) \/ (exists t, pget (layers ++ [n]) s = Some (Link t))) ->
  (forall m, pget (layers ++ [toml_name n]) s <> Some (Dir m)) ->
  (forall sx m, In sx (map sbom_suffix_of SBOM_FORMATS) -> pget (layers ++ [sbom_name n sx]) s <> Some (Dir m)) ->
  exists s1,
    gen_delete_layer layers n s = (s1, Ok tt) /\
    gen_write_layer enc layers n lcm s1 =
      (pset (layers ++ [toml_name n]) (File mode_file_default (Doc (enc lcm))) (pset (layers ++ [n]) (Dir mode_dir_default) s1), Ok tt) /\
    (* what is left of the old layer before the fresh one is written: nothing *)
    (forall r, pget (layers ++ [n] ++ r) s1 = None) /\ pget (layers ++ [toml_name n]) s1 = None /\
    (forall sx, In sx (map sbom_suffix_of SBOM_FORMATS) -> pget (layers ++ [sbom_name n sx]) s1 = None) /\
    (* and everything that does not belong to the layer is as it was *)
    (forall q, owned (map sbom_suffix_of SBOM_FORMATS) layers n q = false -> pget q s1 = pget q s).
Proof.
  intros Vl Vn Vf PC LO SD HL NDt NDs.
  assert (Vs : Forall sfx_ok (map sbom_suffix_of SBOM_FORMATS)) by (repeat constructor).
  destruct (delete_layer_complete _ layers n s Vl Vn Vs Vf PC LO HL NDt NDs) as (s1 & E & Gone & Frame).
  destruct (delete_layer_owned_gone _ layers n s s1 Vl Vn Vs Vf SD E) as (SD1 & Tn & Sn).
  assert (Vt : valid_name (n ++ [46; 116; 111; 109; 108]) = true) by (apply valid_name_app; [exact Vn|cbn; lia|reflexivity]).
  exists s1. split; [rewrite gen_delete_layer_is; exact E|]. split.
  - apply (write_layer_fresh enc layers n lcm Vn Vt s1 SD1).
    + specialize (Gone []). rewrite app_nil_r in Gone. exact Gone.
    + exact Tn.
  - repeat split; assumption.
Qed.
