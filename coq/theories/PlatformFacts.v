(* PlatformFacts.v -- contexts reflect exactly what the platform supplied (C06). *)
From LV Require Import Base Toml FS Serde SpecDocs Platform.

Definition env_entry (envp : path) (s : fs) (n : name) : option bytes :=
  if is_file (envp ++ [n]) s then
    match read_file (envp ++ [n]) s with (_, Ok mc) => Some (content_bytes (snd mc)) | (_, Err _) => None end
  else None.

Lemma fold_env_err envp s names e : fold_left (env_step envp s) names (Err e) = Err e.
Proof. induction names as [|n names IH]; [reflexivity|]. cbn [fold_left env_step]. exact IH. Qed.

Lemma fold_env envp s names : forall m0 m,
  fold_left (env_step envp s) names (Ok m0) = Ok m ->
  (forall n, bget n m = if existsb (beq n) names
                        then match env_entry envp s n with Some c => Some c | None => bget n m0 end
                        else bget n m0) /\
  (forall n, In n names -> is_file (envp ++ [n]) s = true ->
             exists c, env_entry envp s n = Some c /\ utf8_valid c = true).
Proof.
  induction names as [|k names IH]; intros m0 m H; cbn [fold_left] in H.
  - injection H as <-. split; [intros n; reflexivity|intros n []].
  - unfold env_step at 2 in H.
    destruct (is_file (envp ++ [k]) s) eqn:F.
    + destruct (read_file (envp ++ [k]) s) as [s' [mc|e]] eqn:R; [|rewrite fold_env_err in H; discriminate].
      destruct (utf8_valid (content_bytes (snd mc))) eqn:U; [|rewrite fold_env_err in H; discriminate].
      destruct (IH _ _ H) as [G V]. split.
      * intros n. rewrite G. cbn [existsb].
        destruct (beq n k) eqn:E.
        -- apply beq_spec in E. subst k. cbn [orb]. unfold env_entry. rewrite F, R. cbv beta iota.
           destruct (existsb (beq n) names); [reflexivity|]. apply bget_set_same.
        -- cbn [orb]. apply beq_neq in E. rewrite bget_set_other by exact E. reflexivity.
      * intros n [<-|I] Fn; [|now apply V]. exists (content_bytes (snd mc)). unfold env_entry. rewrite Fn, R. now split.
    + destruct (IH _ _ H) as [G V]. split.
      * intros n. rewrite G. cbn [existsb]. destruct (beq n k) eqn:E; [|reflexivity].
        apply beq_spec in E. subst k. cbn [orb]. unfold env_entry. rewrite F.
        destruct (existsb (beq n) names); reflexivity.
      * intros n [<-|I] Fn; [congruence|now apply V].
Qed.

(* The platform environment is exactly the regular files of <platform>/env -- directly or through
   a symlink -- with the file's exact name and content; directories and links to directories are
   skipped; a missing env directory gives the empty environment; a content that is not UTF-8 makes
   the whole read an error (never a dropped or altered entry). *)
Theorem platform_env_exact platform s m :
  platform_env platform s = Ok m ->
  let envp := platform ++ [n_env_dir] in
  match readdir envp s with
  | (_, Ok pl) =>
      (forall n, bget n m = if existsb (beq n) (snd pl) then env_entry envp s n else None) /\
      (forall n, In n (snd pl) -> is_file (envp ++ [n]) s = true ->
                 exists c, env_entry envp s n = Some c /\ utf8_valid c = true /\ bget n m = Some c)
  | (_, Err e) => e = ENOENT /\ m = []
  end.
Proof.
  unfold platform_env. cbn zeta. destruct (readdir (platform ++ [n_env_dir]) s) as [s' [pl|e]] eqn:R.
  - intros H. destruct (fold_env _ _ _ _ _ H) as [G V]. split.
    + intros n. rewrite G. cbn [bget]. destruct (existsb (beq n) (snd pl)); [|reflexivity].
      destruct (env_entry _ s n); reflexivity.
    + intros n I F. destruct (V n I F) as (c & E & U). exists c. repeat split; try assumption.
      rewrite G. assert (X : existsb (beq n) (snd pl) = true).
      { apply existsb_exists. exists n. split; [exact I|apply beq_refl]. }
      now rewrite X, E.
  - destruct e; try discriminate. intros [= <-]. now split.
Qed.

Theorem platform_env_bad_utf8 platform s pl s' n mc s'' :
  readdir (platform ++ [n_env_dir]) s = (s', Ok pl) -> In n (snd pl) ->
  is_file (platform ++ [n_env_dir] ++ [n]) s = true ->
  read_file (platform ++ [n_env_dir] ++ [n]) s = (s'', Ok mc) -> utf8_valid (content_bytes (snd mc)) = false ->
  forall m, platform_env platform s <> Ok m.
Proof.
  intros R I F RF U m H. unfold platform_env in H. rewrite R in H.
  destruct (fold_env _ _ _ _ _ H) as [_ V]. rewrite app_assoc in F, RF.
  destruct (V n I F) as (c & E & Uc). unfold env_entry in E. rewrite F, RF in E. injection E as <-. congruence.
Qed.

(* the target is exactly the CNB_TARGET_* values *)
Theorem target_exact sil v t : context_target sil v = Some t ->
  v_os v = Some (t_os t) /\ v_arch v = Some (t_arch t) /\ v_dname v = Some (t_dname t) /\ v_dver v = Some (t_dver t) /\
  (sil = false -> v_variant v = t_variant t).
Proof.
  unfold context_target, mandatory.
  destruct (v_os v) as [o|]; [destruct (utf8_valid o)|]; try discriminate.
  destruct (v_arch v) as [a|]; [destruct (utf8_valid a)|]; try discriminate.
  destruct (v_dname v) as [dn|]; [destruct (utf8_valid dn)|]; try discriminate.
  destruct (v_dver v) as [dv|]; [destruct (utf8_valid dv)|]; try discriminate.
  destruct (v_variant v) as [x|].
  - destruct (utf8_valid x); [intros [= <-]; cbn; auto 10|].
    destruct sil; [intros [= <-]; cbn; repeat split; discriminate|discriminate].
  - intros [= <-]. cbn. auto 10.
Qed.

(* F8: with env::var(..).ok() a CNB_TARGET_ARCH_VARIANT that is not Unicode silently becomes None *)
Theorem arch_variant_legacy_refuted :
  let v := mkTV (Some [108]) (Some [97]) (Some [255]) (Some [117]) (Some [49]) in
  context_target true v = Some (mkTarget [108] [97] None [117] [49]) /\ context_target false v = None.
Proof. vm_compute. split; reflexivity. Qed.
