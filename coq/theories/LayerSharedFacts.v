(* LayerSharedFacts.v -- deleting a layer never touches anything outside it (C11). *)
From LV Require Import Base FS FSFacts LayerShared.

(* ---------- children ---------- *)
Lemma in_insert_sorted x n l : In n (insert_sorted x l) <-> n = x \/ In n l.
Proof.
  induction l as [|y l IH]; cbn [insert_sorted].
  - cbn. intuition.
  - destruct (bcmp x y) eqn:C; cbn [In].
    + apply bcmp_eq in C. subst y. intuition.
    + intuition.
    + rewrite IH. intuition.
Qed.

Lemma child_of_spec d k n : child_of d k = Some n <-> k = d ++ [n].
Proof.
  revert k. induction d as [|x d IH]; intros k; cbn [child_of app].
  - destruct k as [|a [|b k]].
    + split; discriminate.
    + split; [intros [= ->]; reflexivity|intros [= ->]; reflexivity].
    + split; discriminate.
  - destruct k as [|y k]; [split; discriminate|].
    destruct (beq x y) eqn:E.
    + apply beq_spec in E. subst y. rewrite IH. split; [intros ->; reflexivity|intros [= ->]; reflexivity].
    + split; [discriminate|]. intros [= -> _]. rewrite beq_refl in E. discriminate.
Qed.

Lemma children_spec d s n : In n (children d s) <-> exists v, In (d ++ [n], v) s.
Proof.
  unfold children.
  assert (G : forall acc, In n (fold_left (fun acc kv => match child_of d (fst kv) with
                                                        | Some m => insert_sorted m acc | None => acc end) s acc)
                          <-> In n acc \/ exists v, In (d ++ [n], v) s).
  { induction s as [|[k v] s IH]; intros acc; cbn [fold_left fst].
    - split; [now left|]. intros [?|[v []]]; assumption.
    - rewrite IH. destruct (child_of d k) as [m|] eqn:C.
      + apply child_of_spec in C. subst k. rewrite in_insert_sorted. split.
        * intros [[->|I]|[v' I]]; [right; exists v; now left|now left|right; exists v'; now right].
        * intros [I|[v' [E|I]]]; [left; now right| |right; now exists v'].
          injection E as E _. apply app_inv_head in E. injection E as <-. left. now left.
      + split.
        * intros [I|[v' I]]; [now left|right; exists v'; now right].
        * intros [I|[v' [E|I]]]; [now left| |right; now exists v'].
          injection E as -> _. exfalso. assert (X : child_of d (d ++ [n]) = Some n) by now apply child_of_spec.
          congruence. }
  rewrite G. split; [intros [[]|H]; exact H|now right].
Qed.

Lemma in_pget k v (s : fs) : In (k, v) s -> pget k s <> None.
Proof.
  induction s as [|[k' v'] s IH]; [intros []|]. intros [E|I]; cbn [pget].
  - injection E as -> ->. now rewrite path_eqb_refl.
  - destruct (path_eqb k k'); [discriminate|now apply IH].
Qed.

Lemma pget_in k v (s : fs) : pget k s = Some v -> In (k, v) s.
Proof.
  induction s as [|[k' v'] s IH]; cbn [pget]; [discriminate|].
  destruct (path_eqb k k') eqn:E.
  - apply path_eqb_spec in E. subst. intros [= ->]. now left.
  - intros H. right. now apply IH.
Qed.

(* ---------- invariants ---------- *)
Definition valid_path (p : path) : Prop := Forall (fun n => valid_name n = true) p.
Definition valid_fs (s : fs) : Prop := forall q, pget q s <> None -> valid_path q.
(* the key set only shrinks *)
Definition keys_shrink (s s' : fs) : Prop := forall q, pget q s' <> None -> pget q s <> None.

Lemma keys_shrink_refl s : keys_shrink s s. Proof. intros q H. exact H. Qed.
Lemma keys_shrink_trans a b c : keys_shrink a b -> keys_shrink b c -> keys_shrink a c.
Proof. intros H1 H2 q H. auto. Qed.
Lemma keys_shrink_valid s s' : keys_shrink s s' -> valid_fs s -> valid_fs s'.
Proof. intros K V q H. apply V, K, H. Qed.

Lemma keys_shrink_pdel p s : keys_shrink s (pdel p s).
Proof. intros q H. rewrite pget_pdel in H. destruct (path_eqb q p); [congruence|exact H]. Qed.

Lemma keys_shrink_pset_existing p v s : pget p s <> None -> keys_shrink s (pset p v s).
Proof.
  intros E q H. destruct (path_eqb q p) eqn:X.
  - apply path_eqb_spec in X. now subst.
  - apply path_eqb_neq in X. now rewrite pget_pset_other in H.
Qed.

(* strictly below d: everything that is not under d, and d itself, is untouched *)
Definition only_below (d : path) (s s' : fs) : Prop :=
  forall q, is_prefix d q = false \/ q = d -> pget q s' = pget q s.

Lemma only_below_refl d s : only_below d s s.
Proof. intros q _. reflexivity. Qed.
Lemma only_below_trans d a b c : only_below d a b -> only_below d b c -> only_below d a c.
Proof. intros H1 H2 q N. now rewrite H2, H1. Qed.

Lemma is_prefix_snoc_self d n : is_prefix (d ++ [n]) d = false.
Proof.
  destruct (is_prefix (d ++ [n]) d) eqn:E; [|reflexivity].
  apply is_prefix_spec in E as [r E]. apply (f_equal (@length _)) in E.
  rewrite !app_length in E. cbn in E. lia.
Qed.

Lemma under_child_only_below d n s s' : only_under (d ++ [n]) s s' -> only_below d s s'.
Proof.
  intros H q [N| ->]; apply H; [now apply not_under_ext|apply is_prefix_snoc_self].
Qed.

Lemma only_below_under d s s' : only_below d s s' -> only_under d s s'.
Proof. intros H q N. apply H. now left. Qed.

Lemma real_dirs_transfer s s' d : only_under d s s' -> real_dirs s [] d -> real_dirs s' [] d.
Proof.
  intros O R k Lk. specialize (R k Lk). cbn [app] in *. rewrite O; [exact R|].
  destruct (is_prefix d (firstn k d)) eqn:E; [|reflexivity].
  apply is_prefix_spec in E as [r E]. apply (f_equal (@length _)) in E.
  rewrite app_length, firstn_length in E. lia.
Qed.

Lemma real_dirs_child s d n : real_dirs s [] d -> is_dir_node (pget d s) -> real_dirs s [] (d ++ [n]).
Proof.
  intros R D k Lk. rewrite app_length in Lk. cbn [length app] in *.
  destruct (Nat.eq_dec k (length d)) as [->|NE].
  - rewrite firstn_app, Nat.sub_diag, firstn_all. cbn [firstn]. now rewrite app_nil_r.
  - rewrite firstn_app. replace (k - length d)%nat with 0%nat by lia. cbn [firstn]. rewrite app_nil_r.
    apply R. lia.
Qed.

Section Frames.
  Variable repaired : bool.

  (* one primitive on a path that resolves to itself touches only that path *)
  Lemma unlink_self_frame s p s' r :
    valid_path p -> real_dirs s [] p -> unlink p s = (s', r) ->
    only_under p s s' /\ keys_shrink s s'.
  Proof.
    intros V R H. apply unlink_frame in H as [->|(rp & Rs & ->)].
    - split; [apply only_under_refl|apply keys_shrink_refl].
    - apply resolve_self in Rs; [|assumption|assumption|discriminate]. subst rp.
      split; [apply only_under_pdel|apply keys_shrink_pdel].
  Qed.

  Lemma rmdir_self_frame s p s' r :
    valid_path p -> real_dirs s [] p -> rmdir p s = (s', r) ->
    only_under p s s' /\ keys_shrink s s'.
  Proof.
    intros V R H. apply rmdir_frame in H as [->|(rp & Rs & ->)].
    - split; [apply only_under_refl|apply keys_shrink_refl].
    - apply resolve_self in Rs; [|assumption|assumption|discriminate]. subst rp.
      split; [apply only_under_pdel|apply keys_shrink_pdel].
  Qed.

  Lemma chmod_self_frame s p m s' r :
    valid_path p -> real_dirs s [] p -> not_link (pget p s) -> chmod p m s = (s', r) ->
    only_under p s s' /\ keys_shrink s s' /\ (r = Ok tt -> is_dir_node (pget p s) -> is_dir_node (pget p s')).
  Proof.
    intros V R NL H. unfold chmod in H.
    destruct (resolve s p true) as [rp|e] eqn:Rs.
    2:{ injection H as <- <-. split; [apply only_under_refl|split; [apply keys_shrink_refl|discriminate]]. }
    apply resolve_self in Rs; [|assumption|assumption|intros _; exact NL]. subst rp.
    destruct (pget p s) as [[mm c|mm|t]|] eqn:G; injection H as <- <-.
    - split; [apply only_under_pset|split; [apply keys_shrink_pset_existing; congruence|]].
      intros _ [m' E]. discriminate.
    - split; [apply only_under_pset|split; [apply keys_shrink_pset_existing; congruence|]].
      intros _ _. exists m. apply pget_pset_same.
    - split; [apply only_under_refl|split; [apply keys_shrink_refl|discriminate]].
    - split; [apply only_under_refl|split; [apply keys_shrink_refl|discriminate]].
  Qed.

  (* the loop over directory entries *)
  Lemma iter_frame (f : name -> M unit) d : forall names s s' r,
    (forall n s1 s2 r1, In n names -> valid_fs s1 -> real_dirs s1 [] d -> is_dir_node (pget d s1) ->
        f n s1 = (s2, r1) -> only_under (d ++ [n]) s1 s2 /\ keys_shrink s1 s2) ->
    valid_fs s -> real_dirs s [] d -> is_dir_node (pget d s) ->
    iterM f names s = (s', r) -> only_below d s s' /\ keys_shrink s s'.
  Proof.
    induction names as [|n names IH]; intros s s' r Hf V R D H; cbn [iterM] in H.
    - unfold ret in H. injection H as <- <-. split; [apply only_below_refl|apply keys_shrink_refl].
    - unfold bindM in H. destruct (f n s) as [s1 [u|e]] eqn:F.
      + destruct (Hf n s s1 (Ok u) (or_introl eq_refl) V R D F) as [O K].
        pose proof (under_child_only_below _ _ _ _ O) as OB.
        assert (V1 : valid_fs s1) by (eapply keys_shrink_valid; eauto).
        assert (R1 : real_dirs s1 [] d) by (eapply real_dirs_transfer; [apply only_below_under; exact OB|exact R]).
        assert (D1 : is_dir_node (pget d s1)) by (rewrite OB; [exact D|now right]).
        destruct (IH s1 s' r) as [O2 K2]; try assumption.
        { intros n' sa sb ra I. apply Hf. now right. }
        split; [eapply only_below_trans; eauto|eapply keys_shrink_trans; eauto].
      + injection H as <- <-.
        destruct (Hf n s s1 (Err e) (or_introl eq_refl) V R D F) as [O K].
        split; [eapply under_child_only_below; eauto|exact K].
  Qed.

  Lemma valid_child s d n : valid_fs s -> In n (children d s) -> valid_path (d ++ [n]).
  Proof. intros V I. apply children_spec in I as [v I]. apply V. eapply in_pget; eauto. Qed.

  (* Deleting a directory tree touches nothing outside it: for every file system, tree shape,
     permission assignment and symlink, including a symlink at the top when repaired. *)
  Lemma rdr_frame : forall fuel d s s' r,
    valid_path d -> valid_fs s -> real_dirs s [] d ->
    (repaired = true \/ not_link (pget d s)) ->
    remove_dir_recursively repaired fuel d s = (s', r) ->
    only_under d s s' /\ keys_shrink s s'.
  Proof.
    induction fuel as [|f IH]; intros d s s' r Vd Vs R NLh H; cbn [remove_dir_recursively] in H.
    - unfold fail in H. injection H as <- <-. split; [apply only_under_refl|apply keys_shrink_refl].
    - unfold bindM at 1 in H.
      (* the top-level symlink check *)
      assert (T : exists top, (if repaired then lstat d else ret (Dir 0)) s = (s, top) /\
                  (forall n, top = Ok n -> (exists t, n = Link t) \/
                                           (not_link (pget d s) /\ forall t, n <> Link t))).
      { destruct repaired.
        - destruct (lstat d s) as [s0 top] eqn:L. pose proof (stat_state _ _ _ _ _ L). subst s0.
          exists top. split; [reflexivity|]. intros n ->. unfold lstat, stat_gen in L.
          destruct (resolve s d false) as [rp|] eqn:Rs; [|discriminate].
          apply resolve_self in Rs; [|assumption|assumption|discriminate]. subst rp.
          destruct (pget d s) as [nd|] eqn:G; [|discriminate]. injection L as <-.
          destruct nd; [right|right|left; eauto]; split; intros t; discriminate.
        - exists (Ok (Dir 0)). split; [reflexivity|]. intros n [= <-]. right.
          destruct NLh as [?|?]; [discriminate|]. split; [assumption|intros t; discriminate]. }
      destruct T as (top & ET & Htop). rewrite ET in H. clear ET.
      destruct top as [top|e]; [|injection H as <- <-; split; [apply only_under_refl|apply keys_shrink_refl]].
      destruct (Htop top eq_refl) as [[t ->]|[NL NT]].
      { now apply unlink_self_frame in H. }
      assert (Body : (chmod d mode_0777 ;;;
               pl <- readdir d ;;
               iterM (fun n => e <- entry_node (fst pl) n ;;
                        match e with
                        | Some (Dir _) => remove_dir_recursively repaired f (d ++ [n])
                        | _ => unlink (d ++ [n])
                        end) (snd pl) ;;; rmdir d) s = (s', r)).
      { destruct top; [exact H|exact H|]. exfalso. now apply (NT target). }
      clear H. unfold bindM at 1 in Body.
      destruct (chmod d mode_0777 s) as [s1 r1] eqn:C.
      destruct (chmod_self_frame _ _ _ _ _ Vd R NL C) as (O1 & K1 & D1).
      destruct r1 as [u|e]; [|injection Body as <- <-; split; assumption].
      assert (V1 : valid_fs s1) by (eapply keys_shrink_valid; eauto).
      assert (R1 : real_dirs s1 [] d) by (eapply real_dirs_transfer; eauto).
      unfold bindM at 1 in Body.
      destruct (readdir d s1) as [s2 r2] eqn:RD. pose proof (readdir_state _ _ _ _ RD). subst s2.
      destruct r2 as [[rp names]|e]; [|injection Body as <- <-; split; assumption].
      apply readdir_ok in RD as (Rs & -> & Drp).
      assert (NL1 : not_link (pget d s1)).
      { intros t E. destruct u. unfold chmod in C. (* chmod succeeded, so d is a file or a directory *)
        destruct (resolve s d true) as [rp'|] eqn:Rs0; [|discriminate].
        apply resolve_self in Rs0; [|assumption|assumption|intros _; exact NL]. subst rp'.
        destruct (pget d s) as [[mm c|mm|t0]|] eqn:G; try discriminate;
          injection C as <-; rewrite pget_pset_same in E; discriminate. }
      apply resolve_self in Rs; [|assumption|assumption|intros _; exact NL1]. subst rp.
      cbn [fst snd] in Body. unfold bindM at 1 in Body.
      match type of Body with context [iterM ?ff ?nn s1] => destruct (iterM ff nn s1) as [s3 r3] eqn:IT end.
      apply iter_frame with (d := d) in IT as [O3 K3]; try assumption.
      2:{ intros n sa sb ra I Va Ra Da F. unfold bindM, entry_node in F.
          assert (Vn : valid_path (d ++ [n])).
          { apply (valid_child s1); [exact V1|exact I]. }
          destruct (pget (d ++ [n]) sa) as [[mm c|mm|t]|] eqn:G.
          - apply unlink_self_frame in F; [exact F|exact Vn|now apply real_dirs_child].
          - apply IH in F; [exact F|exact Vn|exact Va|now apply real_dirs_child|].
            right. intros t E. congruence.
          - apply unlink_self_frame in F; [exact F|exact Vn|now apply real_dirs_child].
          - apply unlink_self_frame in F; [exact F|exact Vn|now apply real_dirs_child]. }
      assert (O13 : only_under d s s3).
      { eapply only_under_trans; [exact O1|apply only_below_under; exact O3]. }
      assert (K13 : keys_shrink s s3) by (eapply keys_shrink_trans; eauto).
      destruct r3 as [u3|e]; [|injection Body as <- <-; split; assumption].
      assert (R3 : real_dirs s3 [] d) by (eapply real_dirs_transfer; eauto).
      apply rmdir_self_frame in Body as [O4 K4]; [|assumption|assumption].
      split; [eapply only_under_trans; eauto|eapply keys_shrink_trans; eauto].
  Qed.
End Frames.

(* ---------- delete_layer ---------- *)
Definition only_at (p : path) (s s' : fs) : Prop := forall q, q <> p -> pget q s' = pget q s.

Lemma unlink_self_at s p s' r :
  valid_path p -> real_dirs s [] p -> unlink p s = (s', r) -> only_at p s s' /\ keys_shrink s s'.
Proof.
  intros V R H. apply unlink_frame in H as [->|(rp & Rs & ->)].
  - split; [intros q _; reflexivity|apply keys_shrink_refl].
  - apply resolve_self in Rs; [|assumption|assumption|discriminate]. subst rp.
    split; [intros q NE; now apply pget_pdel_other|apply keys_shrink_pdel].
Qed.

Lemma default_on_not_found_state (m : M unit) s s' r :
  default_on_not_found m s = (s', r) -> exists r0, m s = (s', r0).
Proof.
  unfold default_on_not_found. destruct (m s) as [s0 [u|e]]; [intros [= <- <-]; eauto|].
  destruct e; intros [= <- <-]; eauto.
Qed.

Lemma valid_name_app n x : valid_name n = true -> (2 <= length x)%nat ->
  existsb (N.eqb 47) x = false -> valid_name (n ++ x) = true.
Proof.
  unfold valid_name. intros H L S. repeat (apply andb_true_iff in H as [H ?]).
  rewrite negb_true_iff in *. repeat (apply andb_true_iff; split); rewrite negb_true_iff.
  - destruct n; [discriminate|reflexivity].
  - apply beq_neq. intros E. apply (f_equal (@length _)) in E. rewrite app_length in E. cbn in E.
    destruct n; [discriminate|]. cbn in E. lia.
  - apply beq_neq. intros E. apply (f_equal (@length _)) in E. rewrite app_length in E. cbn in E.
    destruct n; [discriminate|]. cbn in E. lia.
  - rewrite existsb_app. now rewrite H0, S.
Qed.

Lemma valid_path_snoc p n : valid_path p -> valid_name n = true -> valid_path (p ++ [n]).
Proof. intros V H. apply Forall_app. split; [exact V|constructor; [exact H|constructor]]. Qed.

(* sibling entries of the layers directory share the layer's real prefix *)
Lemma real_dirs_sibling s layers n m : real_dirs s [] (layers ++ [n]) -> real_dirs s [] (layers ++ [m]).
Proof.
  intros R k Lk. rewrite app_length in Lk. cbn [length app] in *.
  specialize (R k). rewrite app_length in R. cbn [length] in R. specialize (R Lk).
  rewrite firstn_app in *. replace (k - length layers)%nat with 0%nat in * by lia.
  cbn [firstn] in *. exact R.
Qed.

Lemma only_at_real_dirs s s' layers m n :
  only_at (layers ++ [m]) s s' -> real_dirs s [] (layers ++ [n]) -> real_dirs s' [] (layers ++ [n]).
Proof.
  intros O R k Lk. specialize (R k Lk). cbn [app] in *. rewrite O; [exact R|].
  intros E. apply (f_equal (@length _)) in E. rewrite firstn_length, !app_length in E.
  rewrite app_length in Lk. cbn [length] in *. lia.
Qed.

Definition sfx_ok (sx : bytes) : Prop := existsb (N.eqb 47) sx = false.

Theorem delete_layer_frame sfxs layers n s s' r :
  valid_path layers -> valid_name n = true -> Forall sfx_ok sfxs ->
  valid_fs s -> real_dirs s [] (layers ++ [n]) ->
  delete_layer true true sfxs layers n s = (s', r) ->
  forall q, owned sfxs layers n q = false -> pget q s' = pget q s.
Proof.
  intros Vl Vn Vs Vf R H q NO. unfold owned in NO.
  apply orb_false_iff in NO as [NO NO3]. apply orb_false_iff in NO as [NO1 NO2].
  apply path_eqb_neq in NO2.
  unfold delete_layer in H. unfold bindM at 1 in H.
  destruct (default_on_not_found (remove_dir_recursively true (rdr_fuel s) (layers ++ [n])) s) as [s1 r1] eqn:D1.
  apply default_on_not_found_state in D1 as [r0 D1].
  apply rdr_frame in D1 as [O1 K1]; [|now apply valid_path_snoc|exact Vf|exact R|now left].
  assert (E1 : pget q s1 = pget q s) by now apply O1.
  destruct r1 as [u|e]; [|injection H as <- <-; exact E1].
  assert (R1 : real_dirs s1 [] (layers ++ [n])) by (eapply real_dirs_transfer; eauto).
  assert (V1 : valid_fs s1) by (eapply keys_shrink_valid; eauto).
  unfold bindM at 1 in H.
  destruct (default_on_not_found (unlink (layers ++ [toml_name n])) s1) as [s2 r2] eqn:D2.
  apply default_on_not_found_state in D2 as [r0' D2].
  assert (Vt : valid_name (toml_name n) = true) by (apply valid_name_app; [exact Vn|cbn; lia|reflexivity]).
  apply unlink_self_at in D2 as [O2 K2]; [|now apply valid_path_snoc|eapply real_dirs_sibling; eauto].
  assert (E2 : pget q s2 = pget q s) by (rewrite O2; [exact E1|exact NO2]).
  destruct r2 as [u2|e]; [|injection H as <- <-; exact E2].
  assert (R2 : real_dirs s2 [] (layers ++ [n])) by (eapply only_at_real_dirs; eauto).
  clear E1 O1 K1 R1 V1 O2 K2 R Vf r0 r0'.
  (* the SBOM files *)
  revert s2 E2 R2 H NO3. induction sfxs as [|sx sfxs IH]; intros s2 E2 R2 H NO3; cbn [iterM] in H.
  - unfold ret in H. now injection H as <- <-.
  - cbn [existsb] in NO3. apply orb_false_iff in NO3 as [NOa NOb]. apply path_eqb_neq in NOa.
    inversion Vs as [|? ? Sx Ss]; subst.
    unfold bindM at 1 in H.
    destruct (default_on_not_found (unlink (layers ++ [sbom_name n sx])) s2) as [s3 r3] eqn:D3.
    apply default_on_not_found_state in D3 as [r0 D3].
    assert (Vsx : valid_name (sbom_name n sx) = true).
    { unfold sbom_name. apply valid_name_app; [exact Vn|rewrite app_length; cbn; lia|].
      rewrite existsb_app. cbn [existsb]. cbn. exact Sx. }
    apply unlink_self_at in D3 as [O3 K3]; [|now apply valid_path_snoc|eapply real_dirs_sibling; eauto].
    assert (E3 : pget q s3 = pget q s) by (rewrite O3; [exact E2|exact NOa]).
    destruct r3 as [u3|e]; [|injection H as <- <-; exact E3].
    apply (IH Ss s3); try assumption. eapply only_at_real_dirs; eauto.
Qed.

(* F4: the code as found follows a symlink that is the layer directory itself *)
Definition f4_fs : fs :=
  [ ([], Dir 493); ([[108]], Dir 493); ([[111]], Dir 365); ([[111]; [102]], File 420 (Raw [1]));
    ([[108]; [121]], Link [47; 111]) ].     (* /l/y -> /o ; /o is 0555 and holds f *)

Theorem toplevel_symlink_legacy_refuted :
  let '(s', _) := delete_layer false false spec_sbom_suffixes [[108]] [121] f4_fs in
  pget [[111]; [102]] s' = None /\ pget [[111]] s' = Some (Dir 511) /\
  (let '(s2, r2) := delete_layer true true spec_sbom_suffixes [[108]] [121] f4_fs in
   pget [[111]; [102]] s2 = Some (File 420 (Raw [1])) /\ pget [[111]] s2 = Some (Dir 365) /\
   pget [[108]; [121]] s2 = None /\ r2 = Ok tt).
Proof. vm_compute. repeat split. Qed.
