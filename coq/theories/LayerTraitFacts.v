(* LayerTraitFacts.v -- theorems about the trait-based layer API model. *)
From LV Require Import Base Toml FS LayerEnv LayerShared LayerEnvFS SpecDocs LayerStore LayerStoreSpec LayerStoreFacts LayerTrait.
Open Scope N_scope.
Open Scope list_scope.

(* read_layer in terms of the classification of the layer's record *)
Definition normalized (n : bytes) (st : store) : store :=
  let l := lget n st in
  match l_dir l, l_toml l with
  | None, Some _ => lset n (mkLay None None (l_sboms l)) st
  | Some d, None => lset n (mkLay (Some d) (Some doc_empty) (l_sboms l)) st
  | _, _ => st
  end.

Lemma read_layer_class m n st :
  read_layer m n st =
  (normalized n st,
   match classify_pre m (lget n st) with
   | PAbsent => RNone
   | PValid x => RSome (match classify_content (eff_content (lget n st)) with CLcm ty _ => ty | _ => None end) x
   | PInvalid _ | PBroken => RParseErr
   end).
Proof.
  unfold read_layer, normalized, classify_pre, eff_content.
  destruct (l_dir (lget n st)) as [d|], (l_toml (lget n st)) as [c|]; try reflexivity.
  - destruct (classify_content c) as [| |ty x]; try reflexivity. destruct (md_ok m x); reflexivity.
  - destruct (classify_content doc_empty) as [| |ty x]; try reflexivity. destruct (md_ok m x); reflexivity.
Qed.

Lemma normalized_frame n st : frame n st (normalized n st).
Proof.
  unfold normalized. destruct (l_dir (lget n st)), (l_toml (lget n st)); try apply frame_refl; apply frame_lset.
Qed.

Section TraitFacts.
  Variable rm : bool.
  Variable ko : bool.
  Variable sfx : list bytes.
  Variable order : list beh.
  Variable wtab : writer_table.
  Variable rtab : reader_table.
  Variable no_ext : option beh.
  Variable path_rows : list (bytes * scope_kind * bytes).
  Variable sep : bytes.
  Variable rp : bool.

  Notation t_read := (t_read rtab no_ext path_rows sep rp).
  Notation t_write := (t_write sfx order wtab).
  Notation finish := (finish rtab no_ext path_rows sep rp).
  Notation t_create := (t_create sfx order wtab rtab no_ext path_rows sep rp).
  Notation t_update := (t_update sfx order wtab rtab no_ext path_rows sep rp).
  Notation t_handle := (t_handle rm ko sfx order wtab rtab no_ext path_rows sep rp).
  Notation read_env := (read_env rtab no_ext path_rows sep rp).

  Lemma t_read_frame m n st st' r : t_read m n st = (st', r) -> frame n st st'.
  Proof.
    unfold LayerTrait.t_read. destruct (read_layer m n st) as [st1 rr] eqn:E. pose proof (read_layer_frame _ _ _ _ _ E) as F.
    destruct rr as [|ty x| |]; intros H; try (inversion H; subst; exact F).
    destruct (l_dir (lget n st1)) as [d|]; [destruct (LayerTrait.read_env rtab no_ext path_rows sep rp d)|]; inversion H; subst; exact F.
  Qed.

  Lemma t_write_frame n e ty x ex sb st st' r : t_write n e ty x ex sb st = (st', r) -> frame n st st'.
  Proof.
    unfold LayerTrait.t_write.
    destruct (on_dir n _ EWriteIo (fun _ => EWriteIo) (write_layer n ty x st)) as [st2 r2] eqn:E2.
    pose proof (on_dir_frame _ _ _ _ _ _ _ E2) as F2.
    assert (F12 : frame n st st2) by (eapply frame_trans; [apply write_layer_frame|exact F2]).
    destruct r2 as [u|e1]; [|intros H; inversion H; subst; exact F12].
    destruct (match sb with Some s => replace_layer_sboms sfx n s st2 | None => (st2, Ok tt) end) as [st3 r3] eqn:E3.
    assert (F3 : frame n st2 st3).
    { destruct sb; [eapply replace_sboms_frame; exact E3|inversion E3; apply frame_refl]. }
    destruct r3 as [u3|e3]; [|intros H; inversion H; subst; eapply frame_trans; eauto].
    destruct ex as [p|]; intros H.
    - unfold replace_layer_exec_d in H. eapply frame_trans; [eapply frame_trans; [exact F12|exact F3]|eapply on_dir_frame; exact H].
    - inversion H; subst. eapply frame_trans; eauto.
  Qed.

  Lemma apply_files_frame n files : forall st, frame n st (apply_files n files st).
  Proof.
    induction files as [|f r IH]; intros st; [apply frame_refl|]. cbn [apply_files fold_left].
    eapply frame_trans; [|apply IH].
    destruct (on_dir n (file_fs (fst f) (snd f)) EWriteIo (fun _ => EWriteIo) st) as [s' r'] eqn:E. cbn [fst].
    eapply on_dir_frame; exact E.
  Qed.

  Lemma finish_frame m n st st' r : finish m n st = (st', r) -> frame n st st'.
  Proof.
    unfold LayerTrait.finish. destruct (t_read m n st) as [s1 rr] eqn:E. pose proof (t_read_frame _ _ _ _ _ E) as F.
    destruct rr; intros H; inversion H; subst; exact F.
  Qed.

  Lemma t_create_frame L n st st' calls r : t_create L n st = (st', calls, r) -> frame n st st'.
  Proof.
    unfold LayerTrait.t_create. set (st1 := lset n _ st). assert (F1 : frame n st st1) by apply frame_lset.
    destruct (tl_create L) as [|res]; [intros H; inversion H; subst; exact F1|].
    destruct (t_write n _ _ _ _ _ (apply_files n (r_files res) st1)) as [st3 r3] eqn:EW.
    pose proof (t_write_frame _ _ _ _ _ _ _ _ _ EW) as FW.
    assert (F3 : frame n st st3) by (eapply frame_trans; [exact F1|]; eapply frame_trans; [apply apply_files_frame|exact FW]).
    destruct r3 as [u|e]; [|intros H; inversion H; subst; exact F3].
    destruct (finish (tl_m L) n st3) as [st4 r4] eqn:EF. intros H; inversion H; subst.
    eapply frame_trans; [exact F3|eapply finish_frame; exact EF].
  Qed.

  Lemma t_update_frame L n x st st' calls r : t_update L n x st = (st', calls, r) -> frame n st st'.
  Proof.
    unfold LayerTrait.t_update. destruct (tl_update L) as [|res]; [intros H; inversion H; subst; apply frame_refl|].
    destruct (t_write n _ _ _ _ _ (apply_files n (r_files res) st)) as [st3 r3] eqn:EW.
    pose proof (t_write_frame _ _ _ _ _ _ _ _ _ EW) as FW.
    assert (F3 : frame n st st3) by (eapply frame_trans; [apply apply_files_frame|exact FW]).
    destruct r3 as [u|e]; [|intros H; inversion H; subst; exact F3].
    destruct (finish (tl_m L) n st3) as [st4 r4] eqn:EF. intros H; inversion H; subst.
    eapply frame_trans; [exact F3|eapply finish_frame; exact EF].
  Qed.

  Theorem t_handle_frame : forall fuel L n st st' calls r, t_handle fuel L n st = (st', calls, r) -> frame n st st'.
  Proof.
    induction fuel as [|f IH]; intros L n st st' calls r H; cbn [LayerTrait.t_handle] in H;
      destruct (t_read (tl_m L) n st) as [st1 rr] eqn:ER; pose proof (t_read_frame _ _ _ _ _ ER) as F1;
      destruct rr as [|ty x e| |].
    all: try solve [eapply frame_trans; [exact F1|eapply t_create_frame; exact H]].
    all: try solve [inversion H; subst; exact F1].
    all: try solve [
      destruct (tl_strategy L);
      [ destruct (if ko then replace_layer_types n (tl_types L) st1
                  else t_write n e (Some (tl_types L)) (proj_md (tl_m L) x) None None st1) as [st2 [u|er]] eqn:EW;
        (assert (FW : frame n st1 st2) by (destruct ko; [eapply replace_with_frame; exact EW|eapply t_write_frame; exact EW]));
        [ destruct (finish (tl_m L) n st2) as [st3 r3] eqn:EF; inversion H; subst;
          eapply frame_trans; [exact F1|]; eapply frame_trans; [exact FW|eapply finish_frame; exact EF]
        | inversion H; subst; eapply frame_trans; [exact F1|exact FW] ]
      | destruct (t_update L n x st1) as [[st2 c2] r2] eqn:EU; inversion H; subst;
        eapply frame_trans; [exact F1|eapply t_update_frame; exact EU]
      | destruct (t_create L n (delete_layer rm n st1)) as [[st2 c2] r2] eqn:EC; inversion H; subst;
        eapply frame_trans; [exact F1|]; eapply frame_trans; [apply delete_layer_frame|eapply t_create_frame; exact EC]
      | inversion H; subst; exact F1 ]].
    - (* fuel 0, parse error *)
      destruct (t_read MG n st1) as [st2 rg] eqn:EG. pose proof (t_read_frame _ _ _ _ _ EG) as F2.
      assert (F12 : frame n st st2) by (eapply frame_trans; eauto).
      destruct rg as [|gty gx ge| |]; try (inversion H; subst; exact F12).
      destruct (tl_migrate L) as [|x'|]; try (inversion H; subst; exact F12).
      destruct (t_write n ge gty x' None None st2) as [st3 [u|er]] eqn:EW; inversion H; subst;
        (eapply frame_trans; [exact F12|eapply t_write_frame; exact EW]).
    - (* fuel S f, parse error *)
      destruct (t_read MG n st1) as [st2 rg] eqn:EG. pose proof (t_read_frame _ _ _ _ _ EG) as F2.
      assert (F12 : frame n st st2) by (eapply frame_trans; eauto).
      destruct rg as [|gty gx ge| |]; try (inversion H; subst; exact F12).
      destruct (tl_migrate L) as [|x'|].
      + destruct (t_handle f L n (delete_layer rm n st2)) as [[st3 c3] r3] eqn:EH. inversion H; subst.
        eapply frame_trans; [exact F12|]. eapply frame_trans; [apply delete_layer_frame|eapply IH; exact EH].
      + destruct (t_write n ge gty x' None None st2) as [st3 [u|er]] eqn:EW.
        * destruct (t_handle f L n st3) as [[st4 c4] r4] eqn:EH. inversion H; subst.
          eapply frame_trans; [exact F12|]. eapply frame_trans; [eapply t_write_frame; exact EW|eapply IH; exact EH].
        * inversion H; subst. eapply frame_trans; [exact F12|eapply t_write_frame; exact EW].
      + inversion H; subst; exact F12.
  Qed.

  (* ---------- what is on disk is what was returned ---------- *)
  Lemma on_dir_keeps n f e1 e2 st st' r : on_dir n f e1 e2 st = (st', r) ->
    l_toml (lget n st') = l_toml (lget n st) /\ (l_dir (lget n st) <> None -> l_dir (lget n st') <> None).
  Proof.
    unfold on_dir. destruct (l_dir (lget n st)) as [d|] eqn:Ed.
    - destruct (f d) as [d' r']. intros H; inversion H; subst. rewrite lget_lset_same. cbn. split; [reflexivity|intros _; discriminate].
    - intros H; inversion H; subst. split; [reflexivity|]. rewrite Ed. auto.
  Qed.

  Lemma replace_sboms_keeps n sb st st' r : replace_layer_sboms sfx n sb st = (st', r) ->
    l_toml (lget n st') = l_toml (lget n st) /\ (l_dir (lget n st) <> None -> l_dir (lget n st') <> None).
  Proof.
    unfold replace_layer_sboms. destruct (l_dir (lget n st)) as [d|] eqn:Ed; intros H; inversion H; subst.
    - rewrite lget_lset_same. cbn. split; [reflexivity|intros _; discriminate].
    - split; [reflexivity|auto].
  Qed.

  Lemma t_write_toml n e ty x ex sb st st' : t_write n e ty x ex sb st = (st', Ok tt) ->
    l_toml (lget n st') = Some (Doc (gen_render (ty, x))) /\ l_dir (lget n st') <> None.
  Proof.
    unfold LayerTrait.t_write.
    assert (W : l_toml (lget n (write_layer n ty x st)) = Some (Doc (gen_render (ty, x))) /\ l_dir (lget n (write_layer n ty x st)) <> None).
    { unfold write_layer. rewrite lget_lset_same. cbn. split; [reflexivity|discriminate]. }
    destruct W as [W1 W2].
    destruct (on_dir n _ EWriteIo (fun _ => EWriteIo) (write_layer n ty x st)) as [st2 r2] eqn:E2.
    destruct (on_dir_keeps _ _ _ _ _ _ _ E2) as [K1 K2].
    destruct r2 as [u|e1]; [|intros H; discriminate].
    destruct (match sb with Some s => replace_layer_sboms sfx n s st2 | None => (st2, Ok tt) end) as [st3 r3] eqn:E3.
    assert (K3 : l_toml (lget n st3) = l_toml (lget n st2) /\ (l_dir (lget n st2) <> None -> l_dir (lget n st3) <> None)).
    { destruct sb; [eapply replace_sboms_keeps; exact E3|inversion E3; subst; auto]. }
    destruct K3 as [K3 K4].
    destruct r3 as [u3|e3]; [|intros H; discriminate].
    destruct ex as [p|]; intros H.
    - unfold replace_layer_exec_d in H. destruct (on_dir_keeps _ _ _ _ _ _ _ H) as [K5 K6].
      split; [congruence|auto].
    - inversion H; subst. split; [congruence|auto].
  Qed.

  Lemma finish_ok m n st st' data : finish m n st = (st', Ok data) -> l_toml (lget n st) <> None ->
    st' = st /\ exists d c, l_dir (lget n st) = Some d /\ l_toml (lget n st) = Some c /\
                           classify_content c = CLcm (d_types data) (d_md data) /\ md_ok m (d_md data) = true /\
                           read_env d = Ok (d_env data).
  Proof.
    unfold LayerTrait.finish, LayerTrait.t_read, read_layer. intros H Ht.
    destruct (l_dir (lget n st)) as [d|] eqn:Ed, (l_toml (lget n st)) as [c|] eqn:Ec; try congruence.
    destruct (classify_content c) as [| |ty x] eqn:Ecl; try discriminate.
    destruct (md_ok m x) eqn:Eok; try discriminate.
    rewrite Ed in H. destruct (LayerTrait.read_env rtab no_ext path_rows sep rp d) as [e|er] eqn:Ee; try discriminate.
    inversion H; subst. split; [reflexivity|]. exists d, c. cbn. auto.
  Qed.

  Definition on_disk (L : tlayer) (n : bytes) (st' : store) (data : tdata) : Prop :=
    d_types data = Some (tl_types L) /\
    l_toml (lget n st') = Some (Doc (gen_render (Some (tl_types L), d_md data))) /\
    exists d, l_dir (lget n st') = Some d /\ read_env d = Ok (d_env data).

  Lemma write_finish L n e x ex sb st st3 st4 data :
    t_write n e (Some (tl_types L)) x ex sb st = (st3, Ok tt) -> finish (tl_m L) n st3 = (st4, Ok data) ->
    on_disk L n st4 data /\ d_md data = x.
  Proof.
    intros HW HF. destruct (t_write_toml _ _ _ _ _ _ _ _ HW) as [T1 T2].
    destruct (finish_ok _ _ _ _ _ HF) as (-> & d & c & Hd & Hc & Hcl & Hok & He); [congruence|].
    rewrite T1 in Hc. inversion Hc; subst c. rewrite classify_render in Hcl. cbn [fst snd] in Hcl.
    injection Hcl as E1 E2.
    split; [|symmetry; exact E2]. split; [symmetry; exact E1|]. split; [rewrite T1, <- E2; reflexivity|].
    exists d. auto.
  Qed.

  Lemma replace_types_finish L n st st2 st3 data :
    replace_layer_types n (tl_types L) st = (st2, Ok tt) -> finish (tl_m L) n st2 = (st3, Ok data) ->
    on_disk L n st3 data /\
    (exists c ty x, l_toml (lget n st) = Some c /\ classify_content c = CLcm ty x /\ d_md data = x) /\
    l_dir (lget n st3) = l_dir (lget n st) /\ l_sboms (lget n st3) = l_sboms (lget n st).
  Proof.
    unfold replace_layer_types, replace_with. intros HR HF.
    destruct (l_toml (lget n st)) as [c|] eqn:Ec; [|discriminate].
    destruct (classify_content c) as [| |ty x] eqn:Ecl; try discriminate.
    inversion HR; subst st2; clear HR. cbn [fst snd] in HF.
    destruct (finish_ok _ _ _ _ _ HF) as (-> & d & c' & Hd & Hc & Hcl & Hok & He).
    { rewrite lget_lset_same. cbn. discriminate. }
    rewrite lget_lset_same in *. cbn [l_dir l_toml l_sboms] in *. inversion Hc; subst c'.
    rewrite classify_render in Hcl. cbn [fst snd] in Hcl. injection Hcl as E1 E2.
    split; [|split; [exists c, ty, x; auto|split; reflexivity]].
    unfold on_disk. rewrite lget_lset_same. cbn [l_dir l_toml].
    split; [symmetry; exact E1|]. split; [rewrite <- E2; reflexivity|]. exists d. auto.
  Qed.

  Lemma t_create_on_disk L n st st' calls data : t_create L n st = (st', calls, Ok data) ->
    on_disk L n st' data /\ exists r, tl_create L = COk r /\ d_md data = r_md r.
  Proof.
    unfold LayerTrait.t_create. set (st1 := lset n _ st).
    destruct (tl_create L) as [|res]; [intros H; discriminate|].
    destruct (t_write n _ _ _ _ _ (apply_files n (r_files res) st1)) as [st3 [u|e]] eqn:EW; [|intros H; discriminate].
    destruct u. destruct (finish (tl_m L) n st3) as [st4 r4] eqn:EF. intros H; inversion H; subst.
    destruct (write_finish _ _ _ _ _ _ _ _ _ _ EW EF) as [A B]. split; [exact A|]. exists res. auto.
  Qed.

  Lemma t_update_on_disk L n x st st' calls data : t_update L n x st = (st', calls, Ok data) ->
    on_disk L n st' data /\ exists r, tl_update L = COk r /\ d_md data = r_md r.
  Proof.
    unfold LayerTrait.t_update.
    destruct (tl_update L) as [|res]; [intros H; discriminate|].
    destruct (t_write n _ _ _ _ _ (apply_files n (r_files res) st)) as [st3 [u|e]] eqn:EW; [|intros H; discriminate].
    destruct u. destruct (finish (tl_m L) n st3) as [st4 r4] eqn:EF. intros H; inversion H; subst.
    destruct (write_finish _ _ _ _ _ _ _ _ _ _ EW EF) as [A B]. split; [exact A|]. exists res. auto.
  Qed.

  (* whatever path was taken: the returned layer data is what is on disk, with the layer's types *)
  Theorem t_handle_on_disk : forall fuel L n st st' calls data,
    t_handle fuel L n st = (st', calls, Ok data) -> on_disk L n st' data.
  Proof.
    induction fuel as [|f IH]; intros L n st st' calls data H; cbn [LayerTrait.t_handle] in H;
      destruct (t_read (tl_m L) n st) as [st1 rr] eqn:ER; destruct rr as [|ty x e| |].
    all: try solve [eapply t_create_on_disk; exact H].
    all: try solve [discriminate H].
    all: try solve [
      destruct (tl_strategy L);
      [ destruct ko;
        [ destruct (replace_layer_types n (tl_types L) st1) as [st2 [u|er]] eqn:EW; [|discriminate H];
          destruct u; destruct (finish (tl_m L) n st2) as [st3 r3] eqn:EF; inversion H; subst;
          eapply replace_types_finish; eauto
        | destruct (t_write n e (Some (tl_types L)) (proj_md (tl_m L) x) None None st1) as [st2 [u|er]] eqn:EW; [|discriminate H];
          destruct u; destruct (finish (tl_m L) n st2) as [st3 r3] eqn:EF; inversion H; subst;
          eapply write_finish; eauto ]
      | destruct (t_update L n x st1) as [[st2 c2] r2] eqn:EU; inversion H; subst; eapply t_update_on_disk; exact EU
      | destruct (t_create L n (delete_layer rm n st1)) as [[st2 c2] r2] eqn:EC; inversion H; subst; eapply t_create_on_disk; exact EC
      | discriminate H ]].
    - destruct (t_read MG n st1) as [st2 rg] eqn:EG. destruct rg as [|gty gx ge| |]; try discriminate H.
      destruct (tl_migrate L) as [|x'|]; try discriminate H.
      destruct (t_write n ge gty x' None None st2) as [st3 [u|er]] eqn:EW; discriminate H.
    - destruct (t_read MG n st1) as [st2 rg] eqn:EG. destruct rg as [|gty gx ge| |]; try discriminate H.
      destruct (tl_migrate L) as [|x'|]; try discriminate H.
      + destruct (t_handle f L n (delete_layer rm n st2)) as [[st3 c3] r3] eqn:EH. inversion H; subst. eapply IH; exact EH.
      + destruct (t_write n ge gty x' None None st2) as [st3 [u|er]] eqn:EW; [|discriminate H].
        destruct (t_handle f L n st3) as [[st4 c4] r4] eqn:EH. inversion H; subst. eapply IH; exact EH.
  Qed.

  (* ---------- which callbacks run ---------- *)
  Definition strategy_calls (L : tlayer) (x : md) : list tcall :=
    TStrategy x :: match tl_strategy L with
                   | DKeep | DErrStrategy => []
                   | DUpdate => [TUpdate x]
                   | DRecreate => [TCreate true]
                   end.

  Definition spec_tcalls (L : tlayer) (cls : pre_class) : list tcall :=
    match cls with
    | PAbsent => [TCreate true]
    | PValid x => strategy_calls L x
    | PInvalid gx => TMigrate gx :: match tl_migrate L with
                                    | GErr => []
                                    | GRecreate => [TCreate true]
                                    | GReplace x' => strategy_calls L x'
                                    end
    | PBroken => []
    end.

  Definition ok_or_bp (r : result herr tdata) : Prop :=
    match r with Ok _ => True | Err EBuildpack => True | Err _ => False end.

  Definition mig_valid (L : tlayer) : Prop := match tl_migrate L with GReplace x' => md_ok (tl_m L) x' = true | _ => True end.

  Lemma t_create_calls L n st st' calls r :
    l_dir (lget n st) = None -> t_create L n st = (st', calls, r) -> calls = [TCreate true].
  Proof.
    intros Hd. unfold LayerTrait.t_create. rewrite Hd.
    assert (E : dir_is_empty n (lset n (mkLay (Some fresh_dir) (l_toml (lget n st)) (l_sboms (lget n st))) st) = true).
    { unfold dir_is_empty. rewrite lget_lset_same. reflexivity. }
    rewrite E. destruct (tl_create L) as [|res]; [intros H; inversion H; reflexivity|].
    destruct (t_write n _ _ _ _ _ _) as [st3 [u|e]]; [|intros H; inversion H; reflexivity].
    destruct (finish (tl_m L) n st3) as [st4 r4]. intros H; inversion H; reflexivity.
  Qed.

  Lemma t_update_calls L n x st st' calls r : t_update L n x st = (st', calls, r) -> calls = [TUpdate x].
  Proof.
    unfold LayerTrait.t_update. destruct (tl_update L) as [|res]; [intros H; inversion H; reflexivity|].
    destruct (t_write n _ _ _ _ _ _) as [st3 [u|e]]; [|intros H; inversion H; reflexivity].
    destruct (finish (tl_m L) n st3) as [st4 r4]. intros H; inversion H; reflexivity.
  Qed.

  Lemma delete_absent n st : l_dir (lget n (delete_layer rm n st)) = None.
  Proof. unfold delete_layer. rewrite lget_lset_same. reflexivity. Qed.

  Lemma normalized_dir n st : l_dir (lget n (normalized n st)) = l_dir (lget n st).
  Proof.
    unfold normalized. destruct (l_dir (lget n st)) as [d|] eqn:Ed, (l_toml (lget n st)) as [c|] eqn:Ec;
      rewrite ?lget_lset_same; cbn; congruence.
  Qed.

  Lemma t_read_absent m n st : l_dir (lget n st) = None -> t_read m n st = (normalized n st, TNone).
  Proof.
    intros Hd. unfold LayerTrait.t_read. rewrite read_layer_class. unfold classify_pre. rewrite Hd. reflexivity.
  Qed.

  Lemma handle_absent fuel L n st st' calls r :
    l_dir (lget n st) = None -> t_handle fuel L n st = (st', calls, r) -> calls = [TCreate true].
  Proof.
    intros Hd H. destruct fuel; cbn [LayerTrait.t_handle] in H; rewrite (t_read_absent _ _ _ Hd) in H;
      (eapply t_create_calls; [|exact H]); rewrite normalized_dir; exact Hd.
  Qed.

  Lemma handle_valid_calls fuel L n st st' calls r x :
    classify_pre (tl_m L) (lget n st) = PValid x -> t_handle fuel L n st = (st', calls, r) -> ok_or_bp r ->
    calls = strategy_calls L x.
  Proof.
    intros Hc H Hr.
    assert (HR : exists ty, read_layer (tl_m L) n st = (normalized n st, RSome ty x)).
    { rewrite read_layer_class, Hc. eexists; reflexivity. }
    destruct HR as [ty HR].
    assert (HT : (exists e, t_read (tl_m L) n st = (normalized n st, TSome ty x e)) \/ t_read (tl_m L) n st = (normalized n st, TIo)).
    { unfold LayerTrait.t_read. rewrite HR. destruct (l_dir (lget n (normalized n st))) as [d|]; [|right; reflexivity].
      destruct (LayerTrait.read_env rtab no_ext path_rows sep rp d); [left; eexists; reflexivity|right; reflexivity]. }
    unfold strategy_calls.
    destruct fuel; cbn [LayerTrait.t_handle] in H.
    all: destruct HT as [[e HE]|HE]; rewrite HE in H;
      [|inversion H; subst; cbn in Hr; contradiction].
    all: destruct (tl_strategy L);
      [ destruct (if ko then replace_layer_types n (tl_types L) (normalized n st)
                  else t_write n e (Some (tl_types L)) (proj_md (tl_m L) x) None None (normalized n st)) as [st2 [u|er]];
        [ destruct (finish (tl_m L) n st2) as [st3 r3]; inversion H; reflexivity | inversion H; reflexivity ]
      | destruct (t_update L n x (normalized n st)) as [[st2 c2] r2] eqn:EU; inversion H; subst;
        rewrite (t_update_calls _ _ _ _ _ _ _ EU); reflexivity
      | destruct (t_create L n (delete_layer rm n (normalized n st))) as [[st2 c2] r2] eqn:EC; inversion H; subst;
        rewrite (t_create_calls _ _ _ _ _ _ (delete_absent _ _) EC); reflexivity
      | inversion H; reflexivity ].
  Qed.

  Lemma t_write_err n e ty x ex sb st st' er : t_write n e ty x ex sb st = (st', Err er) -> er <> EBuildpack.
  Proof.
    unfold LayerTrait.t_write.
    destruct (on_dir n _ EWriteIo (fun _ => EWriteIo) (write_layer n ty x st)) as [st2 r2] eqn:E2.
    assert (N2 : forall e1, r2 = Err e1 -> e1 <> EBuildpack).
    { unfold on_dir in E2. destruct (l_dir (lget n (write_layer n ty x st))) as [d|].
      - destruct (write_to_layer_dir order wtab e [] d) as [d' [u|ee]]; inversion E2; subst; intros e1 X; inversion X; discriminate.
      - inversion E2; subst. intros e1 X; inversion X; discriminate. }
    destruct r2 as [u|e1]; [|intros H; inversion H; subst; apply N2; reflexivity].
    destruct (match sb with Some s => replace_layer_sboms sfx n s st2 | None => (st2, Ok tt) end) as [st3 r3] eqn:E3.
    destruct r3 as [u3|e3].
    - destruct ex as [p|]; intros H; [|discriminate].
      unfold replace_layer_exec_d, on_dir in H. destruct (l_dir (lget n st3)) as [d|]; [|inversion H; discriminate].
      destruct (execd_fs p d) as [d' [u4|e4]]; inversion H.
      destruct (existsb _ p); discriminate.
    - intros H; inversion H; subst. destruct sb as [s0|]; [|discriminate].
      unfold replace_layer_sboms in E3. destruct (l_dir (lget n st2)); inversion E3. discriminate.
  Qed.

  Lemma normalized_class m n st : l_dir (lget n st) <> None ->
    classify_pre m (lget n (normalized n st)) = classify_pre m (lget n st).
  Proof.
    intros Hd. unfold normalized. destruct (l_dir (lget n st)) as [d|] eqn:Ed; [|congruence].
    destruct (l_toml (lget n st)) as [c|] eqn:Ec; [reflexivity|].
    rewrite lget_lset_same. unfold classify_pre, eff_content. cbn [l_dir l_toml]. rewrite Ed, Ec. reflexivity.
  Qed.

  Lemma normalized_idem n st : normalized n (normalized n st) = normalized n st.
  Proof.
    unfold normalized at 2. destruct (l_dir (lget n st)) as [d|] eqn:Ed, (l_toml (lget n st)) as [c|] eqn:Ec;
      unfold normalized; rewrite ?lget_lset_same; cbn [l_dir l_toml]; rewrite ?Ed, ?Ec; reflexivity.
  Qed.

  (* exactly the callbacks the classification and the decisions call for -- each at most once *)
  Theorem t_handle_calls f L n st st' calls r :
    mig_valid L -> t_handle (S f) L n st = (st', calls, r) -> ok_or_bp r ->
    calls = spec_tcalls L (classify_pre (tl_m L) (lget n st)).
  Proof.
    intros Hm H Hr. destruct (classify_pre (tl_m L) (lget n st)) as [|x|gx|] eqn:Hc; cbn [spec_tcalls].
    - eapply handle_absent; [|exact H]. unfold classify_pre in Hc. destruct (l_dir (lget n st)); [|reflexivity].
      destruct (classify_content _) as [| |ty y]; try discriminate. destruct (md_ok _ y); discriminate.
    - eapply handle_valid_calls; eauto.
    - (* invalid for the layer's metadata type: the generic reading succeeds *)
      assert (Hdir : l_dir (lget n st) <> None).
      { unfold classify_pre in Hc. destruct (l_dir (lget n st)); [discriminate|discriminate Hc]. }
      cbn [LayerTrait.t_handle] in H. unfold LayerTrait.t_read at 1 in H. rewrite read_layer_class, Hc in H.
      assert (HG : classify_pre MG (lget n (normalized n st)) = PValid gx).
      { rewrite normalized_class by exact Hdir. unfold classify_pre in *. destruct (l_dir (lget n st)); [|congruence].
        destruct (classify_content (eff_content (lget n st))) as [| |ty y]; try discriminate.
        destruct (md_ok (tl_m L) y); [discriminate|]. inversion Hc; subst. reflexivity. }
      assert (HT : (exists ty e, t_read MG n (normalized n st) = (normalized n st, TSome ty gx e)) \/
                   t_read MG n (normalized n st) = (normalized n st, TIo)).
      { unfold LayerTrait.t_read. rewrite read_layer_class, HG, normalized_idem.
        destruct (l_dir (lget n (normalized n st))) as [d|]; [|right; reflexivity].
        destruct (LayerTrait.read_env rtab no_ext path_rows sep rp d); [left; eexists; eexists; reflexivity|right; reflexivity]. }
      destruct HT as [(gty & ge & HE)|HE]; rewrite HE in H; [|inversion H; subst; cbn in Hr; contradiction].
      unfold mig_valid in Hm. destruct (tl_migrate L) as [|x'|].
      + destruct (t_handle f L n (delete_layer rm n (normalized n st))) as [[st3 c3] r3] eqn:EH. inversion H; subst.
        rewrite (handle_absent _ _ _ _ _ _ _ (delete_absent _ _) EH). reflexivity.
      + destruct (t_write n ge gty x' None None (normalized n st)) as [st3 [u|er]] eqn:EW.
        * destruct (t_handle f L n st3) as [[st4 c4] r4] eqn:EH. inversion H; subst.
          destruct u. destruct (t_write_toml _ _ _ _ _ _ _ _ EW) as [T1 T2].
          assert (HV : classify_pre (tl_m L) (lget n st3) = PValid x').
          { unfold classify_pre, eff_content. destruct (l_dir (lget n st3)); [|congruence]. rewrite T1, classify_render.
            cbn [fst snd]. rewrite Hm. reflexivity. }
          rewrite (handle_valid_calls _ _ _ _ _ _ _ _ HV EH Hr). reflexivity.
        * inversion H; subst. cbn in Hr. pose proof (t_write_err _ _ _ _ _ _ _ _ _ EW) as NE. destruct er; try contradiction; congruence.
      + inversion H; reflexivity.
    - (* not even generic content metadata: no callback runs *)
      cbn [LayerTrait.t_handle] in H. unfold LayerTrait.t_read at 1 in H. rewrite read_layer_class, Hc in H.
      assert (Hdir : l_dir (lget n st) <> None).
      { unfold classify_pre in Hc. destruct (l_dir (lget n st)); [discriminate|discriminate Hc]. }
      assert (HG : classify_pre MG (lget n (normalized n st)) = PBroken).
      { rewrite normalized_class by exact Hdir. unfold classify_pre in *. destruct (l_dir (lget n st)); [|congruence].
        destruct (classify_content (eff_content (lget n st))) as [| |ty y]; try reflexivity.
        destruct (md_ok (tl_m L) y); discriminate. }
      unfold LayerTrait.t_read in H. rewrite read_layer_class, HG in H. inversion H; reflexivity.
  Qed.

  (* create and update each run at most once per request, and only when due *)
  Definition count_create (l : list tcall) : nat := List.length (filter (fun c => match c with TCreate _ => true | _ => false end) l).
  Definition count_update (l : list tcall) : nat := List.length (filter (fun c => match c with TUpdate _ => true | _ => false end) l).

  Corollary callbacks_at_most_once f L n st st' calls r :
    mig_valid L -> t_handle (S f) L n st = (st', calls, r) -> ok_or_bp r ->
    (count_create calls <= 1)%nat /\ (count_update calls <= 1)%nat /\
    (forall fl, In (TCreate fl) calls -> fl = true).
  Proof.
    intros Hm H Hr. rewrite (t_handle_calls f L n st st' calls r Hm H Hr).
    assert (G : forall l, (forall c, In c l -> match c with TCreate fl => fl = true | _ => True end) ->
                          forall fl, In (TCreate fl) l -> fl = true).
    { intros l Hl fl Hin. apply (Hl _ Hin). }
    unfold spec_tcalls, strategy_calls, count_create, count_update.
    destruct (classify_pre (tl_m L) (lget n st)) as [|x|gx|]; destruct (tl_strategy L); destruct (tl_migrate L) as [|x'|];
      (split; [cbn; auto|split; [cbn; auto|]]);
      apply G; intros c Hin; cbn in Hin;
      repeat (destruct Hin as [<-|Hin]; [exact I || reflexivity|]); try contradiction.
  Qed.

  (* Keep (repaired): directory, SBOMs and metadata -- including keys the metadata type does not
     know -- are exactly what was on disk *)
  Theorem keep_is_identity fuel L n st st' calls data x :
    ko = true -> tl_strategy L = DKeep -> classify_pre (tl_m L) (lget n st) = PValid x ->
    t_handle fuel L n st = (st', calls, Ok data) ->
    d_md data = x /\ l_dir (lget n st') = l_dir (lget n st) /\ l_sboms (lget n st') = l_sboms (lget n st).
  Proof.
    intros Hk Hs Hc H.
    assert (Hdir : l_dir (lget n st) <> None).
    { unfold classify_pre in Hc. destruct (l_dir (lget n st)); [discriminate|discriminate Hc]. }
    assert (HR : exists ty, read_layer (tl_m L) n st = (normalized n st, RSome ty x)).
    { rewrite read_layer_class, Hc. eexists; reflexivity. }
    destruct HR as [ty HR].
    assert (HN : l_dir (lget n (normalized n st)) = l_dir (lget n st) /\ l_sboms (lget n (normalized n st)) = l_sboms (lget n st) /\
                 exists c, l_toml (lget n (normalized n st)) = Some c /\ classify_content c = classify_content (eff_content (lget n st))).
    { unfold normalized, eff_content. destruct (l_dir (lget n st)) as [d|] eqn:Ed; [|congruence].
      destruct (l_toml (lget n st)) as [c|] eqn:Ec.
      - rewrite Ed, Ec. split; [reflexivity|]. split; [reflexivity|]. exists c. auto.
      - rewrite lget_lset_same. cbn. split; [reflexivity|]. split; [reflexivity|]. exists doc_empty. auto. }
    destruct HN as (N1 & N2 & c & N3 & N4).
    destruct fuel; cbn [LayerTrait.t_handle] in H; unfold LayerTrait.t_read in H; rewrite HR in H;
      (destruct (l_dir (lget n (normalized n st))) as [d|] eqn:Ed; [|discriminate H]);
      (destruct (LayerTrait.read_env rtab no_ext path_rows sep rp d) as [e|er]; [|discriminate H]);
      rewrite Hs, Hk in H;
      (destruct (replace_layer_types n (tl_types L) (normalized n st)) as [st2 [u|er]] eqn:EW; [|discriminate H]);
      destruct u; (destruct (finish (tl_m L) n st2) as [st3 r3] eqn:EF); inversion H; subst;
      destruct (replace_types_finish _ _ _ _ _ _ EW EF) as (_ & (c' & ty' & x' & C1 & C2 & C3) & D1 & D2);
      (split; [|split; congruence]);
      rewrite N3 in C1; inversion C1; subst c'; rewrite N4 in C2;
      unfold classify_pre in Hc; rewrite <- N1 in Hc; rewrite C2 in Hc;
      (destruct (md_ok (tl_m L) x'); inversion Hc; congruence).
  Qed.
End TraitFacts.

(* F9: the legacy Keep re-serialised the metadata through the layer's metadata type *)
Definition f9_store : store :=
  [([97], mkLay (Some fresh_dir) (Some (Doc (gen_render (None, Some [(k_version, TStr [49]); ([107], TStr [118])])))) [])].
Definition f9_layer : tlayer := mkTL (mkT true false true) MV DKeep GRecreate CErr CErr.

Theorem legacy_keep_drops_keys :
  let run ko := t_handle true ko spec_sbom_suffixes spec_beh_order spec_writer_table spec_reader_table spec_no_ext
                         spec_layer_paths spec_sep true 3 f9_layer [97] f9_store in
  (match run false with (_, _, Ok d) => d_md d = Some [(k_version, TStr [49])] | _ => False end) /\
  (match run true with (_, _, Ok d) => d_md d = Some [(k_version, TStr [49]); ([107], TStr [118])] | _ => False end).
Proof. vm_compute. split; reflexivity. Qed.
