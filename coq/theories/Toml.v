(* Toml.v -- TOML documents at tree level.  The text layer (toml crate printer / parser) is an
   environment model: a bijection between trees and texts on the value kinds used here (strings,
   integers, booleans, arrays, tables; no floats or datetimes), exercised by the correspondence
   streams through an independent parser (Python tomllib). *)
From LV Require Import Base.

Inductive tv :=
| TStr (s : bytes)            (* UTF-8 bytes *)
| TInt (z : Z)
| TBool (b : bool)
| TArr (l : list tv)
| TTbl (l : list (bytes * tv)).

(* induction principle that reaches into the nested lists *)
Section TvInd.
  Variable P : tv -> Prop.
  Hypothesis HStr : forall s, P (TStr s).
  Hypothesis HInt : forall z, P (TInt z).
  Hypothesis HBool : forall b, P (TBool b).
  Hypothesis HArr : forall l, Forall P l -> P (TArr l).
  Hypothesis HTbl : forall l, Forall (fun kv => P (snd kv)) l -> P (TTbl l).

  Fixpoint tv_ind' (t : tv) : P t :=
    match t with
    | TStr s => HStr s
    | TInt z => HInt z
    | TBool b => HBool b
    | TArr l => HArr l ((fix go (l : list tv) : Forall P l :=
                           match l with [] => Forall_nil _ | x :: l' => Forall_cons x (tv_ind' x) (go l') end) l)
    | TTbl l => HTbl l ((fix go (l : list (bytes * tv)) : Forall (fun kv => P (snd kv)) l :=
                           match l with
                           | [] => Forall_nil _
                           | kv :: l' => Forall_cons kv (tv_ind' (snd kv)) (go l')
                           end) l)
    end.
End TvInd.

Fixpoint tv_eqb (a b : tv) : bool :=
  match a, b with
  | TStr x, TStr y => beq x y
  | TInt x, TInt y => Z.eqb x y
  | TBool x, TBool y => Bool.eqb x y
  | TArr x, TArr y =>
      (fix go (x y : list tv) : bool :=
         match x, y with
         | [], [] => true
         | a :: x', b :: y' => tv_eqb a b && go x' y'
         | _, _ => false
         end) x y
  | TTbl x, TTbl y =>
      (fix go (x y : list (bytes * tv)) : bool :=
         match x, y with
         | [], [] => true
         | (k, a) :: x', (k', b) :: y' => beq k k' && tv_eqb a b && go x' y'
         | _, _ => false
         end) x y
  | _, _ => false
  end.

(* table lookup (keys of a parsed TOML table are unique) *)
Fixpoint tget (k : bytes) (l : list (bytes * tv)) : option tv :=
  match l with
  | [] => None
  | (k', v) :: l' => if beq k k' then Some v else tget k l'
  end.

Fixpoint tinsert_sorted (k : bytes) (v : tv) (l : list (bytes * tv)) : list (bytes * tv) :=
  match l with
  | [] => [(k, v)]
  | (k', v') :: l' =>
      match bcmp k k' with
      | Lt => (k, v) :: l
      | Eq => (k, v) :: l'
      | Gt => (k', v') :: tinsert_sorted k v l'
      end
  end.

(* canonical form: table keys sorted, recursively; arrays keep their order *)
Fixpoint canon (t : tv) : tv :=
  match t with
  | TArr l => TArr (map canon l)
  | TTbl l => TTbl (fold_left (fun acc kv => tinsert_sorted (fst kv) (canon (snd kv)) acc) l [])
  | _ => t
  end.

Definition tv_same (a b : tv) : bool := tv_eqb (canon a) (canon b).

Definition tkeys (l : list (bytes * tv)) : list bytes := map fst l.
