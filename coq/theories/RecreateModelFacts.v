(* RecreateModelFacts.v -- the composed model the C11 stream compares BuildContext::uncached_layer with
   (C11Agree.recreate_model: read_layer; delete_layer; write_layer; read_layer, each regenerated from the
   source), on any existing layer with a regular readable content-metadata file: its result in full. *)
From Coq Require Import List Lia NArith Bool.
Import ListNotations.
From LV Require Import Base Toml FS FSFacts LayerShared LayerSharedFacts LayerSharedGone LayerSharedTotal Determinism LayerEnvFSExact.
From LV Require Import ImpPrims ImpTypes ImpFacts LayerSboms LayerSbomsFacts WriteLayerFacts RecreateFacts WriteReadFacts.
From LV.Checks Require Import C11Hold C11Agree.
From LVGen Require Import GenLayerSharedImp.

Lemma bindM_ok {A B} (m : M A) (f : A -> M B) s s' a : m s = (s', Ok a) -> bindM m f s = f a s'.
Proof. intros H. unfold bindM. rewrite H. reflexivity. Qed.

Theorem recreate_model_exact layers n s md m c res post :
  valid_path layers -> valid_name n = true -> valid_fs s -> parent_closed s -> layers_ok s layers ->
  simple_dir s layers ->
  pget (layers ++ [n]) s = Some (Dir md) ->
  pget (layers ++ [toml_name n]) s = Some (File m c) -> has_r m = true ->
  (forall sx m, In sx (map sbom_suffix_of SBOM_FORMATS) -> pget (layers ++ [sbom_name n sx]) s <> Some (Dir m)) ->
  exists s1,
    gen_delete_layer layers n s = (s1, Ok tt) /\
    recreate_model (mkCase s layers n OpRecreate res post) =
      (pset (layers ++ [toml_name n]) (File mode_file_default (Doc (TTbl []))) (pset (layers ++ [n]) (Dir mode_dir_default) s1), Ok tt) /\
    (forall r, pget (layers ++ [n] ++ r) s1 = None) /\ pget (layers ++ [toml_name n]) s1 = None /\
    (forall sx, In sx (map sbom_suffix_of SBOM_FORMATS) -> pget (layers ++ [sbom_name n sx]) s1 = None) /\
    (forall q, owned (map sbom_suffix_of SBOM_FORMATS) layers n q = false -> pget q s1 = pget q s).
Proof.
  intros Vl Vn Vf PC LO SD Hd Ht Hr NDs.
  assert (HL : pget (layers ++ [n]) s = None \/ (exists m, pget (layers ++ [n]) s = Some (Dir m)) \/ (exists t, pget (layers ++ [n]) s = Some (Link t)))
    by (right; left; eexists; exact Hd).
  assert (NDt : forall m0, pget (layers ++ [toml_name n]) s <> Some (Dir m0)) by (intros m0 E; rewrite Ht in E; discriminate).
  destruct (recreate_exact (fun _ : unit => TTbl []) tt layers n s Vl Vn Vf PC LO SD HL NDt NDs) as (s1 & E & W & Gone & Tn & Sn & Frame).
  exists s1. split; [exact E|]. split; [|repeat split; assumption].
  assert (Vt : valid_name (n ++ [46; 116; 111; 109; 108]) = true) by (apply valid_name_app; [exact Vn|cbn; lia|reflexivity]).
  set (parse := fun _ : bytes => Some tt).
  assert (R1 : gen_read_layer parse layers n s = (s, Ok (Some (layers ++ [n], tt))))
    by exact (read_layer_present parse layers n Vn Vt s md m c SD Hd Ht Hr).
  assert (Vs : Forall sfx_ok (map sbom_suffix_of SBOM_FORMATS)) by (repeat constructor).
  assert (E' : delete_layer true true (map sbom_suffix_of SBOM_FORMATS) layers n s = (s1, Ok tt))
    by (rewrite <- gen_delete_layer_is; exact E).
  destruct (delete_layer_owned_gone _ layers n s s1 Vl Vn Vs Vf SD E') as (SD1 & _ & _).
  assert (Hd1 : pget (layers ++ [n]) s1 = None) by (specialize (Gone []); rewrite app_nil_r in Gone; exact Gone).
  destruct (write_then_read_layer (fun _ : unit => TTbl []) parse layers n Vn Vt s1 tt SD1 Hd1 Tn) as (s2 & W2 & R2).
  assert (Es2 : s2 = pset (layers ++ [toml_name n]) (File mode_file_default (Doc (TTbl []))) (pset (layers ++ [n]) (Dir mode_dir_default) s1)).
  { pose proof W as W'. unfold toml_name in W'. rewrite W2 in W'. injection W' as W'. exact W'. }
  unfold recreate_model. cbn [c_pre c_layers c_name]. fold parse.
  etransitivity; [apply (bindM_ok _ _ s s (Some (layers ++ [n], tt))); exact R1|]. cbv beta iota.
  etransitivity; [apply (bindM_ok _ _ s s1 tt); exact E|]. cbv beta.
  etransitivity; [apply (bindM_ok _ _ s1 s2 tt); exact W2|]. cbv beta.
  etransitivity; [apply (bindM_ok _ _ s2 s2 (Some (layers ++ [n], tt))); exact R2|]. cbv beta.
  unfold ret. rewrite Es2. reflexivity.
Qed.
