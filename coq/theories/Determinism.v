(* Determinism.v -- iteration order over the unordered containers on output paths cannot be
   observed: writes to distinct paths commute, so the exec.d copy loop (HashMap<String, PathBuf>)
   and the per-process env directories (HashMap<String, LayerEnvDelta>) leave the same file system
   for every iteration order.  First for sequences of [pset] on distinct keys (any paths), then
   tied to FS.v's fs::write / chmod for files written directly into one real directory. *)
From LV Require Import Base FS FSFacts LayerShared.
From Coq Require Import Permutation Lia.
Open Scope N_scope.

Definition fs_equiv (a b : fs) : Prop := forall q, pget q a = pget q b.

Lemma fs_equiv_refl a : fs_equiv a a.
Proof. intros q; reflexivity. Qed.
Lemma fs_equiv_trans a b c : fs_equiv a b -> fs_equiv b c -> fs_equiv a c.
Proof. intros H1 H2 q. rewrite H1. apply H2. Qed.

Lemma pset_equiv p v a b : fs_equiv a b -> fs_equiv (pset p v a) (pset p v b).
Proof.
  intros H q. destruct (path_eqb q p) eqn:E.
  - apply path_eqb_spec in E. subst. rewrite !pget_pset_same. reflexivity.
  - apply path_eqb_neq in E. rewrite !pget_pset_other by exact E. apply H.
Qed.

Lemma pset_comm p1 v1 p2 v2 s : p1 <> p2 -> fs_equiv (pset p1 v1 (pset p2 v2 s)) (pset p2 v2 (pset p1 v1 s)).
Proof.
  intros Hne q.
  destruct (path_eqb q p1) eqn:E1; [apply path_eqb_spec in E1; subst q|apply path_eqb_neq in E1].
  - rewrite pget_pset_same. rewrite pget_pset_other by exact Hne. rewrite pget_pset_same. reflexivity.
  - rewrite pget_pset_other by exact E1.
    destruct (path_eqb q p2) eqn:E2; [apply path_eqb_spec in E2; subst q|apply path_eqb_neq in E2].
    + rewrite !pget_pset_same. reflexivity.
    + rewrite !pget_pset_other by assumption. reflexivity.
Qed.

Definition apply_writes (l : list (path * node)) (s : fs) : fs := fold_left (fun s kv => pset (fst kv) (snd kv) s) l s.

Lemma apply_writes_equiv l : forall a b, fs_equiv a b -> fs_equiv (apply_writes l a) (apply_writes l b).
Proof. induction l as [|kv l IH]; intros a b H; [exact H|]. cbn. apply IH, pset_equiv, H. Qed.

Lemma apply_writes_front kv l s :
  ~ In (fst kv) (map fst l) -> fs_equiv (apply_writes l (pset (fst kv) (snd kv) s)) (pset (fst kv) (snd kv) (apply_writes l s)).
Proof.
  revert s. induction l as [|x l IH]; intros s H; [apply fs_equiv_refl|]. cbn [apply_writes fold_left].
  assert (Hne : fst x <> fst kv) by (intros E; apply H; left; exact E).
  assert (Hl : ~ In (fst kv) (map fst l)) by (intros E; apply H; right; exact E).
  eapply fs_equiv_trans; [|apply (IH (pset (fst x) (snd x) s) Hl)].
  apply apply_writes_equiv. apply pset_comm. exact Hne.
Qed.

(* writes to pairwise distinct paths: every order gives the same file system *)
Theorem writes_order_irrelevant l l' s :
  NoDup (map fst l) -> Permutation l l' -> fs_equiv (apply_writes l s) (apply_writes l' s).
Proof.
  intros Hnd Hp. revert s. induction Hp as [|x l l' Hp IH|x y l|l l' l'' H1 IH1 H2 IH2]; intros s.
  - apply fs_equiv_refl.
  - cbn. inversion Hnd; subst. apply IH. assumption.
  - cbn. apply apply_writes_equiv. apply pset_comm.
    inversion Hnd as [|a b Ha Hb]; subst. intros E. apply Ha. left. exact E.
  - eapply fs_equiv_trans; [apply IH1; exact Hnd|]. apply IH2.
    eapply Permutation_NoDup; [apply Permutation_map; exact H1|exact Hnd].
Qed.

(* ---------- tie to FS.v: writing a file directly into a real, searchable, writable directory ---------- *)
Record simple_dir (s : fs) (d : path) : Prop := {
  sd_names : Forall (fun n => valid_name n = true) d;
  sd_dirs : forall k, (k <= length d)%nat -> exists m, pget (firstn k d) s = Some (Dir m) /\ has_x m = true;
  sd_w : exists m, pget d s = Some (Dir m) /\ has_w m = true /\ has_x m = true
}.

Lemma drop_last_app {A} (l : list A) x : drop_last (l ++ [x]) = l.
Proof.
  induction l as [|a l IH]; [reflexivity|]. cbn [List.app].
  destruct l as [|b l]; [reflexivity|]. cbn [List.app] in *. cbn [drop_last]. cbn [drop_last] in IH.
  destruct (l ++ [x]) eqn:E; [destruct l; discriminate|]. rewrite <- E in *. f_equal. exact IH.
Qed.

Lemma walk_simple s : forall fuel cur comps follow,
  (length comps < fuel)%nat ->
  Forall (fun n => valid_name n = true) comps ->
  (forall k, (k < length comps)%nat -> exists m, pget (cur ++ firstn k comps) s = Some (Dir m) /\ has_x m = true) ->
  not_link (pget (cur ++ comps) s) ->
  walk s fuel cur comps follow = Ok (cur ++ comps).
Proof.
  induction fuel as [|f IH]; intros cur comps follow Hf V R NL; [lia|].
  destruct comps as [|c rest]; cbn [walk].
  - rewrite app_nil_r. reflexivity.
  - inversion V as [|? ? Vc Vr]; subst.
    destruct (R 0%nat ltac:(cbn; lia)) as (m & Hm & Hx). cbn [firstn] in Hm. rewrite app_nil_r in Hm.
    rewrite Hm, Hx. cbn [negb].
    unfold valid_name in Vc. repeat (apply andb_true_iff in Vc as [Vc ?]). rewrite negb_true_iff in *.
    replace (is_empty c) with false by (symmetry; assumption).
    replace (beq c dot) with false by (symmetry; assumption).
    replace (beq c dotdot) with false by (symmetry; assumption). cbn [orb]. cbv zeta.
    assert (E : cur ++ c :: rest = (cur ++ [c]) ++ rest) by (now rewrite <- app_assoc).
    destruct rest as [|c2 rest'].
    + cbn [is_empty andb].
      match goal with |- match ?tm with _ => _ end = _ => destruct tm as [[mm cc|mm|t]|] eqn:P end.
      * reflexivity.
      * destruct f; [cbn in Hf; lia|]. reflexivity.
      * exfalso. apply (NL t). exact P.
      * reflexivity.
    + cbn [is_empty andb].
      destruct (R 1%nat ltac:(cbn; lia)) as (m1 & Hm1 & Hx1). cbn [firstn] in Hm1.
      match goal with |- match ?tm with _ => _ end = _ => replace tm with (Some (Dir m1)) by (symmetry; exact Hm1) end.
      rewrite E.
      apply (IH (cur ++ [c]) (c2 :: rest') follow).
      * cbn in *. lia.
      * exact Vr.
      * intros k Hk. destruct (R (S k) ltac:(cbn in *; lia)) as (mk & Hmk & Hxk). cbn [firstn] in Hmk.
        exists mk. rewrite <- app_assoc. cbn [List.app]. auto.
      * rewrite <- E. exact NL.
Qed.

Lemma resolve_in_dir s d nm follow :
  simple_dir s d -> valid_name nm = true -> not_link (pget (d ++ [nm]) s) ->
  resolve s (d ++ [nm]) follow = Ok (d ++ [nm]).
Proof.
  intros [Vn Dd Dw] Hv NL. unfold resolve.
  apply (walk_simple s (walk_fuel (d ++ [nm])) [] (d ++ [nm]) follow).
  - unfold walk_fuel. lia.
  - apply Forall_app. split; [exact Vn|constructor; [exact Hv|constructor]].
  - intros k Hk. rewrite app_length in Hk. cbn in Hk. cbn [List.app].
    rewrite firstn_app. replace (k - length d)%nat with 0%nat by lia. cbn [firstn]. rewrite app_nil_r.
    apply Dd. lia.
  - exact NL.
Qed.

(* fs::write of a new or writable file directly in such a directory is a [pset] *)
Lemma write_in_dir s d nm mode keep data :
  simple_dir s d -> valid_name nm = true ->
  (pget (d ++ [nm]) s = None \/ exists m c, pget (d ++ [nm]) s = Some (File m c) /\ has_w m = true) ->
  exists m', write_file_mode mode keep (d ++ [nm]) data s = (pset (d ++ [nm]) (File m' data) s, Ok tt) /\
             (pget (d ++ [nm]) s = None -> m' = mode).
Proof.
  intros SD Hv Hex. unfold write_file_mode.
  assert (NL : not_link (pget (d ++ [nm]) s)).
  { intros t Ht. destruct Hex as [E|(m & c & E & _)]; rewrite E in Ht; discriminate. }
  rewrite (resolve_in_dir s d nm true SD Hv NL).
  destruct Hex as [E|(m & c & E & Hw)]; rewrite E.
  - destruct (d ++ [nm]) eqn:Ep; [destruct d; discriminate|]. rewrite <- Ep.
    unfold parent_writable. rewrite drop_last_app. destruct SD as [_ _ (m & Hm & Hw & Hx)]. rewrite Hm, Hw, Hx. cbn.
    exists mode. auto.
  - rewrite Hw. eexists. split; [reflexivity|]. intros X; discriminate.
Qed.

Lemma simple_dir_pset_file s d nm v :
  simple_dir s d -> (forall m, v <> Dir m \/ True) -> (exists m c, v = File m c) -> simple_dir (pset (d ++ [nm]) v s) d.
Proof.
  intros [Vn Dd Dw] _ (mv & cv & ->).
  assert (Hne : forall k, (k <= length d)%nat -> firstn k d <> d ++ [nm]).
  { intros k Hk E. apply (f_equal (@length name)) in E. rewrite firstn_length, app_length in E. cbn in E. lia. }
  constructor.
  - exact Vn.
  - intros k Hk. destruct (Dd k Hk) as (m & Hm & Hx). exists m. rewrite pget_pset_other by (apply Hne; exact Hk). auto.
  - destruct Dw as (m & Hm & Hw & Hx). exists m. rewrite pget_pset_other; [auto|].
    specialize (Hne (length d) (le_n _)). rewrite firstn_all in Hne. exact Hne.
Qed.

(* the exec.d copy loop of the model (fs::copy = write with the source's mode, then chmod), for
   program names that are pairwise distinct, into an exec.d directory without these entries *)
Definition copy_into (d : path) (p : name * (N * bytes)) : M unit :=
  write_file_mode (fst (snd p)) false (d ++ [fst p]) (Raw (snd (snd p))) ;;; chmod (d ++ [fst p]) (fst (snd p)).

Definition copy_writes (d : path) (progs : list (name * (N * bytes))) : list (path * node) :=
  map (fun p => (d ++ [fst p], File (fst (snd p)) (Raw (snd (snd p))))) progs.

Lemma pset_idem p v s : fs_equiv (pset p v (pset p v s)) (pset p v s).
Proof.
  intros q. destruct (path_eqb q p) eqn:E.
  - apply path_eqb_spec in E. subst. rewrite !pget_pset_same. reflexivity.
  - apply path_eqb_neq in E. rewrite !pget_pset_other by exact E. reflexivity.
Qed.

Theorem copy_loop_is_writes d : forall progs s,
  simple_dir s d -> NoDup (map fst progs) -> Forall (fun p => valid_name (fst p) = true) progs ->
  (forall p, In p progs -> pget (d ++ [fst p]) s = None) ->
  exists s', iterM (copy_into d) progs s = (s', Ok tt) /\ fs_equiv s' (apply_writes (copy_writes d progs) s).
Proof.
  induction progs as [|p progs IH]; intros s SD ND V Hnone.
  - exists s. split; [reflexivity|apply fs_equiv_refl].
  - inversion ND as [|a b Ha Hb]; subst. inversion V as [|a b Hv Hvs]; subst.
    destruct (write_in_dir s d (fst p) (fst (snd p)) false (Raw (snd (snd p))) SD Hv) as (m' & HW & Hm').
    { left. apply Hnone. left. reflexivity. }
    rewrite (Hm' (Hnone p (or_introl eq_refl))) in HW.
    set (s1 := pset (d ++ [fst p]) (File (fst (snd p)) (Raw (snd (snd p)))) s) in *.
    assert (SD1 : simple_dir s1 d) by (apply simple_dir_pset_file; [exact SD|intros; right; exact I|eauto]).
    assert (NL1 : not_link (pget (d ++ [fst p]) s1)) by (unfold s1; rewrite pget_pset_same; intros t; discriminate).
    assert (HC : chmod (d ++ [fst p]) (fst (snd p)) s1 = (pset (d ++ [fst p]) (File (fst (snd p)) (Raw (snd (snd p)))) s1, Ok tt)).
    { unfold chmod. rewrite (resolve_in_dir s1 d (fst p) true SD1 Hv NL1). unfold s1 at 1. rewrite pget_pset_same. reflexivity. }
    set (s2 := pset (d ++ [fst p]) (File (fst (snd p)) (Raw (snd (snd p)))) s1) in *.
    assert (SD2 : simple_dir s2 d) by (apply simple_dir_pset_file; [exact SD1|intros; right; exact I|eauto]).
    destruct (IH s2 SD2 Hb Hvs) as (s' & HI & HE).
    { intros q Hq. assert (Hne : d ++ [fst q] <> d ++ [fst p]).
      { intros E. apply app_inv_head in E. inversion E as [E']. apply Ha. rewrite <- E'. apply in_map. exact Hq. }
      unfold s2, s1. rewrite !pget_pset_other by exact Hne. apply Hnone. right. exact Hq. }
    exists s'. split.
    + cbn [iterM]. unfold bindM at 1. unfold copy_into at 1. unfold bindM at 1. rewrite HW. rewrite HC. exact HI.
    + eapply fs_equiv_trans; [exact HE|]. cbn [copy_writes map apply_writes fold_left fst snd].
      apply apply_writes_equiv. unfold s2. apply pset_idem.
Qed.

Lemma nodup_paths (d : path) (progs : list (name * (N * bytes))) :
  NoDup (map fst progs) -> NoDup (map (fun x : name * (N * bytes) => d ++ [fst x]) progs).
Proof.
  induction progs as [|p l IH]; intros H; cbn [map]; [constructor|].
  inversion H as [|a b Ha Hb]; subst. constructor; [|apply IH; exact Hb].
  intros Hin. apply in_map_iff in Hin. destruct Hin as (q & Eq & Hq). apply app_inv_head in Eq. inversion Eq as [E].
  apply Ha. rewrite <- E. apply in_map. exact Hq.
Qed.

(* hence: the exec.d directory does not depend on the HashMap's iteration order *)
Theorem copy_loop_order_irrelevant d progs progs' s :
  simple_dir s d -> NoDup (map fst progs) -> Forall (fun p => valid_name (fst p) = true) progs ->
  (forall p, In p progs -> pget (d ++ [fst p]) s = None) -> Permutation progs progs' ->
  exists s1 s2, iterM (copy_into d) progs s = (s1, Ok tt) /\ iterM (copy_into d) progs' s = (s2, Ok tt) /\ fs_equiv s1 s2.
Proof.
  intros SD ND V Hn Hp.
  destruct (copy_loop_is_writes d progs s SD ND V Hn) as (s1 & H1 & E1).
  assert (ND' : NoDup (map fst progs')) by (eapply Permutation_NoDup; [apply Permutation_map; exact Hp|exact ND]).
  assert (V' : Forall (fun p => valid_name (fst p) = true) progs') by (eapply Permutation_Forall; eauto).
  assert (Hn' : forall p, In p progs' -> pget (d ++ [fst p]) s = None).
  { intros p Hin. apply Hn. eapply Permutation_in; [apply Permutation_sym; exact Hp|exact Hin]. }
  destruct (copy_loop_is_writes d progs' s SD ND' V' Hn') as (s2 & H2 & E2).
  exists s1, s2. split; [exact H1|]. split; [exact H2|].
  eapply fs_equiv_trans; [exact E1|]. eapply fs_equiv_trans; [|intros q; symmetry; apply E2].
  apply writes_order_irrelevant.
  - unfold copy_writes. rewrite map_map. cbn [fst].
    apply nodup_paths. exact ND.
  - unfold copy_writes. apply Permutation_map. exact Hp.
Qed.
