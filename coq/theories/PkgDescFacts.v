(* PkgDescFacts.v -- normalisation of package descriptors loses nothing (C14). *)
From LV Require Import Base FS Regex PkgDesc.

(* ---------- the stack machine computes the right-to-left cancellation ---------- *)
Fixpoint from_right2 (rev_comps : list bytes) (skip : nat) : list bytes * nat :=
  match rev_comps with
  | [] => ([], skip)
  | c :: r =>
      if beq c dotdot then from_right2 r (S skip)
      else match skip with
           | O => let '(ns, k) := from_right2 r 0 in (c :: ns, k)
           | S j => from_right2 r j
           end
  end.

Lemma from_right2_fst l k : fst (from_right2 l k) = from_right l k.
Proof.
  revert k. induction l as [|c r IH]; intros k; cbn [from_right2 from_right]; [reflexivity|].
  destruct (beq c dotdot); [apply IH|]. destruct k; [|apply IH].
  rewrite <- IH. now destruct (from_right2 r 0).
Qed.

Lemma from_right2_app a b k :
  from_right2 (a ++ b) k =
  let '(na, ka) := from_right2 a k in let '(nb, kb) := from_right2 b ka in (na ++ nb, kb).
Proof.
  revert k. induction a as [|c a IH]; intros k; cbn [app from_right2].
  - now destruct (from_right2 b k).
  - destruct (beq c dotdot); [apply IH|]. destruct k; [|apply IH].
    rewrite IH. destruct (from_right2 a 0) as [na ka]. destruct (from_right2 b ka) as [nb kb]. reflexivity.
Qed.

Fixpoint pops {A} (n : nat) (l : list A) : list A :=
  match n with O => l | S k => pops k (drop_last l) end.

Lemma drop_last_snoc {A} (l : list A) x : drop_last (l ++ [x]) = l.
Proof.
  induction l as [|a l IH]; [reflexivity|]. cbn [app].
  change (drop_last (a :: l ++ [x])) with (match l ++ [x] with [] => [] | _ => a :: drop_last (l ++ [x]) end).
  destruct (l ++ [x]) eqn:E; [destruct l; discriminate|]. now rewrite IH.
Qed.

Lemma pops_nil {A} n : pops n (@nil A) = [].
Proof. induction n; [reflexivity|exact IHn]. Qed.

Lemma stack_vs_right cs : forall st k,
  let '(ns, n) := from_right2 (rev cs) k in
  pops k (fold_left norm_step cs st) = pops n st ++ rev ns.
Proof.
  induction cs as [|c cs IH]; intros st k; cbn [fold_left rev].
  - cbn [from_right2]. now rewrite app_nil_r.
  - rewrite from_right2_app. specialize (IH (norm_step st c) k).
    destruct (from_right2 (rev cs) k) as [ns n]. cbn [from_right2].
    assert (NS : norm_step st c = if beq c dotdot then drop_last st else st ++ [c]) by reflexivity.
    rewrite NS in IH. clear NS.
    destruct (beq c dotdot) eqn:E.
    + cbn [app]. rewrite app_nil_r. unfold norm_step at 2. rewrite E. exact IH.
    + unfold norm_step at 2. rewrite E. destruct n as [|j].
      * cbn [pops] in *. rewrite IH. rewrite rev_app_distr. cbn [rev app]. now rewrite <- app_assoc.
      * cbn [pops] in *. rewrite drop_last_snoc in IH. rewrite app_nil_r. exact IH.
Qed.

(* a relative path becomes the location it denotes: the stack machine of normalize_path equals the
   lexical denotation in which every ".." cancels the nearest uncancelled name to its left and the
   root is its own parent (so climbing above the root stays at the root) *)
Theorem normalize_denotes cs : normalize_comps cs = denote cs.
Proof.
  unfold normalize_comps, denote. pose proof (stack_vs_right cs [] 0) as H.
  rewrite <- from_right2_fst. destruct (from_right2 (rev cs) 0) as [ns n]. cbn [pops fst] in *.
  now rewrite pops_nil in H.
Qed.

(* ---------- the result is dot-free ---------- *)
Definition plain (c : bytes) : bool := negb (is_empty c) && negb (beq c dot) && negb (beq c dotdot).

Lemma drop_last_forall {A} (P : A -> Prop) l : Forall P l -> Forall P (drop_last l).
Proof.
  induction l as [|a l IH]; intros F; [constructor|]. inversion F; subst. cbn [drop_last].
  destruct l; [constructor|]. constructor; [assumption|now apply IH].
Qed.

Lemma fold_plain cs : forall st,
  Forall (fun c => negb (is_empty c) && negb (beq c dot) = true) cs -> Forall (fun c => plain c = true) st ->
  Forall (fun c => plain c = true) (fold_left norm_step cs st).
Proof.
  induction cs as [|c cs IH]; intros st F S; cbn [fold_left]; [exact S|].
  inversion F as [|? ? Fc Fr]; subst. apply IH; [exact Fr|]. unfold norm_step.
  destruct (beq c dotdot) eqn:E; [now apply drop_last_forall|].
  apply Forall_app. split; [exact S|]. constructor; [|constructor]. unfold plain. now rewrite Fc, E.
Qed.

Theorem normalized_is_dot_free s : Forall (fun c => plain c = true) (normalize_comps (components s)).
Proof.
  apply fold_plain; [|constructor]. unfold components. apply Forall_forall. intros c I.
  apply filter_In in I. tauto.
Qed.

Lemma fold_no_dotdot l : Forall (fun c => plain c = true) l -> forall st, fold_left norm_step l st = st ++ l.
Proof.
  induction 1 as [|c l Pc _ IH]; intros st; cbn [fold_left]; [now rewrite app_nil_r|].
  unfold norm_step at 2. unfold plain in Pc. apply andb_true_iff in Pc as [_ Pc]. apply negb_true_iff in Pc.
  rewrite Pc, IH, <- app_assoc. reflexivity.
Qed.

Theorem normalize_idempotent s :
  normalize_comps (normalize_comps (components s)) = normalize_comps (components s).
Proof.
  unfold normalize_comps at 1. now rewrite (fold_no_dotdot _ (normalized_is_dot_free s)).
Qed.

(* ---------- the dependency list ---------- *)
Section DepsFacts.
  Variable id_ok : bytes -> bool.
  Variable paths : list (bytes * bytes).
  Variable parent : bytes.
  Let nd := normalize_dep id_ok paths parent.

  (* number and order preserved; every entry is the image of the entry at the same position *)
  Theorem deps_shape l r : normalize_deps id_ok paths parent l = Ok r -> Forall2 (fun u v => nd u = Ok v) l r.
  Proof.
    revert r. induction l as [|u l IH]; intros r H; cbn [normalize_deps] in H.
    - injection H as <-. constructor.
    - fold nd in H. destruct (nd u) as [v|e] eqn:E; [|discriminate].
      destruct (normalize_deps id_ok paths parent l) as [r'|e]; [|discriminate]. injection H as <-.
      constructor; [exact E|now apply IH].
  Qed.

  (* nothing is silently dropped: the list fails exactly when some entry fails *)
  Theorem deps_error_iff l :
    (exists e, normalize_deps id_ok paths parent l = Err e) <-> (exists u e, In u l /\ nd u = Err e).
  Proof.
    induction l as [|u l IH]; cbn [normalize_deps].
    - split; [intros [e H]; discriminate|intros (u & e & [] & _)].
    - fold nd. destruct (nd u) as [v|e0] eqn:E.
      + destruct (normalize_deps id_ok paths parent l) as [r|e1].
        * split; [intros [e H]; discriminate|]. intros (u' & e & [<-|I] & H); [congruence|].
          destruct IH as [_ IH]. destruct IH as [e' He']; [eauto|discriminate].
        * split; [|intros _; eauto]. intros _. destruct IH as [IH _].
          destruct (IH (ex_intro _ e1 eq_refl)) as (u' & e & I & H). exists u', e. split; [now right|exact H].
      + split; [|intros _; eauto]. intros _. exists u, e0. split; [now left|exact E].
  Qed.

  Theorem libcnb_replaced u id :
    classify u = ULibcnb id ->
    nd u = if negb (id_ok id) then Err (EInvalidId id)
           else match lookup_path id paths with
                | None => Err (EMissingPath id)
                | Some p => Ok (match classify p with UPath q => absolutize parent q | _ => p end)
                end.
  Proof. intros C. unfold nd, normalize_dep. now rewrite C. Qed.

  Theorem others_verbatim u : classify u = UOther -> nd u = Ok u.
  Proof. intros C. unfold nd, normalize_dep. now rewrite C. Qed.

  Theorem path_absolutized u p : classify u = UPath p ->
    nd u = Ok (if is_abs p then p else render_abs (denote (components (parent ++ [47] ++ p)))).
  Proof. intros C. unfold nd, normalize_dep, absolutize. rewrite C. now rewrite normalize_denotes. Qed.
End DepsFacts.
