(* LayerShared.v -- executable model of libcnb/src/util.rs (remove_dir_recursively,
   default_on_not_found) and the deletion part of libcnb/src/layer/shared.rs (delete_layer).
   [repaired] selects the behaviour after the fix: commits for findings F4 (a symlink is unlinked,
   not followed) and F3 (the layer's SBOM files are deleted too); false = the code as found. *)
From LV Require Import Base FS.

Fixpoint iterM {A} (f : A -> M unit) (l : list A) : M unit :=
  match l with
  | [] => ret tt
  | x :: l' => f x ;;; iterM f l'
  end.

(* util::default_on_not_found *)
Definition default_on_not_found (m : M unit) : M unit :=
  fun s => match m s with (s', Err ENOENT) => (s', Ok tt) | r => r end.

Definition mode_0777 : N := 511.

Section Deletion.
  Variable repaired : bool.       (* F4: remove_dir_recursively checks for a symlink first *)
  Variable rm_sboms : bool.       (* F3: delete_layer also removes the layer's SBOM files *)

  (* DirEntry::file_type(): the entry's own type, never following a link *)
  Definition entry_node (rp : path) (n : name) : M (option node) :=
    fun s => (s, Ok (pget (rp ++ [n]) s)).

  Fixpoint remove_dir_recursively (fuel : nat) (dir : path) : M unit :=
    match fuel with
    | O => fail EFUEL
    | S f =>
        top <- (if repaired then lstat dir else ret (Dir 0)) ;;
        match top with
        | Link _ => unlink dir
        | _ =>
            chmod dir mode_0777 ;;;
            pl <- readdir dir ;;
            iterM (fun n =>
                     e <- entry_node (fst pl) n ;;
                     match e with
                     | Some (Dir _) => remove_dir_recursively f (dir ++ [n])
                     | _ => unlink (dir ++ [n])
                     end) (snd pl) ;;;
            rmdir dir
        end
    end.

  Definition rdr_fuel (s : fs) : nat := S (length s).

  Definition toml_name (n : name) : name := n ++ [46; 116; 111; 109; 108].         (* ".toml" *)
  Definition sbom_name (n : name) (suffix : bytes) : name :=
    n ++ [46; 115; 98; 111; 109; 46] ++ suffix.                                     (* ".sbom." *)

  Variable sbom_suffixes : list bytes.      (* generated: cnb_sbom_path suffix per SBOM_FORMATS entry *)

  (* shared::delete_layer *)
  Definition delete_layer (layers : path) (n : name) : M unit :=
    fun s =>
      (default_on_not_found (remove_dir_recursively (rdr_fuel s) (layers ++ [n])) ;;;
       default_on_not_found (unlink (layers ++ [toml_name n])) ;;;
       (if rm_sboms
        then iterM (fun sx => default_on_not_found (unlink (layers ++ [sbom_name n sx]))) sbom_suffixes
        else ret tt)) s.

  (* paths that belong to the layer *)
  Definition owned (layers : path) (n : name) (q : path) : bool :=
    is_prefix (layers ++ [n]) q || path_eqb q (layers ++ [toml_name n]) ||
    existsb (fun sx => path_eqb q (layers ++ [sbom_name n sx])) sbom_suffixes.
End Deletion.

Definition spec_sbom_suffixes : list bytes :=
  [ [99; 100; 120; 46; 106; 115; 111; 110];               (* cdx.json *)
    [115; 112; 100; 120; 46; 106; 115; 111; 110];          (* spdx.json *)
    [115; 121; 102; 116; 46; 106; 115; 111; 110] ].        (* syft.json *)
