(* ImpFacts.v -- lemmas about the file-system monad used to relate function bodies that the translator
   regenerates statement by statement (imp.rs, result-monad mode) with the hand-written models, and the
   view of a LayerEnvDelta as the list of its BTreeMap entries. *)
From LV Require Import Base FS LayerEnv LayerShared.

Lemma bind_ret_tt (m : M unit) s : (m ;;; ret tt) s = m s.
Proof. unfold bindM, ret. destruct (m s) as [s' [[]|e]]; reflexivity. Qed.

Lemma bindM_ext (m1 m2 k1 k2 : M unit) s :
  m1 s = m2 s -> (forall s', k1 s' = k2 s') -> (m1 ;;; k1) s = (m2 ;;; k2) s.
Proof. intros H K. unfold bindM. rewrite H. destruct (m2 s) as [s' [u|e]]; [apply K|reflexivity]. Qed.

Lemma iterM_ext {A} (f g : A -> M unit) l : (forall x s, f x s = g x s) -> forall s, iterM f l s = iterM g l s.
Proof.
  intros H. induction l as [|x l IH]; intros s; cbn [iterM]; [reflexivity|].
  unfold bindM. rewrite H. destruct (g x s) as [s' [u|e]]; [apply IH|reflexivity].
Qed.

Lemma iterM_map {A B} (h : A -> B) (f : B -> M unit) l s : iterM f (map h l) s = iterM (fun x => f (h x)) l s.
Proof.
  revert s. induction l as [|x l IH]; intros s; cbn [map iterM]; [reflexivity|].
  unfold bindM. destruct (f (h x) s) as [s' [u|e]]; [apply IH|reflexivity].
Qed.

(* the BTreeMap<(ModificationBehavior, OsString), OsString> of a delta as the list of its entries, in
   key order (behaviour index, then name) *)
Definition entries_of (order : list beh) (d : delta) : list ((beh * bytes) * bytes) :=
  flat_map (fun b => map (fun kv => ((b, fst kv), snd kv)) (dget d b)) order.
