(* ImpFacts.v -- lemmas about the file-system monad used to relate function bodies that the translator
   regenerates statement by statement (imp.rs, result-monad mode) with the hand-written models, and the
   view of a LayerEnvDelta as the list of its BTreeMap entries. *)
From LV Require Import Base FS LayerEnv LayerShared.

Lemma bind_ret_tt (m : M unit) s : (m ;;; ret tt) s = m s.
Proof. unfold bindM, ret. destruct (m s) as [s' [[]|e]]; reflexivity. Qed.

Lemma bindM_ext (m1 m2 k1 k2 : M unit) s :
  m1 s = m2 s -> (forall s', k1 s' = k2 s') -> (m1 ;;; k1) s = (m2 ;;; k2) s.
Proof. intros H K. unfold bindM. rewrite H. destruct (m2 s) as [s' [u|e]]; [apply K|reflexivity]. Qed.

Lemma iterM_ext {A} (f g : A -> M unit) l : (forall x s, f x s = g x s) -> forall s, iterM f l s = iterM g l s.
Proof.
  intros H. induction l as [|x l IH]; intros s; cbn [iterM]; [reflexivity|].
  unfold bindM. rewrite H. destruct (g x s) as [s' [u|e]]; [apply IH|reflexivity].
Qed.

Lemma iterM_map {A B} (h : A -> B) (f : B -> M unit) l s : iterM f (map h l) s = iterM (fun x => f (h x)) l s.
Proof.
  revert s. induction l as [|x l IH]; intros s; cbn [map iterM]; [reflexivity|].
  unfold bindM. destruct (f (h x) s) as [s' [u|e]]; [apply IH|reflexivity].
Qed.

(* the BTreeMap<(ModificationBehavior, OsString), OsString> of a delta as the list of its entries, in
   key order (behaviour index, then name) *)
Definition entries_of (order : list beh) (d : delta) : list ((beh * bytes) * bytes) :=
  flat_map (fun b => map (fun kv => ((b, fst kv), snd kv)) (dget d b)) order.

(* a `for` loop whose body can fail and re-binds the loop's state *)
Fixpoint foldM {A S : Type} (f : S -> A -> M S) (l : list A) (s0 : S) : M S :=
  match l with
  | [] => ret s0
  | x :: l' => s1 <- f s0 x ;; foldM f l' s1
  end.

Lemma bindM_assoc {A B C} (m : M A) (f : A -> M B) (g : B -> M C) s :
  (y <- (x <- m ;; f x) ;; g y) s = (x <- m ;; y <- f x ;; g y) s.
Proof. unfold bindM. destruct (m s) as [s1 [a|e]]; reflexivity. Qed.

Lemma bindM_ret_l {A B} (a : A) (f : A -> M B) s : (x <- ret a ;; f x) s = f a s.
Proof. reflexivity. Qed.

Lemma bindM_ret_r {A} (m : M A) s : (x <- m ;; ret x) s = m s.
Proof. unfold bindM, ret. destruct (m s) as [s1 [a|e]]; reflexivity. Qed.

Lemma bindM_ext_gen {A B} (m1 m2 : M A) (k1 k2 : A -> M B) s :
  m1 s = m2 s -> (forall a s', k1 a s' = k2 a s') -> (x <- m1 ;; k1 x) s = (x <- m2 ;; k2 x) s.
Proof. intros H K. unfold bindM. rewrite H. destruct (m2 s) as [s' [a|e]]; [apply K|reflexivity]. Qed.

Lemma foldM_ext {A S} (f g : S -> A -> M S) l : (forall a x s, f a x s = g a x s) -> forall a s, foldM f l a s = foldM g l a s.
Proof.
  intros H. induction l as [|x l IH]; intros a s; cbn [foldM]; [reflexivity|].
  apply bindM_ext_gen; [apply H|]. intros a' s'. apply IH.
Qed.

(* a fold whose accumulator is itself a computation = bind, then the monadic fold *)
Lemma fold_left_foldM {A S} (step : S -> A -> M S) (l : list A) :
  forall (acc : M S) s,
    fold_left (fun (acc : M S) (x : A) => d <- acc ;; step d x) l acc s = (d <- acc ;; foldM step l d) s.
Proof.
  induction l as [|x l IH]; intros acc s; cbn [fold_left foldM].
  - now rewrite bindM_ret_r.
  - rewrite IH. apply bindM_assoc.
Qed.

Lemma bind_read {B} (b : fs -> bool) (k : bool -> M B) s :
  (x <- (fun s0 : fs => (s0, Ok (b s0))) ;; k x) s = k (b s) s.
Proof. reflexivity. Qed.

