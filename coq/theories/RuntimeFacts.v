(* RuntimeFacts.v -- the detect/build exit-status and output tables (C05). *)
From LV Require Import Base Runtime.
From Coq Require Import ZArith.

Definition codes_ok (K : codes) : Prop :=
  k_success K = 0%Z /\ k_det_pass K = 0%Z /\ k_det_fail K = 100%Z /\
  k_unspecified K <> 0%Z /\ k_unspecified K <> 100%Z /\
  k_api K <> 0%Z /\ k_api K <> 100%Z /\ k_exe K <> 0%Z /\ k_exe K <> 100%Z.

Lemma spec_codes_ok : codes_ok spec_codes.
Proof. unfold codes_ok, spec_codes; cbn; repeat split; discriminate. Qed.

(* everything the lifecycle must supply before user code may run *)
Definition dispatched (c : cfg) : bool :=
  api_gate c && match c_exe c with ExDetect => Nat.eqb (c_nargs c) 2 | ExBuild => Nat.eqb (c_nargs c) 3 | ExOther => false end.

Definition inputs_ok (c : cfg) : bool :=
  match c_desc c with DOk => true | _ => false end &&
  match c_plat c with PlatBad => false | _ => true end && target_ok c &&
  match c_exe c with
  | ExBuild => match c_plan c with InOk => true | _ => false end &&
               match c_store c with InMalformed => false | _ => true end
  | _ => true
  end.

Ltac crush_cfg c :=
  destruct c as [ex na bp de os ar va dn dv pl pn st dt [be bl bs bbs bls] wr];
  unfold runtime, run_detect, run_build, dispatched, inputs_ok, api_gate, target_ok, out_exit, out_error;
  cbn [c_exe c_nargs c_bpdir c_desc c_os c_arch c_variant c_dname c_dver c_plat c_plan c_store c_det c_build c_writable
       bb_error bb_launch bb_store bb_bsboms bb_lsboms].

(* unsupported / malformed / missing descriptor, wrong executable name, wrong argument count or a
   missing mandatory input: user code is never entered and the exit status is an error status *)
Theorem gate K c : codes_ok K -> (dispatched c && inputs_ok c) = false ->
  o_entered (runtime K c) = false /\ o_exit (runtime K c) <> 0%Z /\ o_exit (runtime K c) <> 100%Z /\
  o_plan (runtime K c) = false /\ o_launch (runtime K c) = false /\ o_store (runtime K c) = false /\
  o_bsboms (runtime K c) = [] /\ o_lsboms (runtime K c) = [].
Proof.
  intros (S & P & F & U0 & U1 & A0 & A1 & E0 & E1). crush_cfg c.
  destruct bp, de, ex; cbn; try (intros _; repeat split; assumption);
    destruct (Nat.eqb na 2) eqn:N2; destruct (Nat.eqb na 3) eqn:N3; cbn; try (intros _; repeat split; assumption);
    destruct pl, os, ar, dn, dv; cbn; try (intros _; repeat split; assumption); try discriminate;
    destruct pn, st; cbn; try (intros _; repeat split; assumption); discriminate.
Qed.

(* detect: 0 and the plan only when detection passed with a plan; 100 and no plan when it failed;
   an error calls on_error once and exits with an error status *)
Theorem detect_table K c : codes_ok K -> c_exe c = ExDetect -> (dispatched c && inputs_ok c) = true ->
  let o := runtime K c in
  o_entered o = true /\ o_launch o = false /\ o_store o = false /\ o_bsboms o = [] /\ o_lsboms o = [] /\
  match c_det c with
  | BFail => o_exit o = 100%Z /\ o_plan o = false /\ o_on_error o = 0%nat
  | BPass => o_exit o = 0%Z /\ o_plan o = false /\ o_on_error o = 0%nat
  | BPassPlan => if c_writable c then o_exit o = 0%Z /\ o_plan o = true /\ o_on_error o = 0%nat
                 else o_exit o = k_unspecified K /\ o_plan o = false /\ o_on_error o = 1%nat
  | BErr => o_exit o = k_unspecified K /\ o_plan o = false /\ o_on_error o = 1%nat
  end.
Proof.
  intros (S & P & F & _). crush_cfg c. intros ->.
  destruct bp, de; cbn; try discriminate; destruct (Nat.eqb na 2); cbn; try discriminate;
    destruct pl, os, ar, dn, dv; cbn; try discriminate; intros _; destruct dt; try destruct wr; cbn; auto 10.
Qed.

(* build: 0 after writing exactly the provided parts; an error calls on_error once *)
Theorem build_table K c : codes_ok K -> c_exe c = ExBuild -> (dispatched c && inputs_ok c) = true ->
  let o := runtime K c in let b := c_build c in
  o_entered o = true /\ o_plan o = false /\
  if bb_error b then o_exit o = k_unspecified K /\ o_on_error o = 1%nat /\ o_launch o = false /\ o_store o = false /\
                     o_bsboms o = [] /\ o_lsboms o = []
  else if c_writable c || negb (bb_launch b || bb_store b || negb (is_empty (bb_bsboms b)) || negb (is_empty (bb_lsboms b)))
       then o_exit o = 0%Z /\ o_on_error o = 0%nat /\ o_launch o = bb_launch b /\ o_store o = bb_store b /\
            o_bsboms o = bb_bsboms b /\ o_lsboms o = bb_lsboms b
       else o_exit o = k_unspecified K /\ o_on_error o = 1%nat /\ o_launch o = false /\ o_store o = false /\
            o_bsboms o = [] /\ o_lsboms o = [].
Proof.
  intros (S & P & F & _). crush_cfg c. intros ->.
  destruct bp, de; cbn; try discriminate; destruct (Nat.eqb na 3); cbn; try discriminate;
    destruct pl, os, ar, dn, dv; cbn; try discriminate; destruct pn, st; cbn; try discriminate; intros _;
    destruct be; cbn; auto 10;
    destruct wr, bl, bs, bbs, bls; cbn; auto 10.
Qed.

(* on_error is called at most once; exactly when the phase was dispatched and ends in an error *)
Theorem error_handler_once K c : codes_ok K ->
  (o_on_error (runtime K c) <= 1)%nat /\
  (o_on_error (runtime K c) = 1%nat <-> dispatched c = true /\ o_exit (runtime K c) = k_unspecified K).
Proof.
  intros (S & P & F & U0 & U1 & A0 & A1 & E0 & E1). crush_cfg c.
  assert (NU0 : 0%Z <> k_unspecified K) by congruence. assert (NU1 : 100%Z <> k_unspecified K) by congruence.
  destruct bp, de, ex; cbn; try (split; [lia|split; [discriminate|intros [? ?]; discriminate]]);
    destruct (Nat.eqb na 2); destruct (Nat.eqb na 3); cbn; try (split; [lia|split; [discriminate|intros [? ?]; discriminate]]);
    repeat match goal with
           | |- context [match ?x with _ => _ end] => destruct x; cbn
           | |- context [if ?x then _ else _] => destruct x; cbn
           end;
    rewrite ?S, ?P, ?F;
    (split; [lia|split; [intros; try discriminate; auto|intros [_ H]; try reflexivity; try congruence]]).
Qed.
