(* LayerEnvFSOrder.v -- std::fs::read_dir returns the entries of a directory in NO particular order;
   FS.readdir lists them sorted.  Here the listing order is an explicit oracle: for EVERY order in
   which the operating system may list the env directories of a written layer, the reader returns
   the same environment (C03, C10).  This removes "directory listing order" from the trusted base
   for writer-shaped layers. *)
From LV Require Import Base FS FSFacts LayerShared LayerSharedFacts LayerSharedGone LayerEnv LayerEnvFacts
  LayerEnvFS LayerEnvFSFacts Determinism FSInv LayerEnvFSExact LayerEnvFSCompose LayerEnvReadback LayerEnvFSRead
  LayerEnvFSCycle LayerEnvFSProc LayerEnvFSFull.
From Coq Require Import Lia Permutation.
Open Scope N_scope.

Section Order.
  Variable wtab : writer_table.
  Variable rtab : reader_table.
  Variable no_ext : option beh.
  Variable path_rows : list (bytes * scope_kind * bytes).
  Variable sep : bytes.
  Variable reads_process : bool.
  Hypothesis T : tables_inverse wtab rtab.
  Hypothesis RP : reads_process = true.

  Notation order := spec_beh_order.

  (* the listing oracle: for each directory SOME permutation of its entries *)
  Definition listing_ok (ord : path -> list name) (s : fs) : Prop :=
    forall p, Permutation (ord p) (children p s).

  (* the loop of read_from_env_dir over an explicit listing *)
  Definition env_dir_fold (names : list name) (p : path) : M delta :=
    fold_left (fun (acc : M delta) (nm : name) =>
                 d <- acc ;;
                 skip <- (fun s => (s, Ok (reads_process && is_dir (p ++ [nm]) s))) ;;
                 if skip : bool then ret d
                 else
                   mc <- read_file (p ++ [nm]) ;;
                   let '(stem, ob) := entry_behaviour rtab no_ext nm in
                   ret (match ob with Some b => dinsert b stem (content_bytes (snd mc)) d | None => d end))
              names (ret delta_empty).

  (* read_from_env_dir IS this loop over FS.readdir's (sorted) listing *)
  Lemma read_from_env_dir_is_fold p :
    read_from_env_dir rtab no_ext reads_process p = (pl <- readdir p ;; env_dir_fold (snd pl) p).
  Proof. reflexivity. Qed.

  Definition read_env_dir_ord (ord : path -> list name) (p : path) : M delta :=
    pl <- readdir p ;; env_dir_fold (ord p) p.

  Definition read_dir_if_dir_ord (ord : path -> list name) (p : path) : M delta :=
    fun s => if is_dir p s then read_env_dir_ord ord p s else (s, Ok delta_empty).

  Definition read_from_layer_dir_ord (ord : path -> list name) (dir : path) : M layer_env :=
    fun s =>
      (let e0 := read_layer_paths path_rows sep dir s in
       a <- read_dir_if_dir_ord ord (dir ++ [n_env]) ;;
       b <- read_dir_if_dir_ord ord (dir ++ [n_env_build]) ;;
       l <- read_dir_if_dir_ord ord (dir ++ [n_env_launch]) ;;
       procs <- (fun s1 =>
                   if is_dir (dir ++ [n_env_launch]) s1 then
                     (pl <- readdir (dir ++ [n_env_launch]) ;;
                      fold_left (fun (acc : M (bmap delta)) (nm : name) =>
                                   m <- acc ;;
                                   isd <- (fun s2 => (s2, Ok (is_dir (dir ++ [n_env_launch; nm]) s2))) ;;
                                   if isd : bool
                                   then d <- read_env_dir_ord ord (dir ++ [n_env_launch; nm]) ;; ret (bset nm d m)
                                   else ret m)
                                (ord (dir ++ [n_env_launch])) (ret [])) s1
                   else (s1, Ok [])) ;;
       ret (mkLE a b l procs (le_paths_build e0) (le_paths_launch e0))) s.

  (* ---------- the loop over any listing of a directory of files and sub-directories ---------- *)
  Lemma env_dir_fold_mixed p s names :
    simple_dir s p ->
    (forall nm, In nm names -> valid_name nm = true /\
        ((exists fm c, pget (p ++ [nm]) s = Some (File fm c) /\ has_r fm = true) \/ (exists dm, pget (p ++ [nm]) s = Some (Dir dm)))) ->
    env_dir_fold names p s =
    (s, Ok (parse_files rtab no_ext (map (fun nm => (nm, content_bytes (content_at (p ++ [nm]) s)))
                                         (filter (file_child s p) names)) delta_empty)).
  Proof.
    intros SD Hall. unfold env_dir_fold.
    assert (G : forall names (acc : M delta) d0, acc s = (s, Ok d0) ->
      (forall nm, In nm names -> valid_name nm = true /\
        ((exists fm c, pget (p ++ [nm]) s = Some (File fm c) /\ has_r fm = true) \/ (exists dm, pget (p ++ [nm]) s = Some (Dir dm)))) ->
      fold_left (fun (acc : M delta) (nm : name) =>
                 d <- acc ;;
                 skip <- (fun s => (s, Ok (reads_process && is_dir (p ++ [nm]) s))) ;;
                 if skip : bool then ret d
                 else
                   mc <- read_file (p ++ [nm]) ;;
                   let '(stem, ob) := entry_behaviour rtab no_ext nm in
                   ret (match ob with Some b => dinsert b stem (content_bytes (snd mc)) d | None => d end))
              names acc s =
      (s, Ok (parse_files rtab no_ext (map (fun nm => (nm, content_bytes (content_at (p ++ [nm]) s))) (filter (file_child s p) names)) d0))).
    { clear names Hall. induction names as [|nm names IH]; intros acc d0 Hacc Hall; cbn [fold_left filter]; [exact Hacc|].
      destruct (Hall nm (or_introl eq_refl)) as (Hv & [(fm & c & Hf & Hfr)|(dm & Hd)]).
      - assert (FC : file_child s p nm = true) by (unfold file_child; rewrite Hf; reflexivity).
        rewrite FC. cbn [map]. unfold parse_files. cbn [fold_left fst snd].
        change (fold_left _ (map _ (filter (file_child s p) names)) ?x) with
          (parse_files rtab no_ext (map (fun nm => (nm, content_bytes (content_at (p ++ [nm]) s))) (filter (file_child s p) names)) x).
        apply IH; [|intros n Hn; apply Hall; right; exact Hn].
        assert (NL : not_link (pget (p ++ [nm]) s)) by (rewrite Hf; intros t; discriminate).
        unfold bindM at 1. rewrite Hacc. unfold bindM at 1.
        unfold is_dir. rewrite (stat_in_dir s p nm SD Hv NL), Hf. rewrite andb_false_r.
        unfold bindM at 1. unfold read_file. rewrite (resolve_in_dir s p nm true SD Hv NL), Hf, Hfr.
        unfold content_at. rewrite Hf. cbn [snd].
        destruct (entry_behaviour rtab no_ext nm) as [stem ob]. reflexivity.
      - assert (FC : file_child s p nm = false) by (unfold file_child; rewrite Hd; reflexivity).
        rewrite FC. apply IH; [|intros n Hn; apply Hall; right; exact Hn].
        assert (NL : not_link (pget (p ++ [nm]) s)) by (rewrite Hd; intros t; discriminate).
        unfold bindM at 1. rewrite Hacc. unfold bindM at 1.
        unfold is_dir. rewrite (stat_in_dir s p nm SD Hv NL), Hd, RP. reflexivity. }
    apply (G names (ret delta_empty) delta_empty); [reflexivity|exact Hall].
  Qed.

  (* one written root (env, env.build: no process directories; env.launch: with them), any listing *)
  Lemma read_env_dir_ord_written dl procs L s ord :
    simple_dir s L -> pget L s = Some (Dir mode_dir_default) ->
    delta_ok wtab dl -> procs_ok order wtab dl procs -> launch_written wtab dl procs L s ->
    listing_ok ord s ->
    read_env_dir_ord ord L s = (s, Ok dl).
  Proof.
    intros SDL HpL (Wf & NE & FO) PO W LO. pose proof FO as [ND VF]. pose proof PO as [PND POk].
    assert (Sub : forall nm, In nm (ord L) <-> In nm (children L s)).
    { intros nm. split; apply Permutation_in; [apply LO|apply Permutation_sym, LO]. }
    unfold read_env_dir_ord. unfold bindM at 1. unfold readdir. rewrite (resolve_simple s L true SDL), HpL.
    change (has_r mode_dir_default) with true. cbn [snd].
    rewrite (env_dir_fold_mixed L s (ord L) SDL).
    2:{ intros nm Hin. apply (launch_children wtab dl procs L s FO PO W). apply Sub, Hin. }
    f_equal. f_equal.
    apply (parse_files_same_set wtab rtab no_ext T dl _ Wf NE ND).
    - rewrite map_map. cbn [fst]. rewrite map_id. apply NoDup_filter.
      eapply Permutation_NoDup; [apply Permutation_sym, LO|apply children_nodup].
    - intros [nm c]. rewrite in_map_iff. split.
      + intros Hin.
        assert (Fr : forall pd, In (nm, pd) procs -> nonempty_proc (nm, pd) = false).
        { intros pd Hp. exfalso. destruct (POk nm pd Hp) as (_ & _ & Fresh). apply (Fresh (nm, c) Hin). reflexivity. }
        assert (Ef : pget (L ++ [nm]) s = Some (File mode_file_default (Raw c))).
        { rewrite (launch_other wtab dl procs L s nm W Fr). apply env_spec_file; assumption. }
        exists nm. split; [unfold content_at; rewrite Ef; reflexivity|].
        apply filter_In. split; [apply Sub, children_pget; rewrite Ef; discriminate|unfold file_child; rewrite Ef; reflexivity].
      + intros (nm' & E & Hin). injection E as -> E. apply filter_In in Hin as [Hc Hf]. apply Sub in Hc.
        unfold file_child in Hf.
        destruct (proc_of procs nm) as [[pn pd]|] eqn:Ep.
        * apply proc_of_some in Ep as (Hp & Hne & E2). cbn [fst] in E2. subst pn.
          rewrite (proc_dir_node wtab dl procs L s nm pd PND W Hp Hne) in Hf. discriminate.
        * pose proof (launch_other wtab dl procs L s nm W (proc_of_none procs nm Ep)) as E3.
          apply children_pget in Hc. rewrite E3 in Hc.
          destruct (env_spec_some order wtab dl L nm Hc) as (c' & Hc').
          unfold content_at in E. rewrite E3, (env_spec_file order wtab dl L nm c' ND Hc') in E.
          cbn [content_bytes] in E. subst c'. exact Hc'.
  Qed.

  Lemma dir_written_is_launch dl (p : path) s : dir_written wtab dl p s -> launch_written wtab dl [] p s.
  Proof.
    intros W q P. rewrite (W q P). unfold launch_spec. cbn [find existsb]. rewrite andb_false_r. reflexivity.
  Qed.

  Lemma procs_ok_nil dl : procs_ok order wtab dl [].
  Proof. split; [constructor|intros ? ? []]. Qed.

  Lemma read_root_ord dl procs dir rn s ord :
    simple_dir s dir -> valid_name rn = true ->
    delta_ok wtab dl -> procs_ok order wtab dl procs -> launch_written wtab dl procs (dir ++ [rn]) s ->
    listing_ok ord s ->
    read_dir_if_dir_ord ord (dir ++ [rn]) s = (s, Ok dl).
  Proof.
    intros SD Hv OK PO W LO. unfold read_dir_if_dir_ord.
    pose proof (launch_root wtab dl procs (dir ++ [rn]) s W) as HL.
    assert (Present : pget (dir ++ [rn]) s = Some (Dir mode_dir_default) ->
      (if is_dir (dir ++ [rn]) s then read_env_dir_ord ord (dir ++ [rn]) s else (s, Ok delta_empty)) = (s, Ok dl)).
    { intros Hp.
      assert (NL : not_link (pget (dir ++ [rn]) s)) by (rewrite Hp; intros t; discriminate).
      unfold is_dir. rewrite (stat_in_dir s dir rn SD Hv NL), Hp.
      apply read_env_dir_ord_written with (procs := procs); try assumption. apply simple_dir_child; assumption. }
    destruct (existsb nonempty_proc procs) eqn:Ex; [apply Present, HL|].
    destruct (delta_is_empty dl) eqn:Ee.
    - assert (Hn : pget (dir ++ [rn]) s = None) by (rewrite HL; unfold env_dir_spec; rewrite Ee; reflexivity).
      assert (NL : not_link (pget (dir ++ [rn]) s)) by (rewrite Hn; intros t; discriminate).
      unfold is_dir. rewrite (stat_in_dir s dir rn SD Hv NL), Hn. rewrite (delta_is_empty_eq dl Ee). reflexivity.
    - apply Present. rewrite HL. unfold env_dir_spec. rewrite Ee, path_eqb_refl. reflexivity.
  Qed.

  Lemma procs_fold_names dl procs L s names :
    bsorted procs -> NoDup (map fst procs) -> launch_written wtab dl procs L s ->
    (forall nm, In nm names <-> In nm (children L s)) ->
    fold_left (procs_step procs) names [] = filter nonempty_proc procs.
  Proof.
    intros S ND W Sub. apply bmap_ext; [apply procs_fold_sorted; exact I|apply bsorted_filter, S|].
    intros k. rewrite bget_procs_fold, bget_filter_procs. cbn [bget].
    destruct (proc_of procs k) as [[pn pd]|] eqn:Ep; [|destruct (existsb _ _); reflexivity].
    apply proc_of_some in Ep as (Hp & Hne & E). cbn [fst] in E. subst pn.
    replace (existsb (beq k) names) with true; [reflexivity|]. symmetry. apply existsb_exists.
    exists k. split; [|apply beq_refl]. apply Sub, children_pget.
    rewrite (proc_dir_node wtab dl procs L s k pd ND W Hp Hne). discriminate.
  Qed.

  (* ---------- the whole layer, any listing order ---------- *)
  Theorem read_any_order e dir s ord :
    simple_dir s dir -> parent_closed s -> env_ok_full wtab e -> layer_written_full wtab e dir s ->
    listing_ok ord s ->
    read_from_layer_dir_ord ord dir s = (s, Ok (read_result_full path_rows sep e dir s)).
  Proof.
    intros SD PC (OA & OB & OL & PO & PDO & PS) (WA & WB & WL) LO. pose proof PO as [PND POk].
    set (L := dir ++ [n_env_launch]) in *.
    unfold read_from_layer_dir_ord, read_result_full.
    unfold bindM at 1. rewrite (read_root_ord (le_all e) [] dir n_env s ord SD eq_refl OA (procs_ok_nil _) (dir_written_is_launch _ _ _ WA) LO).
    unfold bindM at 1. rewrite (read_root_ord (le_build e) [] dir n_env_build s ord SD eq_refl OB (procs_ok_nil _) (dir_written_is_launch _ _ _ WB) LO).
    unfold bindM at 1. fold L. unfold L at 1. rewrite (read_root_ord (le_launch e) (le_process e) dir n_env_launch s ord SD eq_refl OL PO WL LO).
    fold L.
    assert (Sub : forall nm, In nm (ord L) <-> In nm (children L s)).
    { intros nm. split; apply Permutation_in; [apply LO|apply Permutation_sym, LO]. }
    (* the per-process environments *)
    assert (PR : (if is_dir L s then
                    (pl <- readdir L ;;
                     fold_left (fun (acc : M (bmap delta)) (nm : name) =>
                                  m <- acc ;;
                                  isd <- (fun s2 => (s2, Ok (is_dir (dir ++ [n_env_launch; nm]) s2))) ;;
                                  if isd : bool
                                  then d <- read_env_dir_ord ord (dir ++ [n_env_launch; nm]) ;; ret (bset nm d m)
                                  else ret m)
                               (ord L) (ret [])) s
                  else (s, Ok [])) = (s, @Ok errno (bmap delta) (filter nonempty_proc (le_process e)))).
    { assert (Hvl : valid_name n_env_launch = true) by reflexivity.
      pose proof (launch_root wtab (le_launch e) (le_process e) L s WL) as HL.
      destruct (pget L s) as [v|] eqn:EL.
      2:{ assert (NL : not_link (pget L s)) by (rewrite EL; intros t; discriminate).
          unfold is_dir, L. rewrite (stat_in_dir s dir n_env_launch SD Hvl NL). fold L. rewrite EL.
          (* nothing below an absent env.launch: no process has a non-empty delta *)
          f_equal. f_equal. symmetry.
          rewrite <- (procs_fold_names (le_launch e) (le_process e) L s [] PS PND WL); [reflexivity|].
          intros nm. split; [intros []|]. intros Hin. apply children_pget in Hin. exfalso. apply Hin.
          apply pc_absent_below; assumption. }
      assert (HpL : pget L s = Some (Dir mode_dir_default)).
      { rewrite EL. f_equal. destruct (existsb nonempty_proc (le_process e)); [congruence|].
        symmetry in HL. destruct (env_spec_node order wtab (le_launch e) L L v HL) as [->|(c & ->)]; [reflexivity|].
        unfold env_dir_spec in HL. destruct (delta_is_empty (le_launch e)); [discriminate|]. rewrite path_eqb_refl in HL. discriminate. }
      clear EL HL.
      assert (NL : not_link (pget L s)) by (rewrite HpL; intros t; discriminate).
      unfold is_dir at 1. unfold L at 1. rewrite (stat_in_dir s dir n_env_launch SD Hvl NL). fold L. rewrite HpL.
      assert (SDL : simple_dir s L) by (apply simple_dir_child; assumption).
      unfold bindM at 1. unfold readdir. rewrite (resolve_simple s L true SDL), HpL.
      change (has_r mode_dir_default) with true. cbn [snd].
      assert (G : forall names (acc : M (bmap delta)) m0, acc s = (s, Ok m0) ->
        (forall nm, In nm names -> In nm (children L s)) ->
        fold_left (fun (acc : M (bmap delta)) (nm : name) =>
                     m <- acc ;;
                     isd <- (fun s2 => (s2, Ok (is_dir (dir ++ [n_env_launch; nm]) s2))) ;;
                     if isd : bool
                     then d <- read_env_dir_ord ord (dir ++ [n_env_launch; nm]) ;; ret (bset nm d m)
                     else ret m) names acc s = (s, Ok (fold_left (procs_step (le_process e)) names m0))).
      { induction names as [|nm names IH]; intros acc m0 Hacc Hsub; cbn [fold_left]; [exact Hacc|].
        apply IH; [|intros n Hn; apply Hsub; right; exact Hn].
        destruct (launch_children wtab (le_launch e) (le_process e) L s (proj2 (proj2 OL)) PO WL nm (Hsub nm (or_introl eq_refl))) as (Hvn & _).
        unfold bindM at 1. rewrite Hacc. unfold bindM at 1. rewrite snoc2. fold L. unfold procs_step.
        destruct (proc_of (le_process e) nm) as [[pn pd]|] eqn:Ep.
        - apply proc_of_some in Ep as (Hp & Hne & E). cbn [fst] in E. subst pn. cbn [snd].
          pose proof (proc_dir_node wtab (le_launch e) (le_process e) L s nm pd PND WL Hp Hne) as Hd.
          assert (NLn : not_link (pget (L ++ [nm]) s)) by (rewrite Hd; intros t; discriminate).
          unfold is_dir. rewrite (stat_in_dir s L nm SDL Hvn NLn), Hd.
          destruct (PDO nm pd Hp) as (Wf & NEd). destruct (POk nm pd Hp) as (_ & FOd & _).
          unfold bindM at 1.
          rewrite (read_env_dir_ord_written pd [] (L ++ [nm]) s ord (simple_dir_child s L nm SDL Hvn Hd) Hd
                     (conj Wf (conj NEd FOd)) (procs_ok_nil _)
                     (dir_written_is_launch _ _ _ (launch_proc_dir wtab (le_launch e) (le_process e) L s nm pd PND WL Hp Hne)) LO).
          reflexivity.
        - pose proof (launch_other wtab (le_launch e) (le_process e) L s nm WL (proc_of_none (le_process e) nm Ep)) as E3.
          assert (Hc : pget (L ++ [nm]) s <> None) by (apply children_pget, Hsub; left; reflexivity).
          rewrite E3 in Hc. destruct (env_spec_some order wtab (le_launch e) L nm Hc) as (c & Hc').
          destruct (proj2 (proj2 OL)) as [ND VF].
          assert (Hf : pget (L ++ [nm]) s = Some (File mode_file_default (Raw c))) by (rewrite E3; apply env_spec_file; assumption).
          assert (NLn : not_link (pget (L ++ [nm]) s)) by (rewrite Hf; intros t; discriminate).
          unfold is_dir. rewrite (stat_in_dir s L nm SDL Hvn NLn), Hf. reflexivity. }
      rewrite (G (ord L) (ret []) []); [|reflexivity|intros nm Hn; apply Sub, Hn].
      rewrite (procs_fold_names (le_launch e) (le_process e) L s (ord L) PS PND WL Sub). reflexivity. }
    unfold bindM at 1.
    match goal with |- (let (s', r) := ?X in _) = _ =>
      replace X with (s, @Ok errno (bmap delta) (filter nonempty_proc (le_process e))) by (symmetry; exact PR) end.
    reflexivity.
  Qed.

  (* in particular every listing order gives what FS.readdir's sorted order gives *)
  Corollary read_order_irrelevant e dir s ord :
    simple_dir s dir -> parent_closed s -> env_ok_full wtab e -> layer_written_full wtab e dir s ->
    listing_ok ord s ->
    read_from_layer_dir_ord ord dir s = read_from_layer_dir rtab no_ext path_rows sep reads_process dir s.
  Proof.
    intros SD PC OK W LO. rewrite (read_any_order e dir s ord SD PC OK W LO).
    symmetry. apply (read_written_layer_full wtab rtab no_ext path_rows sep reads_process T RP); assumption.
  Qed.
End Order.
