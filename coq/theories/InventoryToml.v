(* InventoryToml.v -- C18, the TOML half: rendering an inventory (Display = toml::to_string of the
   derived Serialize) and parsing it back (FromStr = toml::from_str of the derived Deserialize)
   gives equal artifacts.  The tree-level model is the generic schema interpreter of Serde.v with
   the schema regenerated from the derives (GenSerde.s_Inventory, compared with spec_Inventory in
   Props/C18.v); the Checksum field is the hand-written Serialize/Deserialize pair of
   inventory/checksum.rs: show_checksum on the way out, parse_checksum on the way in. *)
From LV Require Import Base Toml Serde SerdeFacts Inventory InventoryFacts.

Definition k_artifacts : bytes := [97; 114; 116; 105; 102; 97; 99; 116; 115].
Definition k_version : bytes := [118; 101; 114; 115; 105; 111; 110].
Definition k_os : bytes := [111; 115].
Definition k_arch : bytes := [97; 114; 99; 104].
Definition k_url : bytes := [117; 114; 108].
Definition k_checksum : bytes := [99; 104; 101; 99; 107; 115; 117; 109].
Definition k_metadata : bytes := [109; 101; 116; 97; 100; 97; 116; 97].

(* #[serde(rename_all = "lowercase")] enum Os { Darwin, Linux } / enum Arch { Amd64, Arm64 } *)
Definition spec_Os : sty := TyUnitEnum [[100; 97; 114; 119; 105; 110]; [108; 105; 110; 117; 120]].
Definition spec_Arch : sty := TyUnitEnum [[97; 109; 100; 54; 52]; [97; 114; 109; 54; 52]].
Definition checksum_validator : nat := 7%nat.

Definition spec_Artifact (V M : sty) : sty :=
  TyStruct false [(k_version, V, None, SkNever); (k_os, spec_Os, None, SkNever);
                  (k_arch, spec_Arch, None, SkNever); (k_url, TyString, None, SkNever);
                  (k_checksum, TyValidated checksum_validator, None, SkNever);
                  (k_metadata, M, None, SkNever)].
Definition spec_Inventory (V M : sty) : sty :=
  TyStruct false [(k_artifacts, TyVec (spec_Artifact V M), None, SkNever)].

(* an artifact as the Rust value: version and metadata are values of the caller's types *)
Record tart := mkTArt { ta_ver : sval; ta_os : os; ta_arch : arch; ta_url : bytes;
                        ta_ck : bytes * bytes; ta_meta : sval }.

Definition os_idx (o : os) : nat := match o with Darwin => 0%nat | Linux => 1%nat end.
Definition arch_idx (a : arch) : nat := match a with Amd64 => 0%nat | Arm64 => 1%nat end.
Definition os_of_idx (i : nat) : option os := match i with 0%nat => Some Darwin | 1%nat => Some Linux | _ => None end.
Definition arch_of_idx (i : nat) : option arch := match i with 0%nat => Some Amd64 | 1%nat => Some Arm64 | _ => None end.

(* Serialize: the value handed to the schema interpreter *)
Definition art_sval (a : tart) : sval :=
  VRec [(k_version, ta_ver a); (k_os, VUnit (os_idx (ta_os a))); (k_arch, VUnit (arch_idx (ta_arch a)));
        (k_url, VStr (ta_url a)); (k_checksum, VStr (show_checksum (ta_ck a))); (k_metadata, ta_meta a)].
Definition inv_sval (l : list tart) : sval := VRec [(k_artifacts, VList (map art_sval l))].

Section Read.
  Variable name_ok : bytes -> bool.
  Variable len_ok : N -> bool.

  (* Deserialize: what the derived visitor builds from the interpreter's value; the checksum string
     goes through Checksum::from_str *)
  Definition art_of_sval (x : sval) : option tart :=
    match x with
    | VRec [(_, v); (_, VUnit i); (_, VUnit j); (_, VStr u); (_, VStr c); (_, m)] =>
        match os_of_idx i, arch_of_idx j, parse_checksum name_ok len_ok c with
        | Some o, Some ar, Ok ck => Some (mkTArt v o ar u ck m)
        | _, _, _ => None
        end
    | _ => None
    end.
  Definition inv_of_sval (x : sval) : option (list tart) :=
    match x with
    | VRec [(_, VList l)] => map_opt art_of_sval l
    | _ => None
    end.

  Definition checksum_vf (vf : nat -> bytes -> bool) : Prop :=
    forall s, vf checksum_validator s = match parse_checksum name_ok len_ok s with Ok _ => true | Err _ => false end.

  (* a Checksum<D> value can only be built by parsing, so it satisfies D's compatibility checks *)
  Definition ck_wf (c : bytes * bytes) : bool :=
    negb (existsb (N.eqb 58) (fst c)) && name_ok (fst c) && len_ok (N.of_nat (length (snd c))) &&
    forallb (fun x => x <? 256) (snd c).

  Definition art_wf (vf : nat -> bytes -> bool) (V M : sty) (a : tart) : bool :=
    has_type vf V (ta_ver a) && has_type vf M (ta_meta a) && ck_wf (ta_ck a).
End Read.

(* ---------- the value is typed, the schema round-trips ---------- *)
Section Roundtrip.
  Variable name_ok : bytes -> bool.
  Variable len_ok : N -> bool.
  Variable vf : nat -> bytes -> bool.
  Variable sq : bool.
  Variables V M : sty.
  Hypothesis VF : checksum_vf name_ok len_ok vf.
  Hypothesis RV : rt_ok V = true.
  Hypothesis RM : rt_ok M = true.

  Lemma ck_wf_parse c : ck_wf name_ok len_ok c = true ->
    parse_checksum name_ok len_ok (show_checksum c) = Ok c.
  Proof.
    destruct c as [n v]. unfold ck_wf. cbn [fst snd]. intros H.
    apply andb_true_iff in H as [H H4]. apply andb_true_iff in H as [H H3]. apply andb_true_iff in H as [H1 H2].
    apply checksum_show_parse; [|exact H2|exact H3|].
    - intros I. apply negb_true_iff in H1.
      assert (existsb (N.eqb 58) n = true) by (apply existsb_exists; exists 58; split; [exact I|reflexivity]).
      congruence.
    - unfold all_bytes. apply Forall_forall. intros x Ix. rewrite forallb_forall in H4.
      specialize (H4 x Ix). now apply N.ltb_lt.
  Qed.

  Lemma rt_ok_inventory : rt_ok (spec_Inventory V M) = true.
  Proof.
    unfold spec_Inventory, spec_Artifact.
    assert (A : rt_ok (TyStruct false [(k_version, V, None, SkNever); (k_os, spec_Os, None, SkNever);
                  (k_arch, spec_Arch, None, SkNever); (k_url, TyString, None, SkNever);
                  (k_checksum, TyValidated checksum_validator, None, SkNever);
                  (k_metadata, M, None, SkNever)]) = true).
    { rewrite rt_ok_struct. cbn [map f_key fst snd fields_ok f_ty]. rewrite RV, RM. vm_compute. reflexivity. }
    rewrite rt_ok_struct. cbn [map f_key fst snd fields_ok f_ty]. cbn [rt_ok] in A |- *. rewrite A. vm_compute. reflexivity.
  Qed.

  Lemma art_typed a : art_wf name_ok len_ok vf V M a = true -> has_type vf (spec_Artifact V M) (art_sval a) = true.
  Proof.
    unfold art_wf. intros H. apply andb_true_iff in H as [H H3]. apply andb_true_iff in H as [H1 H2].
    unfold spec_Artifact, art_sval. rewrite has_type_struct.
    cbn [typed_fields f_key f_ty fst snd]. rewrite H1, H2.
    assert (C : vf checksum_validator (show_checksum (ta_ck a)) = true) by (rewrite VF, (ck_wf_parse _ H3); reflexivity).
    cbn [has_type spec_Os spec_Arch]. rewrite C.
    destruct (ta_os a), (ta_arch a); vm_compute; reflexivity.
  Qed.

  Lemma inv_typed arts : forallb (art_wf name_ok len_ok vf V M) arts = true ->
    has_type vf (spec_Inventory V M) (inv_sval arts) = true.
  Proof.
    intros H. unfold spec_Inventory, inv_sval. rewrite has_type_struct. cbn [typed_fields f_key f_ty fst snd].
    rewrite beq_refl. cbn [andb has_type]. rewrite andb_true_r. rewrite forallb_forall. intros x Ix.
    apply in_map_iff in Ix as (a & <- & Ia). apply art_typed. rewrite forallb_forall in H. now apply H.
  Qed.

  Lemma art_back a : ck_wf name_ok len_ok (ta_ck a) = true ->
    art_of_sval name_ok len_ok (art_sval a) = Some a.
  Proof.
    intros H. unfold art_of_sval, art_sval. rewrite (ck_wf_parse _ H).
    destruct a as [v o ar u ck m]. cbn [ta_os ta_arch ta_ver ta_url ta_ck ta_meta]. destruct o, ar; reflexivity.
  Qed.

  Lemma inv_back arts : forallb (art_wf name_ok len_ok vf V M) arts = true ->
    inv_of_sval name_ok len_ok (inv_sval arts) = Some arts.
  Proof.
    intros H. unfold inv_of_sval, inv_sval. induction arts as [|a arts IH]; [reflexivity|].
    cbn [forallb] in H. apply andb_true_iff in H as [Ha H]. cbn [map map_opt].
    assert (C : ck_wf name_ok len_ok (ta_ck a) = true).
    { unfold art_wf in Ha. apply andb_true_iff in Ha as [_ Ha]. exact Ha. }
    rewrite (art_back a C), (IH H). reflexivity.
  Qed.

  (* parse (render inventory) = inventory: whatever text-level tree the serializer produced for the
     typed value, the deserializer followed by Checksum::from_str rebuilds exactly the artifacts *)
  Theorem inventory_toml_roundtrip arts t :
    forallb (art_wf name_ok len_ok vf V M) arts = true ->
    encode (spec_Inventory V M) (inv_sval arts) = Some t ->
    match decode vf sq (spec_Inventory V M) t with
    | Some x => inv_of_sval name_ok len_ok x
    | None => None
    end = Some arts.
  Proof.
    intros W E. rewrite (roundtrip vf sq _ _ _ rt_ok_inventory (inv_typed arts W) E). now apply inv_back.
  Qed.

  (* rendering succeeds whenever the caller's version and metadata types serialise *)
  Definition is_none_opt (y : sval) : bool := match y with VOpt None => true | _ => false end.
  Definition art_renders (a : tart) : bool :=
    match encode V (ta_ver a) with Some _ => true | None => false end &&
    (is_none_opt (ta_meta a)                  (* an Option field that is None is omitted *)
     || match encode M (ta_meta a) with Some _ => true | None => false end).

  Lemma encode_none t : encode t (VOpt None) = None.
  Proof. destruct t; reflexivity. Qed.

  Lemma enc_field_val vals f y : rec_get (f_key f) vals = Some y -> f_skip f = SkNever ->
    encode_field vals f =
    if is_none_opt y then Some None
    else match encode (f_ty f) y with Some e => Some (Some (f_key f, e)) | None => None end.
  Proof.
    intros R S. unfold encode_field. rewrite R, S. destruct y as [| | | |[?|]| | | | |]; reflexivity.
  Qed.

  Lemma art_renders_some a : art_renders a = true -> exists t, encode (spec_Artifact V M) (art_sval a) = Some t.
  Proof.
    unfold art_renders. intros H. apply andb_true_iff in H as [H1 H2].
    unfold spec_Artifact, art_sval. rewrite encode_struct_unfold.
    set (vals := [(k_version, ta_ver a); (k_os, VUnit (os_idx (ta_os a)));
                  (k_arch, VUnit (arch_idx (ta_arch a))); (k_url, VStr (ta_url a));
                  (k_checksum, VStr (show_checksum (ta_ck a))); (k_metadata, ta_meta a)]).
    assert (R1 : rec_get k_version vals = Some (ta_ver a)) by (vm_compute; reflexivity).
    assert (R2 : rec_get k_os vals = Some (VUnit (os_idx (ta_os a)))) by (vm_compute; reflexivity).
    assert (R3 : rec_get k_arch vals = Some (VUnit (arch_idx (ta_arch a)))) by (vm_compute; reflexivity).
    assert (R4 : rec_get k_url vals = Some (VStr (ta_url a))) by (vm_compute; reflexivity).
    assert (R5 : rec_get k_checksum vals = Some (VStr (show_checksum (ta_ck a)))) by (vm_compute; reflexivity).
    assert (R6 : rec_get k_metadata vals = Some (ta_meta a)) by (vm_compute; reflexivity).
    cbn [encode_fields].
    rewrite (enc_field_val vals (k_version, V, None, SkNever) _ R1 eq_refl).
    rewrite (enc_field_val vals (k_os, spec_Os, None, SkNever) _ R2 eq_refl).
    rewrite (enc_field_val vals (k_arch, spec_Arch, None, SkNever) _ R3 eq_refl).
    rewrite (enc_field_val vals (k_url, TyString, None, SkNever) _ R4 eq_refl).
    rewrite (enc_field_val vals (k_checksum, TyValidated checksum_validator, None, SkNever) _ R5 eq_refl).
    rewrite (enc_field_val vals (k_metadata, M, None, SkNever) _ R6 eq_refl).
    cbn [f_ty f_key fst snd is_none_opt].
    assert (NV : is_none_opt (ta_ver a) = false).
    { destruct (ta_ver a) as [| | | |[?|]| | | | |]; try reflexivity. rewrite encode_none in H1. discriminate. }
    rewrite NV. destruct (encode V (ta_ver a)) as [tv1|]; [|discriminate].
    assert (EO : exists e, encode spec_Os (VUnit (os_idx (ta_os a))) = Some e) by (destruct (ta_os a); eexists; reflexivity).
    assert (EA : exists e, encode spec_Arch (VUnit (arch_idx (ta_arch a))) = Some e) by (destruct (ta_arch a); eexists; reflexivity).
    destruct EO as [eo ->]. destruct EA as [ea ->]. cbn [encode].
    destruct (is_none_opt (ta_meta a)); [eexists; reflexivity|]. cbn [orb] in H2.
    destruct (encode M (ta_meta a)) as [tm|]; [|discriminate]. eexists; reflexivity.
  Qed.

  Theorem inventory_renders arts : forallb art_renders arts = true ->
    exists t, encode (spec_Inventory V M) (inv_sval arts) = Some t.
  Proof.
    intros H. unfold spec_Inventory, inv_sval. rewrite encode_struct_unfold. cbn [encode_fields].
    rewrite (enc_field_val [(k_artifacts, VList (map art_sval arts))] (k_artifacts, TyVec (spec_Artifact V M), None, SkNever)
               (VList (map art_sval arts))); [|cbn [rec_get f_key fst]; now rewrite beq_refl|reflexivity].
    cbn [is_none_opt f_ty f_key fst snd].
    replace (encode (TyVec (spec_Artifact V M)) (VList (map art_sval arts)))
      with (option_map TArr (map_opt (encode (spec_Artifact V M)) (map art_sval arts))) by reflexivity.
    assert (G : exists vs, map_opt (encode (spec_Artifact V M)) (map art_sval arts) = Some vs).
    { induction arts as [|a arts IH]; [eexists; reflexivity|]. cbn [forallb] in H.
      apply andb_true_iff in H as [Ha H]. destruct (art_renders_some a Ha) as [e Ee]. destruct (IH H) as [r Er].
      exists (e :: r). cbn [map map_opt]. now rewrite Ee, Er. }
    destruct G as [vs ->]. eexists; reflexivity.
  Qed.
End Roundtrip.
