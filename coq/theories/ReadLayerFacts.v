(* ReadLayerFacts.v -- shared::read_layer as regenerated from the source never writes through a
   symbolic link at <layers>/<name>.toml (finding F10, fixed by e7f8bb8), and whatever it does it
   touches that one entry only. *)
From LV Require Import Base FS FSFacts LayerShared LayerSharedFacts ImpPrims ImpTypes ImpFacts.
From LV Require Import LayerSbomsFacts.
From LVGen Require Import GenLayerSharedImp.

(* resolution that fails without following the last component fails the same way when following it *)
Lemma walk_err_follow s : forall fuel cur comps e,
  walk s fuel cur comps false = Err e -> walk s fuel cur comps true = Err e.
Proof.
  induction fuel as [|f IH]; intros cur comps e W; [exact W|].
  destruct comps as [|c rest]; cbn [walk] in *; [discriminate|].
  destruct (pget cur s) as [[m cc|m|t]|]; try exact W.
  destruct (negb (has_x m)); [exact W|].
  destruct (is_empty c || beq c dot); [now apply IH|].
  destruct (beq c dotdot); [now apply IH|].
  cbv zeta in *.
  destruct (pget (cur ++ [c]) s) as [[mm c2|mm|t]|].
  - exact W.
  - now apply IH.
  - destruct (is_empty rest); cbn [andb negb] in *; [discriminate|now apply IH].
  - exact W.
Qed.

Ltac inj H := unfold ret in H; injection H as <- _.

Ltac fin WS := let G := fresh in let m := fresh in destruct WS as [->|(G & m & ->)]; [now left|right; right; split; [exact G|exists m; reflexivity]].

Definition toml_path (layers : path) (n : name) : path := layers ++ [n ++ [46; 116; 111; 109; 108]].

Section ReadLayer.
  Context {A : Type}.
  Variables (parse : bytes -> option A) (layers : path) (n : name).
  Hypothesis Vt : valid_path (toml_path layers n).

  (* what read_layer may do to the file system: nothing, remove the orphaned <name>.toml entry itself
     (never what it points to), or create an empty regular file where NO entry was *)
  Theorem read_layer_effect s s' r :
    dirs_to s layers ->
    gen_read_layer parse layers n s = (s', r) ->
    s' = s \/ s' = pdel (toml_path layers n) s \/
    (pget (toml_path layers n) s = None /\ exists m, s' = pset (toml_path layers n) (File m (Raw [])) s).
  Proof.
    intros D H. unfold gen_read_layer in H. cbv zeta in H. fold (toml_path layers n) in H.
    set (tp := toml_path layers n) in *.
    cbv beta in H.
    match type of H with (if ?c then _ else _) _ = _ => destruct c end; [inj H; now left|].
    cbv beta in H.
    match type of H with (if ?c then _ else _) _ = _ => destruct c end.
    - (* orphaned metadata file: removed *)
      unfold bindM in H. destruct (unlink tp s) as [s1 r1] eqn:U.
      assert (F : s1 = s \/ s1 = pdel tp s).
      { destruct (unlink_frame tp s s1 r1 U) as [F|(rp & R & F)]; [now left|right].
        now rewrite (resolve_nofollow layers _ Vt s rp D R) in F. }
      destruct r1 as [[]|e]; inj H; destruct F as [->| ->]; auto.
    - cbv beta in H. unfold bindM at 1 in H.
      destruct (res_is_err (snd (lstat tp s))) eqn:LE.
      + (* no entry can be stat-ed at the path *)
        unfold bindM at 1 in H.
        destruct (write_file tp (Raw []) s) as [s1 r1] eqn:W.
        assert (WS : s1 = s \/ (pget tp s = None /\ exists m, s1 = pset tp (File m (Raw [])) s)).
        { unfold lstat, stat_gen in LE.
          destruct (resolve s tp false) as [rp|e] eqn:R.
          - pose proof (resolve_nofollow layers _ Vt s rp D R) as ->.
            match type of LE with context [pget ?q s] => destruct (pget q s) as [nd|] eqn:G end; [cbn in LE; discriminate|].
            change (pget tp s = None) in G.
            assert (NL : not_link (pget tp s)) by (rewrite G; intros t; discriminate).
            destruct (write_step layers _ Vt s s1 r1 [] D NL W) as [[_ ->]|[_ (m & ->)]]; [now left|right].
            split; [exact G|exists m; reflexivity].
          - left. unfold write_file, write_file_mode in W. unfold resolve in R.
            apply walk_err_follow in R. fold (resolve s tp true) in R. rewrite R in W. now injection W as <- _. }
        destruct r1 as [[]|e]; [|inj H; fin WS].
        cbn [ret] in H. unfold bindM in H.
        assert (RSt : forall sx, fst (read_string tp sx) = sx).
        { intros sx. unfold read_string, bindM, read_file.
          destruct (resolve sx tp true); [|reflexivity].
          destruct (pget _ sx) as [[m c|m|t]|]; try reflexivity; destruct (has_r m); reflexivity. }
        destruct (read_string tp s1) as [s2 r2] eqn:RD.
        assert (s2 = s1) by (rewrite <- (RSt s1), RD; reflexivity). subst s2.
        destruct r2 as [c|e]; [|inj H; fin WS].
        unfold lift_parse in H. destruct (parse c); inj H; fin WS.
      + cbn [ret] in H. unfold bindM in H.
        assert (RSt : forall sx, fst (read_string tp sx) = sx).
        { intros sx. unfold read_string, bindM, read_file.
          destruct (resolve sx tp true); [|reflexivity].
          destruct (pget _ sx) as [[m c|m|t]|]; try reflexivity; destruct (has_r m); reflexivity. }
        destruct (read_string tp s) as [s2 r2] eqn:RD.
        assert (s2 = s) by (rewrite <- (RSt s), RD; reflexivity). subst s2.
        destruct r2 as [c|e]; [|inj H; now left].
        unfold lift_parse in H. destruct (parse c); inj H; now left.
  Qed.

  (* F10: a symbolic link at <layers>/<name>.toml -- dangling or not -- is never written through *)
  Corollary read_layer_never_writes_through_link s s' r t :
    dirs_to s layers -> pget (toml_path layers n) s = Some (Link t) ->
    gen_read_layer parse layers n s = (s', r) ->
    s' = s \/ s' = pdel (toml_path layers n) s.
  Proof.
    intros D G H. destruct (read_layer_effect s s' r D H) as [E|[E|(G' & _)]]; auto. congruence.
  Qed.
End ReadLayer.

(* the test as it was before e7f8bb8 (`!layer_toml_path.exists()`, which follows links): a dangling
   link at <name>.toml made read_layer create the link's target -- a file outside the layer *)
Definition read_layer_legacy {A} (parse : bytes -> option A) (layers_dir : path) (layer_name : bytes) : M (option (path * A)) :=
  let layer_dir_path := layers_dir ++ [layer_name] in
  let layer_toml_path := toml_path layers_dir layer_name in
  fun st_ =>
    if negb (exists_ layer_dir_path st_) && negb (exists_ layer_toml_path st_) then ret None st_
    else if negb (exists_ layer_dir_path st_) && exists_ layer_toml_path st_ then (unlink layer_toml_path ;;; ret None) st_
    else ((if negb (exists_ layer_toml_path st_) then write_file layer_toml_path (Raw []) else ret tt) ;;;
          c <- read_string layer_toml_path ;;
          m <- lift_parse parse c ;;
          ret (Some (layer_dir_path, m))) st_.

Definition f10_fs : fs :=
  [ ([], Dir 493); ([[108]], Dir 493); ([[108]; [120]], Dir 493);
    ([[108]; [120; 46; 116; 111; 109; 108]], Link [46; 46; 47; 111; 117; 116]) ].     (* l/x.toml -> ../out *)

Example read_layer_legacy_writes_through :
  pget [[111; 117; 116]] f10_fs = None /\
  pget [[111; 117; 116]] (fst (read_layer_legacy (fun _ => Some tt) [[108]] [120] f10_fs)) = Some (File 420 (Raw [])).
Proof. vm_compute. split; reflexivity. Qed.

Example read_layer_repaired_on_f10 :
  fst (gen_read_layer (fun _ => Some tt) [[108]] [120] f10_fs) = f10_fs /\
  dirs_to f10_fs [[108]] /\ valid_path (toml_path [[108]] [120]).
Proof.
  split; [vm_compute; reflexivity|]. split.
  - intros k Lk. destruct k as [|[|k]]; [eexists; reflexivity|eexists; reflexivity|cbn in Lk; lia].
  - repeat constructor.
Qed.
