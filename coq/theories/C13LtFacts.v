From LV Require Import DepGraph DepGraphFacts.
From LV.Checks Require Import C13Hold C13LtHold.
From Coq Require Import List Arith Bool.
Import ListNotations.

Lemma mem_In x l : mem x l = true <-> In x l.
Proof.
  unfold mem. rewrite existsb_exists. split.
  - intros (y & Hy & E). apply Nat.eqb_eq in E. subst. exact Hy.
  - intros H. exists x. split; [exact H|apply Nat.eqb_refl].
Qed.

Lemma set_eqb_In a b : set_eqb a b = true -> forall x, In x a <-> In x b.
Proof.
  unfold set_eqb. rewrite andb_true_iff, !forallb_forall. intros [H1 H2] x. split; intros H.
  - apply mem_In, H1, H.
  - apply mem_In, H2, H.
Qed.

(* an accepted observation of a test build: pack was reached, it was handed the selected buildpack,
   and the buildpacks packaged are exactly those reachable from the selection along libcnb:
   dependencies *)
Theorem lt_oracle_sound c g rs out :
  create_graph (l_nodes c) = CgOk g ->
  resolve_roots (map fst (l_nodes c)) [l_root c] = Some rs ->
  acyclic g -> get_dependencies g rs = Some out ->
  holds c = true ->
  l_ok c = true /\ l_chosen c = Some (l_root c) /\
  forall x, In x (l_packaged c) <->
            exists i, reachable_from g rs i /\ nth i (map fst (l_nodes c)) 0 = x.
Proof.
  intros Hg Hr Ha Hd. unfold holds, expected_set. rewrite Hg, Hr, Hd. cbn [option_map].
  rewrite !andb_true_iff. intros [[Hok Hs] Hc]. split; [exact Hok|]. split.
  - unfold onat_eqb in Hc. destruct (l_chosen c) as [x|]; [|discriminate].
    apply Nat.eqb_eq in Hc. congruence.
  - intros x. rewrite (set_eqb_In _ _ Hs x), in_map_iff.
    destruct (deps_first g rs out Ha Hd) as (_ & Hreach & _).
    split; intros (i & H1 & H2).
    + exists i. split; [apply Hreach, H2|exact H1].
    + exists i. split; [exact H2|apply Hreach, H1].
Qed.

(* and an error is accepted only when the model has no answer: an unknown dependency somewhere in
   the workspace or an unknown selection *)
Theorem lt_oracle_error c :
  holds c = true -> l_ok c = false ->
  (exists d, create_graph (l_nodes c) = CgMissing d) \/
  resolve_roots (map fst (l_nodes c)) [l_root c] = None \/
  (exists g rs, create_graph (l_nodes c) = CgOk g /\ resolve_roots (map fst (l_nodes c)) [l_root c] = Some rs /\
                get_dependencies g rs = None).
Proof.
  unfold holds, expected_set. intros H Hok.
  destruct (create_graph (l_nodes c)) as [g|d] eqn:Hg; [|left; eexists; reflexivity].
  destruct (resolve_roots (map fst (l_nodes c)) [l_root c]) as [rs|] eqn:Hr; [|right; left; reflexivity].
  destruct (get_dependencies g rs) as [out|] eqn:Hd.
  - cbn [option_map] in H. rewrite Hok in H. discriminate.
  - right; right. exists g, rs. auto.
Qed.
