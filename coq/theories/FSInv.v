(* FSInv.v -- representation invariants of the file-system model and what depends on them:
   key uniqueness (every path has one entry), its preservation by the state changes the
   primitives make, parent-closedness under those changes, and the fact that subtree_rwx (the
   success condition of remove_dir_all) is determined pointwise by pget on the subtree. *)
From LV Require Import Base FS FSFacts LayerShared LayerSharedFacts LayerSharedGone Determinism.
From Coq Require Import Lia.
Open Scope N_scope.

Definition fs_nodup (s : fs) : Prop := NoDup (map fst s).

Lemma in_keys_pget k (s : fs) : In k (map fst s) <-> pget k s <> None.
Proof.
  split.
  - intros H. apply in_map_iff in H as ([k' v] & E & I). cbn in E. subst k'. eapply in_pget; eauto.
  - intros H. destruct (pget k s) as [v|] eqn:G; [|congruence]. apply pget_some_in in G.
    apply in_map_iff. exists (k, v). auto.
Qed.

Lemma nodup_in_pget k v (s : fs) : fs_nodup s -> In (k, v) s -> pget k s = Some v.
Proof.
  unfold fs_nodup. induction s as [|[k' v'] s IH]; intros ND I; [contradiction|].
  cbn [map fst] in ND. inversion ND as [|a b Ha Hb]; subst. cbn [pget].
  destruct I as [E|I].
  - inversion E; subst. rewrite path_eqb_refl. reflexivity.
  - destruct (path_eqb k k') eqn:E.
    + apply path_eqb_spec in E. subst k'. exfalso. apply Ha. apply in_map_iff. exists (k, v). auto.
    + apply IH; assumption.
Qed.

Lemma map_fst_pset_existing p v (s : fs) : pget p s <> None -> map fst (pset p v s) = map fst s.
Proof.
  induction s as [|[k v'] s IH]; intros H; cbn [pget] in H; [congruence|]. cbn [pset].
  destruct (path_eqb p k) eqn:E; cbn [map fst]; [reflexivity|]. f_equal. apply IH. exact H.
Qed.

Lemma map_fst_pset_new p v (s : fs) : pget p s = None -> map fst (pset p v s) = map fst s ++ [p].
Proof.
  induction s as [|[k v'] s IH]; intros H; cbn [pget] in H; [reflexivity|]. cbn [pset].
  destruct (path_eqb p k) eqn:E; [discriminate|]. cbn [map fst List.app]. f_equal. apply IH. exact H.
Qed.

Lemma nodup_snoc {A} (l : list A) x : NoDup l -> ~ In x l -> NoDup (l ++ [x]).
Proof.
  induction l as [|a l IH]; intros ND H; cbn [List.app]; [constructor; [intros []|constructor]|].
  inversion ND as [|b c Hb Hc]; subst. constructor.
  - intros I. apply in_app_or in I. destruct I as [I|[E|[]]]; [contradiction|]. subst. apply H. left. reflexivity.
  - apply IH; [exact Hc|]. intros I. apply H. right. exact I.
Qed.

Lemma nodup_pset p v s : fs_nodup s -> fs_nodup (pset p v s).
Proof.
  unfold fs_nodup. intros ND. destruct (pget p s) as [x|] eqn:G.
  - rewrite map_fst_pset_existing by congruence. exact ND.
  - rewrite map_fst_pset_new by exact G. apply nodup_snoc; [exact ND|].
    intros I. apply in_keys_pget in I. congruence.
Qed.

Lemma nodup_filter (f : path * node -> bool) s : fs_nodup s -> fs_nodup (filter f s).
Proof.
  unfold fs_nodup. induction s as [|kv s IH]; intros ND; [constructor|]. cbn [filter].
  inversion ND as [|a b Ha Hb]; subst. destruct (f kv); cbn [map]; [|apply IH; exact Hb].
  constructor; [|apply IH; exact Hb]. intros I. apply Ha. apply in_map_iff in I as (x & E & Ix).
  apply filter_In in Ix as [Ix _]. apply in_map_iff. exists x. auto.
Qed.

Lemma nodup_premove d s : fs_nodup s -> fs_nodup (premove_under d s).
Proof. apply nodup_filter. Qed.

Lemma nodup_apply_writes l : forall s, fs_nodup s -> fs_nodup (apply_writes l s).
Proof. induction l as [|kv l IH]; intros s ND; [exact ND|]. cbn. apply IH, nodup_pset, ND. Qed.

(* ---------- parent-closedness under the changes a write makes ---------- *)
Lemma pc_premove d s : parent_closed s -> parent_closed (premove_under d s).
Proof.
  intros PC q n H. rewrite pget_premove in H. destruct (is_prefix d (q ++ [n])) eqn:E; [congruence|].
  destruct (PC q n H) as [m Hm]. exists m. rewrite pget_premove.
  destruct (is_prefix d q) eqn:E2; [|exact Hm].
  exfalso. apply is_prefix_spec in E2 as [r ->]. rewrite <- app_assoc, is_prefix_app in E. discriminate.
Qed.

(* a new entry whose parent is a directory *)
Lemma pc_pset_new s d n v : parent_closed s -> is_dir_node (pget d s) -> pget (d ++ [n]) s = None ->
  parent_closed (pset (d ++ [n]) v s).
Proof.
  intros PC D Hn q m H.
  destruct (path_eqb (q ++ [m]) (d ++ [n])) eqn:E.
  - apply path_eqb_spec in E. apply app_inj_tail in E as [-> ->].
    destruct D as [md Hd]. exists md. rewrite pget_pset_other; [exact Hd|]. intros X. symmetry in X. exact (snoc_neq_self _ _ X).
  - apply path_eqb_neq in E. rewrite pget_pset_other in H by exact E.
    destruct (PC q m H) as [mq Hq]. exists mq. rewrite pget_pset_other; [exact Hq|].
    intros ->. congruence.
Qed.

(* ---------- subtree_rwx is determined pointwise ---------- *)
Lemma children_empty_iff d s : children d s = [] <-> forall n, pget (d ++ [n]) s = None.
Proof.
  split; [apply children_nil|].
  intros H. destruct (children d s) as [|n l] eqn:C; [reflexivity|]. exfalso.
  assert (I : In n (children d s)) by (rewrite C; left; reflexivity).
  apply children_spec in I as [v I]. apply in_pget in I. apply I, H.
Qed.

Definition dir_ok (s : fs) (k : path) (v : node) : bool :=
  match v with
  | Dir m => has_r m && (is_empty (children k s) || (has_w m && has_x m))
  | _ => true
  end.

Lemma subtree_rwx_spec d s : fs_nodup s ->
  (subtree_rwx d s = true <-> forall k v, pget k s = Some v -> is_prefix d k = true -> dir_ok s k v = true).
Proof.
  intros ND. unfold subtree_rwx. rewrite forallb_forall. split.
  - intros H k v G P. specialize (H (k, v) (pget_some_in _ _ _ G)). cbn [fst snd] in H. rewrite P in H. cbn in H. exact H.
  - intros H [k v] I. cbn [fst snd]. destruct (is_prefix d k) eqn:P; [|reflexivity]. cbn [negb orb].
    apply (H k v); [apply nodup_in_pget; assumption|exact P].
Qed.

Lemma is_empty_children_pointwise a c k :
  (forall n, pget (k ++ [n]) a = pget (k ++ [n]) c) -> is_empty (children k a) = is_empty (children k c).
Proof.
  intros H.
  assert (E : children k a = [] <-> children k c = []).
  { rewrite !children_empty_iff. split; intros X n; [rewrite <- H|rewrite H]; apply X. }
  destruct (children k a), (children k c); try reflexivity; exfalso.
  - destruct E as [E _]. specialize (E eq_refl). discriminate.
  - destruct E as [_ E]. specialize (E eq_refl). discriminate.
Qed.

Theorem subtree_rwx_pointwise d a c : fs_nodup a -> fs_nodup c ->
  (forall q, is_prefix d q = true -> pget q a = pget q c) -> subtree_rwx d a = subtree_rwx d c.
Proof.
  intros Na Nc H.
  assert (G : forall x y, fs_nodup x -> fs_nodup y -> (forall q, is_prefix d q = true -> pget q x = pget q y) ->
                          subtree_rwx d x = true -> subtree_rwx d y = true).
  { intros x y Nx Ny Hxy Hx. apply (subtree_rwx_spec d y Ny). intros k v Gk P.
    rewrite <- (Hxy k P) in Gk. pose proof (proj1 (subtree_rwx_spec d x Nx) Hx k v Gk P) as D.
    unfold dir_ok in *. destruct v as [m c0|m|t]; try reflexivity.
    rewrite <- (is_empty_children_pointwise x y k); [exact D|].
    intros n. apply Hxy. apply is_prefix_spec in P as [r ->]. rewrite <- app_assoc. apply is_prefix_app. }
  destruct (subtree_rwx d a) eqn:Ea, (subtree_rwx d c) eqn:Ec; try reflexivity.
  - rewrite (G a c Na Nc H Ea) in Ec. discriminate.
  - assert (X : subtree_rwx d a = true) by (apply (G c a Nc Na); [intros q P; symmetry; apply H, P|exact Ec]). congruence.
Qed.
