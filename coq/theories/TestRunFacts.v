(* TestRunFacts.v -- every scenario, every failure oracle: with the early ContainerContext and the
   non-panicking-while-panicking Drop, the run never aborts, every started container is removed
   exactly once after its last use, the image and the volumes are removed exactly once at the very
   end, only names of this run are removed and no temp dir survives.  The legacy Drop aborts. *)
From LV Require Import Base TestRun.
From Coq Require Import Lia.
Open Scope nat_scope.

Lemma ev_eqb_refl e : ev_eqb e e = true.
Proof. destruct e; cbn; rewrite ?Nat.eqb_refl, ?Bool.eqb_reflx; reflexivity. Qed.

Lemma ev_eqb_eq a b : ev_eqb a b = true -> a = b.
Proof.
  destruct a, b; cbn; try discriminate; intros H;
    repeat match goal with
           | H : _ && _ = true |- _ => apply andb_prop in H; destruct H
           | H : Nat.eqb _ _ = true |- _ => apply Nat.eqb_eq in H; subst
           | H : Bool.eqb _ _ = true |- _ => apply Bool.eqb_prop in H; subst
           end; reflexivity.
Qed.

Lemma ev_eqb_neq a b : a <> b -> ev_eqb a b = false.
Proof. intros H. destruct (ev_eqb a b) eqn:E; [apply ev_eqb_eq in E; contradiction|reflexivity]. Qed.

(* ---------- segments ---------- *)
Definition closed_in (c : nat) (l : list ev) : Prop :=
  exists a b, l = a ++ ERmC c :: b /\ ~ In (ERmC c) a /\ (forall e, In e b -> ~ In c (cnames e)).

Record SegOk (img lo hi : nat) (m : list ev) : Prop := {
  seg_c : forall e c, In e m -> In c (cnames e) -> lo <= c < hi;
  seg_i : forall e i, In e m -> In i (inames e) -> i = img;
  seg_closed : forall i c, In (ERunD i c) m -> closed_in c m
}.

Definition NoRm (m : list ev) : Prop := forall e, In e m -> is_rm_img e = false.

Lemma SegOk_nil img lo hi : SegOk img lo hi [].
Proof. constructor; intros; contradiction. Qed.

Lemma SegOk_weaken img lo hi lo' hi' m : SegOk img lo hi m -> lo' <= lo -> hi <= hi' -> SegOk img lo' hi' m.
Proof.
  intros [A B C] H1 H2. constructor; auto. intros e c He Hc. specialize (A e c He Hc). lia.
Qed.

Lemma SegOk_app img lo mid hi m1 m2 :
  SegOk img lo mid m1 -> SegOk img mid hi m2 -> lo <= mid -> mid <= hi -> SegOk img lo hi (m1 ++ m2).
Proof.
  intros [A1 B1 C1] [A2 B2 C2] H1 H2. constructor.
  - intros e c He Hc. apply in_app_or in He. destruct He as [He|He].
    + specialize (A1 e c He Hc). lia.
    + specialize (A2 e c He Hc). lia.
  - intros e i He Hi. apply in_app_or in He. destruct He as [He|He]; eauto.
  - intros i c Hin. apply in_app_or in Hin. destruct Hin as [Hin|Hin].
    + destruct (C1 i c Hin) as (a & b & -> & Ha & Hb).
      exists a, (b ++ m2). split; [rewrite <- app_assoc; reflexivity|]. split; [exact Ha|].
      intros e He. apply in_app_or in He. destruct He as [He|He]; [apply Hb, He|].
      intros Hc. specialize (A2 e c He Hc).
      assert (lo <= c < mid) by (apply (A1 (ERunD i c)); [exact Hin|cbn; auto]). lia.
    + destruct (C2 i c Hin) as (a & b & -> & Ha & Hb).
      exists (m1 ++ a), b. split; [rewrite <- app_assoc; reflexivity|]. split; [|exact Hb].
      intros He. apply in_app_or in He. destruct He as [He|He]; [|apply Ha, He].
      assert (lo <= c < mid) by (apply (A1 (ERmC c)); [exact He|cbn; auto]).
      assert (mid <= c < hi) by (apply (A2 (ERunD i c)); [exact Hin|cbn; auto]). lia.
Qed.

Lemma SegOk_single_noc img lo hi e :
  cnames e = [] -> (forall i, In i (inames e) -> i = img) -> SegOk img lo hi [e].
Proof.
  intros Hc Hi. constructor.
  - intros e' c [<-|[]] H. rewrite Hc in H. contradiction.
  - intros e' i [<-|[]] H. auto.
  - intros i c [E|[]]. subst e. discriminate.
Qed.

Lemma NoRm_app a b : NoRm a -> NoRm b -> NoRm (a ++ b).
Proof. intros Ha Hb e He. apply in_app_or in He. destruct He; auto. Qed.

Lemma NoRm_nil : NoRm [].
Proof. intros e []. Qed.

Lemma NoRm_single e : is_rm_img e = false -> NoRm [e].
Proof. intros H e' [<-|[]]. exact H. Qed.

(* ---------- effects ---------- *)
Definition LiveB (s : st) : Prop := forall t, In t (s_live s) -> t < s_tnext s.

Record Eff (img : nat) (s s' : st) (m : list ev) : Prop := {
  eff_tr : s_tr s' = s_tr s ++ m;
  eff_next : s_next s <= s_next s';
  eff_seg : SegOk img (s_next s) (s_next s') m;
  eff_tnext : s_tnext s <= s_tnext s';
  eff_live : s_live s' = s_live s
}.

Lemma Eff_refl img s : Eff img s s [].
Proof. constructor; try lia; try reflexivity. - symmetry; apply app_nil_r. - apply SegOk_nil. Qed.

Lemma Eff_trans img s s1 s2 m1 m2 : Eff img s s1 m1 -> Eff img s1 s2 m2 -> Eff img s s2 (m1 ++ m2).
Proof.
  intros [T1 N1 S1 U1 L1] [T2 N2 S2 U2 L2]. constructor; try lia; try congruence.
  - rewrite T2, T1, app_assoc. reflexivity.
  - eapply SegOk_app; eauto.
Qed.

Lemma LiveB_eff img s s' m : LiveB s -> Eff img s s' m -> LiveB s'.
Proof. intros H [_ _ _ U L] t Ht. rewrite L in Ht. specialize (H t Ht). lia. Qed.

Section Facts.
  Variable fails : nat -> bool.
  Variable repaired : bool.

  Notation cmd := (cmd fails).
  Notation run_cops := (run_cops fails).
  Notation run_step := (run_step fails repaired true).
  Notation drop_res := (drop_res fails).
  Notation drop_container := (drop_container fails repaired).
  Notation run_build_with := (run_build_with fails).
  Notation run_tbody := (run_tbody fails repaired true).

  Lemma eff_cmd_noc img e s :
    cnames e = [] -> (forall i, In i (inames e) -> i = img) -> Eff img s (fst (cmd e s)) [e].
  Proof.
    intros Hc Hi. constructor; cbn; try lia; try reflexivity. apply SegOk_single_noc; assumption.
  Qed.

  Lemma filter_fresh (t : nat) l : (forall x, In x l -> x < t) -> filter (fun x => negb (Nat.eqb x t)) l = l.
  Proof.
    induction l as [|x l IH]; intros H; cbn; [reflexivity|].
    assert (x < t) by (apply H; left; reflexivity).
    destruct (Nat.eqb_spec x t); [lia|]. cbn. rewrite IH; [reflexivity|].
    intros y Hy. apply H. right. exact Hy.
  Qed.

  Lemma rmtemp_fresh s : LiveB s -> rmtemp (snd (mktemp s)) (fst (mktemp s)) =
                                    mkSt (s_n s) (s_tr s) (s_next s) (S (s_tnext s)) (s_live s).
  Proof.
    intros H. unfold rmtemp, mktemp. cbn. rewrite Nat.eqb_refl. cbn. f_equal.
    apply filter_fresh. exact H.
  Qed.

  (* run_cops only talks about [c] and neither starts nor removes it *)
  Lemma run_cops_tr c ops s s' p :
    run_cops c ops s = (s', p) ->
    exists m, s_tr s' = s_tr s ++ m /\ s_next s' = s_next s /\ s_tnext s' = s_tnext s /\ s_live s' = s_live s /\
              (forall e, In e m -> cnames e = [c] /\ inames e = [] /\ e <> ERmC c /\ forall i d, e <> ERunD i d).
  Proof.
    revert s. induction ops as [|o r IH]; intros s H; cbn [TestRun.run_cops] in H.
    - inversion H; subst. exists []. rewrite app_nil_r.
      split; [reflexivity|]. split; [reflexivity|]. split; [reflexivity|]. split; [reflexivity|]. intros e [].
    - destruct (cop_ev c o) as [e|] eqn:Ee.
      + assert (He : cnames e = [c] /\ inames e = [] /\ e <> ERmC c /\ forall i d, e <> ERunD i d).
        { destruct o; inversion Ee; subst; repeat split; try discriminate; intros; discriminate. }
        destruct (cmd e s) as [s1 ok] eqn:Ec. unfold TestRun.cmd in Ec. inversion Ec; subst s1; clear Ec.
        destruct ok.
        * apply IH in H. destruct H as (m & T & N & U & L & F). cbn in T, N, U, L.
          exists (e :: m). rewrite T, <- app_assoc.
          split; [reflexivity|]. split; [exact N|]. split; [exact U|]. split; [exact L|].
          intros e' [<-|He']; [exact He|apply F, He'].
        * destruct (cop_fail_ev c o) as [e2|] eqn:Ef.
          -- assert (He2 : cnames e2 = [c] /\ inames e2 = [] /\ e2 <> ERmC c /\ forall i d, e2 <> ERunD i d).
             { destruct o; inversion Ef; subst; repeat split; try discriminate; intros; discriminate. }
             inversion H; subst. exists [e; e2]. cbn. rewrite <- app_assoc.
             split; [reflexivity|]. split; [reflexivity|]. split; [reflexivity|]. split; [reflexivity|].
             intros e' [<-|[<-|[]]]; [exact He|exact He2].
          -- inversion H; subst. exists [e]. cbn.
             split; [reflexivity|]. split; [reflexivity|]. split; [reflexivity|]. split; [reflexivity|].
             intros e' [<-|[]]; exact He.
      + inversion H; subst. exists []. rewrite app_nil_r.
        split; [reflexivity|]. split; [reflexivity|]. split; [reflexivity|]. split; [reflexivity|]. intros e [].
  Qed.

  Lemma step_eff img x s s' o :
    repaired = true -> LiveB s -> run_step img x s = (s', o) -> o <> OAbort /\ exists m, Eff img s s' m /\ NoRm m.
  Proof.
    intros Hr HL H. destruct x as [body| |p]; cbn [TestRun.run_step] in H.
    - (* start_container *)
      unfold fresh in H. cbn in H.
      set (c := s_next s) in *.
      set (s1 := mkSt (S (s_n s)) (s_tr s ++ [ERunD img c]) (S c) (s_tnext s) (s_live s)) in *.
      assert (Hfin : forall (sm : st) (m : list ev) (pk : bool) s'' o'',
                 s_tr sm = s_tr s ++ ERunD img c :: m -> s_next sm = S c -> s_tnext sm = s_tnext s ->
                 s_live sm = s_live s ->
                 (forall e, In e m -> cnames e = [c] /\ inames e = [] /\ e <> ERmC c /\ forall i d, e <> ERunD i d) ->
                 drop_container c pk sm = (s'', o'') ->
                 o'' <> OAbort /\ exists m', Eff img s s'' m' /\ NoRm m').
      { intros sm m pk s'' o'' T N U L F HD. unfold TestRun.drop_container, TestRun.cmd in HD.
        assert (Hs'' : s'' = mkSt (S (s_n sm)) (s_tr sm ++ [ERmC c]) (s_next sm) (s_tnext sm) (s_live sm)).
        { destruct (negb (fails (s_n sm))), pk; inversion HD; reflexivity. }
        split.
        { rewrite Hr in HD. destruct (negb (fails (s_n sm))), pk; inversion HD; discriminate. }
        exists (ERunD img c :: m ++ [ERmC c]). subst s''. split.
        - constructor; cbn; try lia; try congruence.
          + rewrite T, <- app_assoc. reflexivity.
          + rewrite N. fold c. constructor.
            * intros e d He Hd. assert (d = c).
              { destruct He as [<-|He]; [cbn in Hd; destruct Hd as [Hd|[]]; symmetry; exact Hd|]. apply in_app_or in He. destruct He as [He|[<-|[]]].
                - destruct (F e He) as (Hc & _). rewrite Hc in Hd. cbn in Hd. destruct Hd as [Hd|[]]; symmetry; exact Hd.
                - cbn in Hd. destruct Hd as [Hd|[]]; symmetry; exact Hd. }
              lia.
            * intros e i He Hi. destruct He as [<-|He]; [cbn in Hi; destruct Hi as [Hi|[]]; symmetry; exact Hi|]. apply in_app_or in He.
              destruct He as [He|[<-|[]]]; [|cbn in Hi; contradiction].
              destruct (F e He) as (_ & Hi' & _). rewrite Hi' in Hi. contradiction.
            * intros i d Hin. assert (d = c).
              { destruct Hin as [E|Hin]; [inversion E; reflexivity|]. apply in_app_or in Hin.
                destruct Hin as [Hin|[E|[]]]; [|discriminate].
                destruct (F _ Hin) as (_ & _ & _ & Hn). exfalso. eapply Hn. reflexivity. }
              subst d. exists (ERunD img c :: m), []. split; [reflexivity|]. split; [|intros e []].
              intros [E|Hin']; [discriminate|]. destruct (F _ Hin') as (_ & _ & Hn & _). apply Hn. reflexivity.
        - intros e [<-|He]; [reflexivity|]. apply in_app_or in He. destruct He as [He|[<-|[]]]; [|reflexivity].
          destruct (F e He) as (_ & Hi & _). destruct e; cbn in Hi; try discriminate; reflexivity. }
      unfold TestRun.cmd in H. cbn in H. fold c in H. fold s1 in H.
      destruct (negb (fails (s_n s))).
      + destruct (run_cops c body s1) as [s2 pk] eqn:RC.
        apply run_cops_tr in RC. destruct RC as (m & T & N & U & L & F).
        eapply (Hfin s2 m pk); eauto. rewrite T. unfold s1. cbn. rewrite <- app_assoc. reflexivity.
      + eapply (Hfin s1 [] true); eauto.
        intros e [].
    - (* run_shell_command *)
      unfold fresh, TestRun.cmd in H. cbn in H. inversion H; subst; clear H. split.
      + destruct (negb (fails (s_n s))); discriminate.
      + exists [ERunRm img (s_next s)]. split; [|apply NoRm_single; reflexivity].
        constructor; cbn; try lia; try reflexivity. constructor.
        * intros e c [<-|[]] [<-|[]]. lia.
        * intros e i [<-|[]] [<-|[]]. reflexivity.
        * intros i c [E|[]]. discriminate.
    - (* download_sbom_files *)
      destruct (mktemp s) as [s0 t] eqn:Em. unfold TestRun.cmd in H. cbn in H. inversion H; subst; clear H.
      split; [destruct (negb (fails (s_n s0))), p; discriminate|].
      exists [ESbom img]. split; [|apply NoRm_single; reflexivity].
      pose proof (rmtemp_fresh s HL) as R. rewrite Em in R. cbn [fst snd] in R.
      unfold rmtemp in *. cbn in *. assert (R' := f_equal s_live R). cbn in R'.
      assert (s_n s0 = s_n s /\ s_tr s0 = s_tr s /\ s_next s0 = s_next s /\ s_tnext s0 = S (s_tnext s))
        as (E1 & E2 & E3 & E4) by (unfold mktemp in Em; inversion Em; cbn; auto).
      constructor; cbn; rewrite ?E2, ?E3, ?E4; try lia; try reflexivity.
      + apply SegOk_single_noc; [reflexivity|]. intros i [<-|[]]. reflexivity.
      + exact R'.
  Qed.

  (* ---------- the closure / build level ---------- *)
  Record Shape (img : nat) (s s' : st) (m : list ev) : Prop := {
    sh_tr : s_tr s' = s_tr s ++ m ++ [ERmI img; ERmV img];
    sh_norm : NoRm m;
    sh_seg : SegOk img (s_next s) (s_next s') m;
    sh_next : s_next s <= s_next s';
    sh_tnext : s_tnext s <= s_tnext s';
    sh_live : s_live s' = s_live s
  }.

  Definition TSpec (img : nat) (f : st -> st * outcome) : Prop :=
    forall s s' o, LiveB s -> f s = (s', o) -> o <> OAbort /\ exists m, Shape img s s' m.

  Lemma shape_drop img s s1 m : Eff img s s1 m -> NoRm m -> Shape img s (drop_res img s1) m.
  Proof.
    intros [T N S U L] HN. constructor; cbn; try assumption.
    rewrite T, <- !app_assoc. reflexivity.
  Qed.

  Lemma shape_prefix img s s1 s' m1 m :
    Eff img s s1 m1 -> NoRm m1 -> Shape img s1 s' m -> Shape img s s' (m1 ++ m).
  Proof.
    intros [T N S U L] HN [T' HN' S' N' U' L']. constructor; try lia; try congruence.
    - rewrite T', T, <- !app_assoc. reflexivity.
    - apply NoRm_app; assumption.
    - eapply SegOk_app; eauto.
  Qed.

  Lemma mktemp_eff img s : Eff img s (mkSt (s_n s) (s_tr s) (s_next s) (S (s_tnext s)) (s_live s)) [].
  Proof. constructor; cbn; try lia; try reflexivity. - symmetry; apply app_nil_r. - apply SegOk_nil. Qed.

  Lemma build_spec img cfg k : repaired = true -> TSpec img k -> TSpec img (run_build_with k img cfg).
  Proof.
    intros Hr Hk s s' o HL H. unfold TestRun.run_build_with in H.
    destruct (b_pre cfg) as [pk|] eqn:Epre.
    - (* with preprocessor: app copy exists *)
      destruct (mktemp s) as [sa ta] eqn:Ema.
      pose proof (rmtemp_fresh s HL) as Ra. rewrite Ema in Ra. cbn [fst snd] in Ra.
      assert (Hsa : sa = mkSt (s_n s) (s_tr s) (s_next s) (S (s_tnext s)) (ta :: s_live s) /\ ta = s_tnext s)
        by (unfold mktemp in Ema; inversion Ema; auto).
      destruct Hsa as [Hsa Hta].
      destruct pk.
      + (* preprocessor returns *)
        destruct (mktemp sa) as [sb tb] eqn:Emb.
        assert (Hsb : sb = mkSt (s_n s) (s_tr s) (s_next s) (S (S (s_tnext s))) (tb :: ta :: s_live s) /\ tb = S (s_tnext s))
          by (unfold mktemp in Emb; inversion Emb; subst sa; cbn; auto).
        destruct Hsb as [Hsb Htb].
        unfold TestRun.cmd in H. cbn [fst snd] in H.
        set (sc := mkSt (S (s_n sb)) (s_tr sb ++ [EPack img]) (s_next sb) (s_tnext sb) (s_live sb)) in *.
        assert (LiveB sc).
        { intros t Ht. unfold sc in *. subst sb. cbn in *. destruct Ht as [<-|[<-|Ht]]; try lia.
          specialize (HL t Ht). lia. }
        assert (Esc : Eff img s (mkSt (s_n sc) (s_tr sc) (s_next sc) (s_tnext sc) (s_live s)) [EPack img]).
        { unfold sc. subst sb. constructor; cbn; try lia; try reflexivity.
          apply SegOk_single_noc; [reflexivity|]. intros i [<-|[]]. reflexivity. }
        assert (Hclean : forall sx, s_live sx = s_live sc -> s_tnext sc <= s_tnext sx ->
                  s_live (rmtemp_opt (Some ta) (rmtemp tb sx)) = s_live s).
        { intros sx Hl Hn. unfold rmtemp_opt, rmtemp. cbn. rewrite Hl. unfold sc. subst sb. cbn.
          rewrite Nat.eqb_refl. cbn. destruct (Nat.eqb_spec ta tb); [lia|]. cbn.
          rewrite Nat.eqb_refl. cbn.
          rewrite (filter_fresh tb (s_live s)) by (intros x Hx; specialize (HL x Hx); lia).
          rewrite (filter_fresh ta (s_live s)) by (intros x Hx; specialize (HL x Hx); lia).
          reflexivity. }
        destruct (Bool.eqb (negb (fails (s_n sb))) (b_expect_success cfg)).
        * destruct (k sc) as [s3 o3] eqn:Ek. destruct (Hk sc s3 o3 H0 Ek) as (Hno & m & [T HN S N U L]).
          assert (o = o3 /\ s' = rmtemp_opt (Some ta) (rmtemp tb s3)) as [-> ->].
          { destruct o3; inversion H; auto. congruence. }
          split; [exact Hno|]. exists (EPack img :: m).
          constructor; cbn.
          -- rewrite T. unfold sc. subst sb. cbn. rewrite <- !app_assoc. reflexivity.
          -- apply (NoRm_app [EPack img] m); [apply NoRm_single; reflexivity|exact HN].
          -- apply (SegOk_app img (s_next s) (s_next s) (s_next s3) [EPack img] m); try lia.
             ++ apply SegOk_single_noc; [reflexivity|]. intros i [<-|[]]. reflexivity.
             ++ unfold sc in S. subst sb. exact S.
             ++ unfold sc in N. subst sb. exact N.
          -- unfold sc in N. subst sb. exact N.
          -- unfold sc in U. subst sb. cbn in U. lia.
          -- apply Hclean; [exact L|exact U].
        * inversion H; subst s' o; clear H. split; [discriminate|]. exists [EPack img].
          assert (Hl := Hclean sc eq_refl (le_n _)).
          constructor; cbn -[rmtemp_opt rmtemp].
          -- unfold rmtemp_opt, rmtemp. cbn. subst sb. cbn. rewrite <- !app_assoc. reflexivity.
          -- apply NoRm_single; reflexivity.
          -- unfold rmtemp_opt, rmtemp. cbn. subst sb. cbn.
             apply SegOk_single_noc; [reflexivity|]. intros i [<-|[]]. reflexivity.
          -- unfold rmtemp_opt, rmtemp. cbn. subst sb. cbn. lia.
          -- unfold rmtemp_opt, rmtemp. cbn. subst sb. cbn. lia.
          -- exact Hl.
      + (* preprocessor panics *)
        inversion H; subst s' o; clear H. split; [discriminate|]. exists [].
        constructor; cbn -[rmtemp].
        * unfold rmtemp. cbn. subst sa. cbn. rewrite <- !app_assoc. reflexivity.
        * apply NoRm_nil.
        * unfold rmtemp. cbn. subst sa. cbn. apply SegOk_nil.
        * unfold rmtemp. cbn. subst sa. cbn. lia.
        * unfold rmtemp. cbn. subst sa. cbn. lia.
        * exact (f_equal s_live Ra).
      + (* pack cannot be spawned *)
        inversion H; subst s' o; clear H. split; [discriminate|]. exists [].
        constructor; cbn -[rmtemp].
        * unfold rmtemp. cbn. subst sa. cbn. rewrite <- !app_assoc. reflexivity.
        * apply NoRm_nil.
        * unfold rmtemp. cbn. subst sa. cbn. apply SegOk_nil.
        * unfold rmtemp. cbn. subst sa. cbn. lia.
        * unfold rmtemp. cbn. subst sa. cbn. lia.
        * exact (f_equal s_live Ra).
    - (* no preprocessor *)
      destruct (mktemp s) as [sb tb] eqn:Emb.
      assert (Hsb : sb = mkSt (s_n s) (s_tr s) (s_next s) (S (s_tnext s)) (tb :: s_live s) /\ tb = s_tnext s)
        by (unfold mktemp in Emb; inversion Emb; auto).
      destruct Hsb as [Hsb Htb].
      unfold TestRun.cmd in H. cbn [fst snd] in H.
      set (sc := mkSt (S (s_n sb)) (s_tr sb ++ [EPack img]) (s_next sb) (s_tnext sb) (s_live sb)) in *.
      assert (LiveB sc).
      { intros t Ht. unfold sc in *. subst sb. cbn in *. destruct Ht as [<-|Ht]; try lia.
        specialize (HL t Ht). lia. }
      assert (Hclean : forall sx, s_live sx = s_live sc -> s_tnext sc <= s_tnext sx ->
                s_live (rmtemp_opt None (rmtemp tb sx)) = s_live s).
      { intros sx Hl Hn. unfold rmtemp_opt, rmtemp. cbn. rewrite Hl. unfold sc. subst sb. cbn.
        rewrite Nat.eqb_refl. cbn.
        rewrite (filter_fresh tb (s_live s)) by (intros x Hx; specialize (HL x Hx); lia). reflexivity. }
      destruct (Bool.eqb (negb (fails (s_n sb))) (b_expect_success cfg)).
      + destruct (k sc) as [s3 o3] eqn:Ek. destruct (Hk sc s3 o3 H0 Ek) as (Hno & m & [T HN S N U L]).
        assert (o = o3 /\ s' = rmtemp_opt None (rmtemp tb s3)) as [-> ->].
        { destruct o3; inversion H; auto. congruence. }
        split; [exact Hno|]. exists (EPack img :: m).
        constructor; cbn.
        * rewrite T. unfold sc. subst sb. cbn. rewrite <- !app_assoc. reflexivity.
        * apply (NoRm_app [EPack img] m); [apply NoRm_single; reflexivity|exact HN].
        * apply (SegOk_app img (s_next s) (s_next s) (s_next s3) [EPack img] m); try lia.
          -- apply SegOk_single_noc; [reflexivity|]. intros i [<-|[]]. reflexivity.
          -- unfold sc in S. subst sb. exact S.
          -- unfold sc in N. subst sb. exact N.
        * unfold sc in N. subst sb. exact N.
        * unfold sc in U. subst sb. cbn in U. lia.
        * apply Hclean; [exact L|exact U].
      + inversion H; subst s' o; clear H. split; [discriminate|]. exists [EPack img].
        assert (Hl := Hclean sc eq_refl (le_n _)).
        constructor; cbn -[rmtemp_opt rmtemp].
        * unfold rmtemp_opt, rmtemp. cbn. subst sb. cbn. rewrite <- !app_assoc. reflexivity.
        * apply NoRm_single; reflexivity.
        * unfold rmtemp_opt, rmtemp. cbn. subst sb. cbn.
          apply SegOk_single_noc; [reflexivity|]. intros i [<-|[]]. reflexivity.
        * unfold rmtemp_opt, rmtemp. cbn. subst sb. cbn. lia.
        * unfold rmtemp_opt, rmtemp. cbn. subst sb. cbn. lia.
        * exact Hl.
  Qed.

  Lemma tbody_spec img b : repaired = true -> TSpec img (run_tbody img b).
  Proof.
    intros Hr. induction b as [| |x k IH|cfg inner IH after]; intros s s' o HL H; cbn [TestRun.run_tbody] in H.
    - inversion H; subst. split; [discriminate|]. exists []. apply shape_drop; [apply Eff_refl|apply NoRm_nil].
    - inversion H; subst. split; [discriminate|]. exists []. apply shape_drop; [apply Eff_refl|apply NoRm_nil].
    - destruct (run_step img x s) as [s1 o1] eqn:Es.
      destruct (step_eff img x s s1 o1 Hr HL Es) as (Hno & m1 & E1 & N1).
      destruct o1.
      + destruct (IH s1 s' o (LiveB_eff _ _ _ _ HL E1) H) as (Hno' & m & Sh).
        split; [exact Hno'|]. exists (m1 ++ m). eapply shape_prefix; eauto.
      + inversion H; subst. split; [discriminate|]. exists m1. apply shape_drop; assumption.
      + congruence.
    - destruct (run_build_with (run_tbody img inner) img cfg s) as [s1 o1] eqn:Eb.
      destruct (build_spec img cfg _ Hr IH s s1 o1 HL Eb) as (Hno & m & Sh).
      destruct o1; inversion H; subst; (split; [destruct after; discriminate || exact Hno|]); exists m; exact Sh.
  Qed.
End Facts.

(* ---------- from the shape to the checker ---------- *)
Lemma count_app e a b : count_ev e (a ++ b) = count_ev e a + count_ev e b.
Proof. unfold count_ev. rewrite filter_app, app_length. reflexivity. Qed.

Lemma count_notin e l : ~ In e l -> count_ev e l = 0.
Proof.
  induction l as [|x l IH]; intros H; [reflexivity|]. unfold count_ev in *. cbn.
  rewrite ev_eqb_neq; [apply IH; intros Hx; apply H; right; exact Hx|].
  intros ->. apply H. left. reflexivity.
Qed.

Lemma nothing_after_split e p a b : ~ In e a -> nothing_after e p (a ++ e :: b) = negb (existsb p b).
Proof.
  induction a as [|x a IH]; intros H; cbn.
  - rewrite ev_eqb_refl. reflexivity.
  - rewrite ev_eqb_neq; [apply IH; intros Hx; apply H; right; exact Hx|].
    intros ->. apply H. left. reflexivity.
Qed.

Lemma existsb_false {A} (p : A -> bool) l : (forall x, In x l -> p x = false) -> existsb p l = false.
Proof. induction l as [|x l IH]; intros H; cbn; [reflexivity|]. rewrite H, IH; auto. - intros; apply H; right; auto. - left; auto. Qed.

Lemma uses_container_false c e : ~ In c (cnames e) -> uses_container c e = false.
Proof.
  intros H. unfold uses_container. apply existsb_false. intros x Hx. apply Nat.eqb_neq. intros ->. contradiction.
Qed.

Lemma closed_checks c l :
  closed_in c l -> count_ev (ERmC c) l = 1 /\ nothing_after (ERmC c) (uses_container c) l = true.
Proof.
  intros (a & b & -> & Ha & Hb). split.
  - rewrite count_app, (count_notin _ a Ha). unfold count_ev. cbn. rewrite Nat.eqb_refl. cbn.
    fold (count_ev (ERmC c) b). rewrite count_notin; [reflexivity|].
    intros Hin. apply (Hb _ Hin). cbn. auto.
  - rewrite nothing_after_split by exact Ha. rewrite existsb_false; [reflexivity|].
    intros x Hx. apply uses_container_false, Hb, Hx.
Qed.

Lemma closed_in_app_tail c l t : closed_in c l -> (forall e, In e t -> cnames e = []) -> closed_in c (l ++ t).
Proof.
  intros (a & b & -> & Ha & Hb) Ht. exists a, (b ++ t). split; [rewrite <- app_assoc; reflexivity|].
  split; [exact Ha|]. intros e He. apply in_app_or in He. destruct He as [He|He]; [apply Hb, He|].
  rewrite (Ht e He). intros [].
Qed.

Lemma in_started c l : In c (started_containers l) -> exists i, In (ERunD i c) l.
Proof.
  unfold started_containers. intros H. apply in_flat_map in H. destruct H as (e & He & Hc).
  destruct e; try contradiction. destruct Hc as [<-|[]]. eexists; exact He.
Qed.

Lemma shape_trace_ok img m o own :
  o <> OAbort -> NoRm m -> SegOk img 1 own m -> img = 0 -> 1 <= own ->
  trace_ok (m ++ [ERmI img; ERmV img]) o 0 own = true.
Proof.
  intros Ho HN [A B C] -> Hown. unfold trace_ok.
  assert (NI : ~ In (ERmI 0) m) by (intros H; specialize (HN _ H); discriminate).
  assert (NV : ~ In (ERmV 0) m) by (intros H; specialize (HN _ H); discriminate).
  repeat (apply andb_true_intro; split).
  - destruct o; auto.
  - apply forallb_forall. intros c Hc. apply in_started in Hc. destruct Hc as (i & Hi).
    apply in_app_or in Hi. destruct Hi as [Hi|[E|[E|[]]]]; try discriminate.
    assert (Hcl : closed_in c (m ++ [ERmI 0; ERmV 0])).
    { apply closed_in_app_tail; [eapply C; eauto|]. intros e [<-|[<-|[]]]; reflexivity. }
    destruct (closed_checks _ _ Hcl) as [H1 H2]. rewrite H1, H2. reflexivity.
  - apply forallb_forall. intros i Hi. unfold images in Hi. apply in_flat_map in Hi.
    destruct Hi as (e & He & Hi). assert (i = 0).
    { apply in_app_or in He. destruct He as [He|[<-|[<-|[]]]]; [eapply B; eauto| |]; cbn in Hi; destruct Hi as [Hi|[]]; auto. }
    subst i. rewrite !count_app, (count_notin _ m NI), (count_notin _ m NV). cbn.
    change (m ++ [ERmI 0; ERmV 0]) with (m ++ ERmI 0 :: [ERmV 0]).
    rewrite (nothing_after_split (ERmI 0) _ m [ERmV 0] NI). cbn.
    replace (m ++ ERmI 0 :: [ERmV 0]) with ((m ++ [ERmI 0]) ++ ERmV 0 :: []) by (rewrite <- app_assoc; reflexivity).
    rewrite nothing_after_split; [reflexivity|].
    intros H. apply in_app_or in H. destruct H as [H|[E|[]]]; [contradiction|discriminate].
  - apply forallb_forall. intros x Hx. unfold removed_names in Hx. apply in_flat_map in Hx.
    destruct Hx as (e & He & Hx). apply Nat.ltb_lt. apply in_app_or in He.
    destruct He as [He|[<-|[<-|[]]]].
    + destruct e; try contradiction; destruct Hx as [<-|[]].
      * assert (1 <= c < own) by (apply (A (ERmC c)); [exact He|cbn; auto]). lia.
      * specialize (HN _ He). discriminate.
      * specialize (HN _ He). discriminate.
    + destruct Hx as [<-|[]]. lia.
    + destruct Hx as [<-|[]]. lia.
  - reflexivity.
Qed.

(* ---------- the main theorem ---------- *)
Theorem scenario_clean (fails : nat -> bool) cfg b :
  let '(s, o) := run_scenario fails true true cfg b in
  trace_ok (s_tr s) o (length (s_live s)) (s_next s) = true.
Proof.
  unfold run_scenario, fresh, st0. cbn [s_next s_n s_tr s_tnext s_live].
  set (s0 := mkSt 0 [] 1 0 []).
  destruct (run_build_with fails (run_tbody fails true true 0 b) 0 cfg s0) as [s o] eqn:E.
  assert (HL : LiveB s0) by (intros t []).
  destruct (build_spec fails true 0 cfg _ eq_refl (tbody_spec fails true 0 b eq_refl) s0 s o HL E) as (Hno & m & [T HN S N U L]).
  cbn in T, S, N, L. rewrite T, L. cbn [length].
  apply shape_trace_ok; auto.
Qed.

(* what the checker means *)
Theorem trace_ok_sound tr o leftover own :
  trace_ok tr o leftover own = true ->
  o <> OAbort /\
  (forall i c, In (ERunD i c) tr ->
     count_ev (ERmC c) tr = 1 /\ nothing_after (ERmC c) (uses_container c) tr = true) /\
  (forall i, In i (images tr) ->
     count_ev (ERmI i) tr = 1 /\ count_ev (ERmV i) tr = 1 /\
     nothing_after (ERmI i) (other_use_i i) tr = true /\ nothing_after (ERmV i) (other_use_i i) tr = true) /\
  (forall x, In x (removed_names tr) -> x < own) /\
  leftover = 0.
Proof.
  unfold trace_ok. intros H.
  apply andb_prop in H. destruct H as [H HE]. apply andb_prop in H. destruct H as [H HD].
  apply andb_prop in H. destruct H as [H HC]. apply andb_prop in H. destruct H as [HA HB].
  split; [destruct o; [discriminate|discriminate|discriminate]|].
  rewrite forallb_forall in HB, HC, HD.
  split; [|split; [|split]].
  - intros i c Hin. assert (Hc : In c (started_containers tr)).
    { unfold started_containers. apply in_flat_map. exists (ERunD i c). split; [exact Hin|left; reflexivity]. }
    specialize (HB c Hc). apply andb_prop in HB. destruct HB as [H3 H4]. apply Nat.eqb_eq in H3. auto.
  - intros i Hi. specialize (HC i Hi).
    apply andb_prop in HC. destruct HC as [HC H4]. apply andb_prop in HC. destruct HC as [HC H3].
    apply andb_prop in HC. destruct HC as [H1 H2]. apply Nat.eqb_eq in H1, H2. auto.
  - intros x Hx. apply Nat.ltb_lt. apply HD, Hx.
  - apply Nat.eqb_eq. exact HE.
Qed.

(* ---------- the legacy behaviours are refuted ---------- *)
(* F6: ContainerContext::drop panics while the test closure is already panicking: abort, and the
   image, the volumes and the temp dirs stay behind *)
Definition f6_body : tbody := TStep (SStart [CPanic]) TEnd.
Definition f6_fails (n : nat) : bool := Nat.eqb n 2.     (* pack build, docker run, docker rm <- fails *)

Theorem legacy_drop_aborts :
  let '(s, o) := run_scenario f6_fails false true (mkB (Some PreOk) true) f6_body in
  o = OAbort /\ count_ev (ERmI 0) (s_tr s) = 0 /\ count_ev (ERmV 0) (s_tr s) = 0 /\ length (s_live s) = 2.
Proof. vm_compute. repeat split. Qed.

Theorem repaired_drop_clean :
  let '(s, o) := run_scenario f6_fails true true (mkB (Some PreOk) true) f6_body in
  o = OPanic /\ count_ev (ERmI 0) (s_tr s) = 1 /\ count_ev (ERmV 0) (s_tr s) = 1 /\ length (s_live s) = 0.
Proof. vm_compute. repeat split. Qed.

(* creating the ContainerContext only after `docker run` succeeded would leave a container behind
   when `docker run` fails after having created it *)
Theorem late_ctx_refuted :
  let '(s, o) := run_scenario (fun n => Nat.eqb n 1) true false (mkB None true) (TStep (SStart []) TEnd) in
  trace_ok (s_tr s) o (length (s_live s)) (s_next s) = false.
Proof. vm_compute. reflexivity. Qed.
