(* Runtime.v -- executable model of libcnb/src/runtime.rs: libcnb_runtime, libcnb_runtime_detect,
   libcnb_runtime_build as a decision function from a configuration (what the lifecycle supplied
   and what the buildpack's detect/build returned) to an outcome (exit status, whether user code
   was entered, on_error calls, which outputs were written).  Exit statuses and the supported API
   are parameters (generated). *)
From LV Require Import Base.
From Coq Require Import ZArith.

Inductive exe := ExDetect | ExBuild | ExOther.
(* buildpack.toml as found in $CNB_BUILDPACK_DIR *)
Inductive desc :=
| DOk            (* valid component descriptor, supported api *)
| DApiOnlyOk     (* api readable and supported, rest does not match the descriptor format *)
| DApiOther      (* valid, but another api version *)
| DMalformed     (* not TOML / no api key *)
| DMissing.
Inductive plat := PlatOk | PlatEnvMissing | PlatBad.     (* PlatBad: an env file that is not UTF-8 *)
Inductive tomlin := InOk | InMissing | InMalformed.
Inductive det_beh := BPass | BPassPlan | BFail | BErr.
Inductive sbom_fmt := FCdx | FSpdx | FSyft.

Record build_beh := mkBB { bb_error : bool; bb_launch : bool; bb_store : bool;
                           bb_bsboms : list sbom_fmt; bb_lsboms : list sbom_fmt }.

Record cfg := mkCfg {
  c_exe : exe; c_nargs : nat; c_bpdir : bool; c_desc : desc;
  c_os : bool; c_arch : bool; c_variant : bool; c_dname : bool; c_dver : bool;
  c_plat : plat; c_plan : tomlin; c_store : tomlin;
  c_det : det_beh; c_build : build_beh;
  c_writable : bool       (* the output locations can be written *)
}.

Record codes := mkCodes { k_success : Z; k_unspecified : Z; k_api : Z; k_exe : Z; k_det_pass : Z; k_det_fail : Z }.

Record outcome := mkOut {
  o_exit : Z; o_entered : bool; o_on_error : nat;
  o_plan : bool; o_launch : bool; o_store : bool;     (* written *)
  o_bsboms : list sbom_fmt; o_lsboms : list sbom_fmt
}.

Definition out_exit (k : Z) : outcome := mkOut k false 0 false false false [] [].
Definition out_error (K : codes) (entered : bool) : outcome := mkOut (k_unspecified K) entered 1 false false false [] [].

Definition target_ok (c : cfg) : bool := c_os c && c_arch c && c_dname c && c_dver c.

Section Runtime.
  Variable K : codes.

  Definition run_detect (c : cfg) : outcome :=
    match c_desc c with
    | DOk =>
        match c_plat c with
        | PlatBad => out_error K false
        | _ =>
            if negb (target_ok c) then out_error K false
            else match c_det c with
                 | BFail => mkOut (k_det_fail K) true 0 false false false [] []
                 | BPass => mkOut (k_det_pass K) true 0 false false false [] []
                 | BPassPlan =>
                     if c_writable c then mkOut (k_det_pass K) true 0 true false false [] []
                     else out_error K true
                 | BErr => out_error K true
                 end
        end
    | _ => out_error K false          (* full descriptor does not parse *)
    end.

  Definition run_build (c : cfg) : outcome :=
    match c_desc c with
    | DOk =>
        match c_plat c with
        | PlatBad => out_error K false
        | _ =>
            match c_plan c with
            | InOk =>
                match c_store c with
                | InMalformed => out_error K false
                | _ =>
                    if negb (target_ok c) then out_error K false
                    else
                      let b := c_build c in
                      if bb_error b then out_error K true
                      else
                        let any_output := bb_launch b || bb_store b || negb (is_empty (bb_bsboms b)) || negb (is_empty (bb_lsboms b)) in
                        if negb (c_writable c) && any_output then out_error K true
                        else mkOut (k_success K) true 0 false (bb_launch b) (bb_store b) (bb_bsboms b) (bb_lsboms b)
                end
            | _ => out_error K false
            end
        end
    | _ => out_error K false
    end.

  Definition api_gate (c : cfg) : bool :=
    c_bpdir c && match c_desc c with DOk | DApiOnlyOk => true | _ => false end.

  Definition runtime (c : cfg) : outcome :=
    if negb (api_gate c) then out_exit (k_api K)
    else match c_exe c with
         | ExOther => out_exit (k_exe K)
         | ExDetect => if Nat.eqb (c_nargs c) 2 then run_detect c else out_exit (k_unspecified K)
         | ExBuild => if Nat.eqb (c_nargs c) 3 then run_build c else out_exit (k_unspecified K)
         end.
End Runtime.

Definition spec_codes : codes := mkCodes 0 1 254 255 0 100.

(* boolean equalities for case evaluation *)
Definition fmt_eqb (a b : sbom_fmt) : bool :=
  match a, b with FCdx, FCdx | FSpdx, FSpdx | FSyft, FSyft => true | _, _ => false end.
Definition fmts_same (a b : list sbom_fmt) : bool :=
  forallb (fun x => existsb (fmt_eqb x) b) a && forallb (fun x => existsb (fmt_eqb x) a) b.
Definition outcome_eqb (a b : outcome) : bool :=
  Z.eqb (o_exit a) (o_exit b) && Bool.eqb (o_entered a) (o_entered b) && Nat.eqb (o_on_error a) (o_on_error b) &&
  Bool.eqb (o_plan a) (o_plan b) && Bool.eqb (o_launch a) (o_launch b) && Bool.eqb (o_store a) (o_store b) &&
  fmts_same (o_bsboms a) (o_bsboms b) && fmts_same (o_lsboms a) (o_lsboms b).
