(* LayerTrait.v -- executable model of the trait-based layer API (libcnb/src/layer/trait_api/
   handling.rs: handle_layer, handle_create_layer, handle_update_layer, write_layer, read_layer)
   over the abstract layers directory of LayerStore.v.  The callbacks of the Layer trait are data:
   what each of them decides / returns, plus the plain files create/update put into the layer. *)
From LV Require Import Base Toml FS LayerEnv LayerShared LayerEnvFS SpecDocs LayerStore.
Open Scope N_scope.
Open Scope list_scope.

Record lresult := mkRes {
  r_md : md;                                     (* LayerResult::metadata, serialised *)
  r_env : option (list ins);                     (* LayerResult::env *)
  r_execd : list (bytes * option (N * bytes));   (* exec_d_programs: name -> source file (mode, data) *)
  r_sboms : list (nat * bytes);
  r_files : list (path * bytes)                  (* files the callback writes below the layer dir *)
}.

Inductive cb_result := CErr | COk (r : lresult).
Inductive strat_dec := DKeep | DUpdate | DRecreate | DErrStrategy.
Inductive mig_dec := GRecreate | GReplace (x : md) | GErr.

Record tlayer := mkTL {
  tl_types : ltypes; tl_m : mty; tl_strategy : strat_dec; tl_migrate : mig_dec;
  tl_create : cb_result; tl_update : cb_result
}.

Inductive tcall :=
| TCreate (dir_empty : bool)
| TStrategy (x : md)
| TUpdate (x : md)
| TMigrate (x : md).

Record tdata := mkData { d_types : option ltypes; d_md : md; d_env : layer_env }.

Inductive tread := TNone | TSome (ty : option ltypes) (x : md) (e : layer_env) | TParse | TIo.

Section Trait.
  Variable rm_sboms : bool.
  Variable keep_refreshes_only : bool.   (* F9 repaired: Keep only rewrites the types *)
  Variable sfx : list bytes.
  Variable order : list beh.
  Variable wtab : writer_table.
  Variable rtab : reader_table.
  Variable no_ext : option beh.
  Variable path_rows : list (bytes * scope_kind * bytes).
  Variable sep : bytes.
  Variable reads_process : bool.

  Definition read_env (d : fs) : result errno layer_env :=
    snd (read_from_layer_dir rtab no_ext path_rows sep reads_process [] d).

  (* trait_api::handling::read_layer *)
  Definition t_read (m : mty) (n : bytes) (st : store) : store * tread :=
    match read_layer m n st with
    | (st1, RNone) => (st1, TNone)
    | (st1, RSome ty x) =>
        match l_dir (lget n st1) with
        | Some d => match read_env d with Ok e => (st1, TSome ty x e) | Err _ => (st1, TIo) end
        | None => (st1, TIo)
        end
    | (st1, RParseErr) => (st1, TParse)
    | (st1, RIoErr) => (st1, TIo)
    end.

  (* trait_api::handling::write_layer *)
  Definition t_write (n : bytes) (e : layer_env) (ty : option ltypes) (x : md)
             (execd : option (list (bytes * option (N * bytes)))) (sboms : option (list (nat * bytes)))
             (st : store) : store * result herr unit :=
    let st1 := write_layer n ty x st in
    match on_dir n (write_to_layer_dir order wtab e []) EWriteIo (fun _ => EWriteIo) st1 with
    | (st2, Err e1) => (st2, Err e1)
    | (st2, Ok _) =>
        match (match sboms with Some sb => replace_layer_sboms sfx n sb st2 | None => (st2, Ok tt) end) with
        | (st3, Err e2) => (st3, Err e2)
        | (st3, Ok _) =>
            match execd with Some p => replace_layer_exec_d n p st3 | None => (st3, Ok tt) end
        end
    end.

  Definition apply_files (n : bytes) (files : list (path * bytes)) (st : store) : store :=
    fold_left (fun s f => fst (on_dir n (file_fs (fst f) (snd f)) EWriteIo (fun _ => EWriteIo) s)) files st.

  Definition dir_is_empty (n : bytes) (st : store) : bool :=
    match l_dir (lget n st) with Some d => match children [] d with [] => true | _ => false end | None => false end.

  Definition env_of_result (r : lresult) : layer_env :=
    match r_env r with Some l => le_of_inserts l | None => le_empty end.

  Definition finish (m : mty) (n : bytes) (st : store) : store * result herr tdata :=
    match t_read m n st with
    | (st', TSome ty x e) => (st', Ok (mkData ty x e))
    | (st', TNone) => (st', Err EAfterCreate)
    | (st', _) => (st', Err EReadLayer)
    end.

  (* handle_create_layer *)
  Definition t_create (L : tlayer) (n : bytes) (st : store) : store * list tcall * result herr tdata :=
    let l := lget n st in
    let st1 := lset n (mkLay (Some (match l_dir l with Some d => d | None => fresh_dir end)) (l_toml l) (l_sboms l)) st in
    let call := TCreate (dir_is_empty n st1) in
    match tl_create L with
    | CErr => (st1, [call], Err EBuildpack)
    | COk r =>
        let st2 := apply_files n (r_files r) st1 in
        match t_write n (env_of_result r) (Some (tl_types L)) (r_md r) (Some (r_execd r)) (Some (r_sboms r)) st2 with
        | (st3, Err e) => (st3, [call], Err e)
        | (st3, Ok _) => let '(st4, res) := finish (tl_m L) n st3 in (st4, [call], res)
        end
    end.

  (* handle_update_layer *)
  Definition t_update (L : tlayer) (n : bytes) (x : md) (st : store) : store * list tcall * result herr tdata :=
    match tl_update L with
    | CErr => (st, [TUpdate x], Err EBuildpack)
    | COk r =>
        let st2 := apply_files n (r_files r) st in
        match t_write n (env_of_result r) (Some (tl_types L)) (r_md r) (Some (r_execd r)) (Some (r_sboms r)) st2 with
        | (st3, Err e) => (st3, [TUpdate x], Err e)
        | (st3, Ok _) => let '(st4, res) := finish (tl_m L) n st3 in (st4, [TUpdate x], res)
        end
    end.

  Fixpoint t_handle (fuel : nat) (L : tlayer) (n : bytes) (st : store) : store * list tcall * result herr tdata :=
    match t_read (tl_m L) n st with
    | (st1, TNone) => t_create L n st1
    | (st1, TSome ty x e) =>
        match tl_strategy L with
        | DErrStrategy => (st1, [TStrategy x], Err EBuildpack)
        | DRecreate =>
            let '(st2, calls, r) := t_create L n (delete_layer rm_sboms n st1) in (st2, TStrategy x :: calls, r)
        | DUpdate =>
            let '(st2, calls, r) := t_update L n x st1 in (st2, TStrategy x :: calls, r)
        | DKeep =>
            match (if keep_refreshes_only then replace_layer_types n (tl_types L) st1
                   else t_write n e (Some (tl_types L)) (proj_md (tl_m L) x) None None st1) with
            | (st2, Err er) => (st2, [TStrategy x], Err er)
            | (st2, Ok _) => let '(st3, res) := finish (tl_m L) n st2 in (st3, [TStrategy x], res)
            end
        end
    | (st1, TParse) =>
        match t_read MG n st1 with
        | (st2, TSome gty gx ge) =>
            match tl_migrate L with
            | GErr => (st2, [TMigrate gx], Err EBuildpack)
            | GRecreate =>
                match fuel with
                | O => (st2, [TMigrate gx], Err EFuelH)
                | S f => let '(st3, calls, r) := t_handle f L n (delete_layer rm_sboms n st2) in (st3, TMigrate gx :: calls, r)
                end
            | GReplace x' =>
                match t_write n ge gty x' None None st2 with
                | (st3, Err er) => (st3, [TMigrate gx], Err er)
                | (st3, Ok _) =>
                    match fuel with
                    | O => (st3, [TMigrate gx], Err EFuelH)
                    | S f => let '(st4, calls, r) := t_handle f L n st3 in (st4, TMigrate gx :: calls, r)
                    end
                end
            end
        | (st2, TNone) => (st2, [], Err EMissingLayer)
        | (st2, TParse) => (st2, [], Err EReadLayer)
        | (st2, TIo) => (st2, [], Err EReadLayer)
        end
    | (st1, TIo) => (st1, [], Err EReadLayer)
    end.
End Trait.
