(* Props/C14.v -- property theorems for C14 only. *)
From LV Require Import Base FS Regex PkgDesc PkgDescFacts.

(* each relative path becomes the absolute path it denotes: the pop-on-".." stack machine of
   normalize_path equals the lexical denotation with the root as its own parent *)
Theorem c14_relative_absolutised : forall cs, normalize_comps cs = denote cs.
Proof. exact normalize_denotes. Qed.
Print Assumptions c14_relative_absolutised.

Theorem c14_dot_free : forall s, Forall (fun c => plain c = true) (normalize_comps (components s)).
Proof. exact normalized_is_dot_free. Qed.
Print Assumptions c14_dot_free.

Theorem c14_idempotent : forall s, normalize_comps (normalize_comps (components s)) = normalize_comps (components s).
Proof. exact normalize_idempotent. Qed.
Print Assumptions c14_idempotent.

(* number and order of the dependencies preserved, each the image of its own entry *)
Theorem c14_shape :
  forall id_ok paths parent l r,
    normalize_deps id_ok paths parent l = Ok r ->
    Forall2 (fun u v => normalize_dep id_ok paths parent u = Ok v) l r.
Proof. exact deps_shape. Qed.
Print Assumptions c14_shape.

(* an entry that cannot be normalised makes the whole call fail: nothing is silently dropped *)
Theorem c14_error_iff :
  forall id_ok paths parent l,
    (exists e, normalize_deps id_ok paths parent l = Err e) <->
    (exists u e, In u l /\ normalize_dep id_ok paths parent u = Err e).
Proof. exact deps_error_iff. Qed.
Print Assumptions c14_error_iff.

Theorem c14_libcnb_replaced :
  forall id_ok paths parent u id,
    classify u = ULibcnb id ->
    normalize_dep id_ok paths parent u =
      if negb (id_ok id) then Err (EInvalidId id)
      else match lookup_path id paths with
           | None => Err (EMissingPath id)
           | Some p => Ok (match classify p with UPath q => absolutize parent q | _ => p end)
           end.
Proof. exact libcnb_replaced. Qed.
Print Assumptions c14_libcnb_replaced.

Theorem c14_others_verbatim :
  forall id_ok paths parent u, classify u = UOther -> normalize_dep id_ok paths parent u = Ok u.
Proof. exact others_verbatim. Qed.
Print Assumptions c14_others_verbatim.

Theorem c14_path_absolutised :
  forall id_ok paths parent u p, classify u = UPath p ->
    normalize_dep id_ok paths parent u =
      Ok (if is_abs p then p else render_abs (denote (components (parent ++ [47] ++ p)))).
Proof. exact path_absolutized. Qed.
Print Assumptions c14_path_absolutised.

Example c14_nonvacuous :
  let parent := [47; 119; 47; 109] in     (* /w/m *)
  normalize_deps (fun _ => true) [([97; 47; 98], [47; 111; 47; 120])] parent
    [ [108; 105; 98; 99; 110; 98; 58; 97; 47; 98];        (* libcnb:a/b *)
      [46; 46; 47; 46; 46; 47; 46; 46; 47; 122];          (* ../../../z : climbs above the root *)
      [46; 47; 120; 47; 47; 46; 46; 47; 121];             (* ./x//../y *)
      [100; 111; 99; 107; 101; 114; 58; 47; 47; 105] ]    (* docker://i *)
  = Ok [ [47; 111; 47; 120]; [47; 122]; [47; 119; 47; 109; 47; 121]; [100; 111; 99; 107; 101; 114; 58; 47; 47; 105] ].
Proof. vm_compute. reflexivity. Qed.
