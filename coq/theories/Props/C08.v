(* Props/C08.v -- property theorems for C08 only. *)
From LV Require Import Base Toml Serde SerdeFacts SpecDocs.
From LVGen Require Import GenSerde.
From Coq Require Import String.
Open Scope string_scope.

(* what the derive attributes say now = the spec's formats: keys, kinds, required-ness, defaults,
   deny_unknown_fields, variant order of the untagged descriptor *)
Theorem c08_schemas_match_spec :
  s_BuildpackDescriptor (TyOption TyTable) = spec_BuildpackDescriptor /\
  s_BuildpackPlan = spec_BuildpackPlan /\
  s_LayerContentMetadata (TyOption TyTable) = spec_LayerContentMetadata spec_metadata /\
  s_Launch = spec_Launch /\ s_Store = spec_Store /\ s_PackageDescriptor = spec_PackageDescriptor /\
  working_directory_shape_ok = true.
Proof. repeat split; reflexivity. Qed.
Print Assumptions c08_schemas_match_spec.

Theorem c08_all_strict :
  forallb strict_everywhere
    [ s_BuildpackDescriptor (TyOption TyTable); s_BuildpackPlan; s_LayerContentMetadata (TyOption TyTable);
      s_Launch; s_Store; s_PackageDescriptor ] = true.
Proof. reflexivity. Qed.
Print Assumptions c08_all_strict.

(* generic, for EVERY schema, validator table and document *)
Theorem c08_unknown_key_rejected :
  forall vf sq fields kvs k,
    In k (tkeys kvs) -> (forall f, In f fields -> f_key f <> k) ->
    decode vf sq (TyStruct true fields) (TTbl kvs) = None.
Proof. exact unknown_key_rejected. Qed.
Print Assumptions c08_unknown_key_rejected.

Theorem c08_missing_required_rejected :
  forall vf sq deny fields kvs f,
    In f fields -> f_default f = None -> is_option_ty (f_ty f) = false -> tget (f_key f) kvs = None ->
    decode vf sq (TyStruct deny fields) (TTbl kvs) = None.
Proof. exact missing_required_rejected. Qed.
Print Assumptions c08_missing_required_rejected.

Theorem c08_wrong_kind_rejected :
  forall vf sq,
    (forall v, (forall s, v <> TStr s) -> decode vf sq TyString v = None) /\
    (forall v, (forall b, v <> TBool b) -> decode vf sq TyBool v = None) /\
    (forall v, (forall z, v <> TInt z) -> decode vf sq TyInt v = None) /\
    (forall i v, (forall s, v <> TStr s) -> decode vf sq (TyValidated i) v = None) /\
    (forall t v, (forall l, v <> TArr l) -> decode vf sq (TyVec t) v = None) /\
    (forall t v, (forall l, v <> TArr l) -> decode vf sq (TySet t) v = None) /\
    (forall v, (forall l, v <> TTbl l) -> decode vf sq TyTable v = None) /\
    (forall d fs v, (forall l, v <> TTbl l) -> (sq = false \/ forall l, v <> TArr l) -> decode vf sq (TyStruct d fs) v = None) /\
    (forall ns v, (forall s, v <> TStr s) -> decode vf sq (TyUnitEnum ns) v = None).
Proof. exact wrong_kind_rejected. Qed.
Print Assumptions c08_wrong_kind_rejected.

(* accepted => only declared keys; every present key decoded to exactly its value; every omitted
   optional key took the declared default (None for Option) *)
Theorem c08_accepted_exact :
  forall vf sq deny fields kvs vals,
    decode vf sq (TyStruct deny fields) (TTbl kvs) = Some (VRec vals) ->
    (deny = true -> forall k, In k (tkeys kvs) -> exists f, In f fields /\ f_key f = k) /\
    forall f, In f fields ->
      match tget (f_key f) kvs with
      | Some x => exists a, decode vf sq (f_ty f) x = Some a /\ In (f_key f, a) vals
      | None => if is_option_ty (f_ty f) then In (f_key f, VOpt None) vals
                else exists d, f_default f = Some d /\ In (f_key f, d) vals
      end.
Proof. exact accepted_exact. Qed.
Print Assumptions c08_accepted_exact.

(* classification of buildpack.toml: with an `order` key it can only be a composite buildpack,
   without it only a component; `order` together with `targets` or `stacks` is rejected *)
Theorem c08_classify :
  forall vf sq kvs,
    let d := decode vf sq (s_BuildpackDescriptor (TyOption TyTable)) (TTbl kvs) in
    (In (b "order") (tkeys kvs) -> forall x, d <> Some (VAlt 0 x)) /\
    (tget (b "order") kvs = None -> forall x, d <> Some (VAlt 1 x)) /\
    (In (b "order") (tkeys kvs) -> In (b "targets") (tkeys kvs) \/ In (b "stacks") (tkeys kvs) -> d = None).
Proof.
  intros vf sq kvs d. unfold d.
  assert (Comp : In (b "order") (tkeys kvs) ->
                 decode vf sq (s_ComponentBuildpackDescriptor (TyOption TyTable)) (TTbl kvs) = None).
  { intros I. apply (unknown_key_rejected vf sq _ kvs (b "order") I).
    intros f If E. cbn in If. repeat (destruct If as [<-|If]; [vm_compute in E; discriminate|]). destruct If. }
  assert (Cpo : tget (b "order") kvs = None ->
                decode vf sq (s_CompositeBuildpackDescriptor (TyOption TyTable)) (TTbl kvs) = None).
  { intros G. apply (missing_required_rejected vf sq true _ kvs (req "order" (TyVec s_Order))); try reflexivity; [|exact G].
    cbn. right. right. left. reflexivity. }
  assert (Cpt : In (b "targets") (tkeys kvs) \/ In (b "stacks") (tkeys kvs) ->
                decode vf sq (s_CompositeBuildpackDescriptor (TyOption TyTable)) (TTbl kvs) = None).
  { intros [I|I]; [apply (unknown_key_rejected vf sq _ kvs (b "targets") I)|apply (unknown_key_rejected vf sq _ kvs (b "stacks") I)];
      intros f If E; cbn in If; repeat (destruct If as [<-|If]; [vm_compute in E; discriminate|]); destruct If. }
  unfold s_BuildpackDescriptor. cbn [decode].
  repeat split.
  - intros I x. rewrite (Comp I). destruct (decode vf sq (s_CompositeBuildpackDescriptor _) _); discriminate.
  - intros G x. rewrite (Cpo G). destruct (decode vf sq (s_ComponentBuildpackDescriptor _) _); discriminate.
  - intros I1 I2. now rewrite (Comp I1), (Cpt I2).
Qed.
Print Assumptions c08_classify.

(* FINDING F7 (known, not repaired): serde derive accepts a sequence wherever a struct is expected.
   With the faithful model (sq = true) "a value of the wrong kind makes parsing fail" is false:
   `types = []` reads as all-false layer types, `types = [true]` as launch = true, and a label
   may be written as an array ["k", "v", "ignored"]. *)
Theorem c08_struct_accepts_array_refuted :
  decode spec_vf true (s_LayerContentMetadata (TyOption TyTable)) (TTbl [(b "types", TArr [])])
    = Some (VRec [(b "types", VOpt (Some (VRec [(b "launch", VBool false); (b "build", VBool false); (b "cache", VBool false)])));
                  (b "metadata", VOpt None)]) /\
  decode spec_vf true s_LayerTypes (TArr [TBool true]) =
    Some (VRec [(b "launch", VBool true); (b "build", VBool false); (b "cache", VBool false)]) /\
  decode spec_vf true s_Label (TArr [TStr (b "k"); TStr (b "v"); TStr (b "ignored")]) =
    Some (VRec [(b "key", VStr (b "k")); (b "value", VStr (b "v"))]) /\
  decode spec_vf false (s_LayerContentMetadata (TyOption TyTable)) (TTbl [(b "types", TArr [])]) = None.
Proof. vm_compute. repeat split. Qed.
Print Assumptions c08_struct_accepts_array_refuted.

Example c08_nonvacuous :
  decode spec_vf false (s_LayerContentMetadata (TyOption TyTable))
         (TTbl [(b "types", TTbl [(b "launch", TBool true)]); (b "metadata", TTbl [(b "k", TStr (b "v"))])])
  = Some (VRec [(b "types", VOpt (Some (VRec [(b "launch", VBool true); (b "build", VBool false); (b "cache", VBool false)])));
                (b "metadata", VOpt (Some (VTbl [(b "k", TStr (b "v"))])))]) /\
  decode spec_vf false (s_LayerContentMetadata (TyOption TyTable)) (TTbl [(b "typos", TTbl [])]) = None.
Proof. vm_compute. split; reflexivity. Qed.
