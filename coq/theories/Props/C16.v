(* Props/C16.v -- property theorems for C16 only. *)
From LV Require Import Base TestRun TestRunFacts.
From LV.Checks Require Import C16Hold C16Agree.
From LVGen Require Import GenLibcnbTest.
Open Scope nat_scope.

Theorem c16_tables :
  C16Agree.shape_ok = true /\ gen_container_drop_repaired = true /\ gen_early_container_context = true.
Proof. repeat split; reflexivity. Qed.
Print Assumptions c16_tables.

(* every scenario tree, every failure oracle on the external commands *)
Theorem c16_scenario_clean :
  forall (fails : nat -> bool) cfg body,
    let '(s, o) := run_scenario fails gen_container_drop_repaired gen_early_container_context cfg body in
    trace_ok (s_tr s) o (length (s_live s)) (s_next s) = true.
Proof. exact scenario_clean. Qed.
Print Assumptions c16_scenario_clean.

(* what the judgement means *)
Theorem c16_trace_ok_meaning :
  forall tr o leftover own, trace_ok tr o leftover own = true ->
    o <> OAbort /\
    (forall i c, In (ERunD i c) tr ->
       count_ev (ERmC c) tr = 1 /\ nothing_after (ERmC c) (uses_container c) tr = true) /\
    (forall i, In i (images tr) ->
       count_ev (ERmI i) tr = 1 /\ count_ev (ERmV i) tr = 1 /\
       nothing_after (ERmI i) (other_use_i i) tr = true /\ nothing_after (ERmV i) (other_use_i i) tr = true) /\
    (forall x, In x (removed_names tr) -> x < own) /\
    leftover = 0.
Proof. exact trace_ok_sound. Qed.
Print Assumptions c16_trace_ok_meaning.

(* F6: the Drop that panics while panicking aborts and leaks; the repaired one does not *)
Theorem c16_legacy_drop_aborts :
  let '(s, o) := run_scenario f6_fails false true (mkB (Some PreOk) true) f6_body in
  o = OAbort /\ count_ev (ERmI 0) (s_tr s) = 0 /\ count_ev (ERmV 0) (s_tr s) = 0 /\ length (s_live s) = 2.
Proof. exact legacy_drop_aborts. Qed.
Print Assumptions c16_legacy_drop_aborts.

Theorem c16_late_context_refuted :
  let '(s, o) := run_scenario (fun n => Nat.eqb n 1) true false (mkB None true) (TStep (SStart []) TEnd) in
  trace_ok (s_tr s) o (length (s_live s)) (s_next s) = false.
Proof. exact late_ctx_refuted. Qed.
Print Assumptions c16_late_context_refuted.

(* non-vacuity: a scenario with a rebuild, a failing command and panics is judged clean *)
Example c16_nonvacuous :
  let body := TStep (SStart [CLogsNow; CPort]) (TStep (SSbom false)
                (TRebuild (mkB (Some PreOk) false) (TStep SShell (TStep (SStart [CPanic]) TEnd)) true)) in
  let '(s, o) := run_scenario (fun n => Nat.eqb n 6 || Nat.eqb n 9) true true (mkB None true) body in
  o = OPanic /\ length (s_tr s) = 12 /\ s_live s = [].
Proof. vm_compute. repeat split. Qed.
