(* Props/C11.v -- property theorems for C11 only. *)
From LV Require Import Base FS FSFacts LayerShared LayerSharedFacts LayerSharedGone LayerSharedTotal.
From LV Require Import ImpPrims ImpTypes.
From LVGen Require Import GenLayerShared GenLayerSharedImp.
From LV Require LayerSbomsFacts ReadLayerFacts Determinism RecreateModelFacts KeepModelFacts.
From LV.Checks Require C11Hold C11Agree.

Theorem c11_tables :
  rdr_checks_symlink = true /\ delete_layer_removes_sboms = true /\
  rdr_chmod_0777 = true /\ rdr_entry_type_no_follow = true /\ rdr_ends_with_rmdir = true /\
  default_on_not_found_shape_ok = true /\ delete_layer_removes_dir = true /\
  delete_layer_removes_toml = true /\ sbom_path_shape_ok = true /\
  sbom_suffixes = spec_sbom_suffixes /\ sbom_formats_all_have_suffix = true.
Proof. repeat split; reflexivity. Qed.
Print Assumptions c11_tables.

Definition suffix_of (f : sbom_format) : bytes :=
  match f with
  | CycloneDxJson => [99; 100; 120; 46; 106; 115; 111; 110]
  | SpdxJson => [115; 112; 100; 120; 46; 106; 115; 111; 110]
  | SyftJson => [115; 121; 102; 116; 46; 106; 115; 111; 110]
  end.

Lemma bind_ret_tt (m : M unit) s : (m ;;; ret tt) s = m s.
Proof. unfold bindM, ret. destruct (m s) as [s' [[]|e]]; reflexivity. Qed.

Lemma bindM_ext (m1 m2 k1 k2 : M unit) s :
  m1 s = m2 s -> (forall s', k1 s' = k2 s') -> (m1 ;;; k1) s = (m2 ;;; k2) s.
Proof. intros H K. unfold bindM. rewrite H. destruct (m2 s) as [s' [u|e]]; [apply K|reflexivity]. Qed.

Lemma iterM_ext {A} (f g : A -> M unit) l : (forall x s, f x s = g x s) -> forall s, iterM f l s = iterM g l s.
Proof.
  intros H. induction l as [|x l IH]; intros s; cbn [iterM]; [reflexivity|].
  unfold bindM. rewrite H. destruct (g x s) as [s' [u|e]]; [apply IH|reflexivity].
Qed.

Lemma iterM_map {A B} (h : A -> B) (f : B -> M unit) l s : iterM f (map h l) s = iterM (fun x => f (h x)) l s.
Proof.
  revert s. induction l as [|x l IH]; intros s; cbn [map iterM]; [reflexivity|].
  unfold bindM. destruct (f (h x) s) as [s' [u|e]]; [apply IH|reflexivity].
Qed.

(* shared::delete_layer, sbom::cnb_sbom_path and SBOM_FORMATS as the translator reads them from the source
   statement by statement (imp.rs, result monad -> GenLayerSharedImp.v) ARE the model's delete_layer (with
   both repairs): the frame / gone / completeness theorems below are about the code's own statements,
   re-derived from /repo on every run.  remove_dir_recursively itself stays a hand-written model (rdr)
   tied by the shape facts of c11_tables and by correspondence. *)
Theorem c11_delete_layer_regenerated :
  map suffix_of SBOM_FORMATS = spec_sbom_suffixes /\
  forall layers n s, gen_delete_layer layers n s = delete_layer true true spec_sbom_suffixes layers n s.
Proof.
  split; [reflexivity|]. intros layers n s. unfold gen_delete_layer, delete_layer.
  change spec_sbom_suffixes with (map suffix_of SBOM_FORMATS).
  apply bindM_ext; [reflexivity|]. intros s1.
  apply bindM_ext; [reflexivity|]. intros s2.
  rewrite bind_ret_tt, iterM_map. apply iterM_ext. intros f s3. rewrite bind_ret_tt.
  destruct f; reflexivity.
Qed.
Print Assumptions c11_delete_layer_regenerated.



(* remove_dir_recursively: whatever the tree below [d] looks like -- nested read-only or
   non-executable directories, symlinks to files or directories anywhere, dangling or cyclic
   links, [d] itself a symlink -- and whether or not the call succeeds, every path that is not
   below [d] keeps its kind, content, mode and link target. *)
Theorem c11_rdr_outside_untouched :
  forall fuel d s s' r,
    valid_path d -> valid_fs s -> real_dirs s [] d ->
    remove_dir_recursively rdr_checks_symlink fuel d s = (s', r) ->
    forall q, is_prefix d q = false -> pget q s' = pget q s.
Proof.
  intros fuel d s s' r Vd Vs R H.
  exact (proj1 (rdr_frame true fuel d s s' r Vd Vs R (or_introl eq_refl) H)).
Qed.
Print Assumptions c11_rdr_outside_untouched.

(* the layer is gone: when the removal reports success, nothing at or below the directory remains --
   for every parent-closed file system, tree shape, permission assignment and symlink placement *)
Theorem c11_rdr_gone :
  forall fuel d s s',
    valid_path d -> valid_fs s -> real_dirs s [] d -> parent_closed s ->
    remove_dir_recursively rdr_checks_symlink fuel d s = (s', Ok tt) ->
    parent_closed s' /\ forall r, pget (d ++ r) s' = None.
Proof.
  intros fuel d s s' Vd Vs R PC H.
  exact (rdr_gone true fuel d s s' Vd Vs R PC (or_introl eq_refl) H).
Qed.
Print Assumptions c11_rdr_gone.

Theorem c11_delete_layer_tree_gone :
  forall layers n s s1 s',
    valid_path layers -> valid_name n = true -> valid_fs s -> real_dirs s [] (layers ++ [n]) -> parent_closed s ->
    remove_dir_recursively true (rdr_fuel s) (layers ++ [n]) s = (s1, Ok tt) ->
    delete_layer rdr_checks_symlink delete_layer_removes_sboms sbom_suffixes layers n s = (s', Ok tt) ->
    forall r, pget (layers ++ [n] ++ r) s' = None.
Proof.
  intros layers n s s1 s' Vl Vn Vf R PC HR H.
  apply (delete_layer_tree_gone sbom_suffixes layers n s s1 s' Vl Vn); try assumption.
  repeat constructor.
Qed.
Print Assumptions c11_delete_layer_tree_gone.

(* remove_dir_recursively SUCCEEDS on every tree: permissions and symlinks INSIDE the tree never make
   it fail (it chmods each directory before descending, unlinks links without following them);
   what is needed lies outside the tree: the ancestors can be searched, the parent written *)
Theorem c11_rdr_total :
  forall fuel d s,
    valid_path d -> d <> [] -> valid_fs s -> parent_closed s ->
    searchable s d -> parent_wx s d ->
    (exists m, pget d s = Some (Dir m)) \/ (exists t, pget d s = Some (Link t)) ->
    deep_enough fuel d s ->
    exists s', remove_dir_recursively rdr_checks_symlink fuel d s = (s', Ok tt).
Proof. exact rdr_total. Qed.
Print Assumptions c11_rdr_total.

(* the fuel delete_layer passes is always enough *)
Theorem c11_fuel_enough : forall s d, parent_closed s -> deep_enough (rdr_fuel s) d s.
Proof. exact rdr_fuel_enough. Qed.
Print Assumptions c11_fuel_enough.

(* C11 complete for delete_layer: in a well-formed file system whose layers directory is reachable,
   searchable and writable, for a layer path that is absent, a directory (with ANY tree below it) or
   a symlink (to anything), and with <name>.toml / SBOM paths that are not directories: the call
   SUCCEEDS, afterwards nothing at or below <layers>/<name> exists, and every path that is not the
   layer's own is exactly as before. *)
Theorem c11_delete_layer_complete :
  forall layers n s,
    valid_path layers -> valid_name n = true -> valid_fs s -> parent_closed s -> layers_ok s layers ->
    (pget (layers ++ [n]) s = None \/ (exists m, pget (layers ++ [n]) s = Some (Dir m)) \/ (exists t, pget (layers ++ [n]) s = Some (Link t))) ->
    (forall m, pget (layers ++ [toml_name n]) s <> Some (Dir m)) ->
    (forall sx m, In sx sbom_suffixes -> pget (layers ++ [sbom_name n sx]) s <> Some (Dir m)) ->
    exists s', delete_layer rdr_checks_symlink delete_layer_removes_sboms sbom_suffixes layers n s = (s', Ok tt) /\
               (forall r, pget (layers ++ [n] ++ r) s' = None) /\
               (forall q, owned sbom_suffixes layers n q = false -> pget q s' = pget q s).
Proof.
  intros layers n s Vl Vn Vf PC LO HL NDt NDs.
  apply (delete_layer_complete sbom_suffixes layers n s Vl Vn); try assumption. repeat constructor.
Qed.
Print Assumptions c11_delete_layer_complete.

(* delete_layer: only <layers>/<name>/**, <layers>/<name>.toml and the layer's SBOM files *)
Theorem c11_outside_untouched :
  forall layers n s s' r,
    valid_path layers -> valid_name n = true -> valid_fs s -> real_dirs s [] (layers ++ [n]) ->
    delete_layer rdr_checks_symlink delete_layer_removes_sboms sbom_suffixes layers n s = (s', r) ->
    forall q, owned sbom_suffixes layers n q = false -> pget q s' = pget q s.
Proof.
  intros layers n s s' r Vl Vn Vs R H.
  apply (delete_layer_frame sbom_suffixes layers n s s' r); try assumption.
  repeat constructor.
Qed.
Print Assumptions c11_outside_untouched.

Theorem c11_frame_oracle_correct :
  forall owned pre post,
    frame_chk owned pre post = true <-> forall q, owned q = false -> pget q post = pget q pre.
Proof. exact frame_chk_correct. Qed.
Print Assumptions c11_frame_oracle_correct.

(* finding F4: the code as found chmods and empties the target of a top-level symlink *)
Theorem c11_toplevel_symlink_legacy_refuted :
  let '(s', _) := delete_layer false false spec_sbom_suffixes [[108]] [121] f4_fs in
  pget [[111]; [102]] s' = None /\ pget [[111]] s' = Some (Dir 511) /\
  (let '(s2, r2) := delete_layer true true spec_sbom_suffixes [[108]] [121] f4_fs in
   pget [[111]; [102]] s2 = Some (File 420 (Raw [1])) /\ pget [[111]] s2 = Some (Dir 365) /\
   pget [[108]; [121]] s2 = None /\ r2 = Ok tt).
Proof. exact toplevel_symlink_legacy_refuted. Qed.
Print Assumptions c11_toplevel_symlink_legacy_refuted.

(* Non-vacuity: the hypotheses hold for a concrete tree with a read-only nested directory, an
   outside symlink and a sibling, and the call succeeds on it. *)
Example c11_nonvacuous :
  let s := [ ([], Dir 493); ([[108]], Dir 493); ([[108]; [120]], Dir 365);
             ([[108]; [120]; [100]], Dir 0); ([[108]; [120]; [107]], Link [46; 46; 47; 121]);
             ([[108]; [121]], Dir 493); ([[108]; [121]; [102]], File 420 (Raw [7]));
             ([[108]; [120; 46; 116; 111; 109; 108]], File 420 (Raw [])) ] in
  valid_path [[108]] /\ valid_name [120] = true /\
  fst (delete_layer true true spec_sbom_suffixes [[108]] [120] s) =
    [ ([], Dir 493); ([[108]], Dir 493); ([[108]; [121]], Dir 493); ([[108]; [121]; [102]], File 420 (Raw [7])) ] /\
  snd (delete_layer true true spec_sbom_suffixes [[108]] [120] s) = Ok tt.
Proof. cbn zeta. split; [repeat constructor|]. split; [reflexivity|]. vm_compute. split; reflexivity. Qed.

(* the hypotheses of c11_delete_layer_complete are satisfiable by a hostile layer: /l/x is a mode-000
   directory holding a file, a nested read-only directory and a symlink leading out of the layer *)
Definition ex_hostile : fs :=
  [ ([], Dir 493); ([[108]], Dir 493); ([[108]; [120]], Dir 0);
    ([[108]; [120]; [102]], File 0 (Raw [1]));
    ([[108]; [120]; [100]], Dir 365); ([[108]; [120]; [100]; [103]], File 292 (Raw []));
    ([[108]; [120]; [107]], Link [47; 101; 116; 99]);
    ([[108]; [120; 46; 116; 111; 109; 108]], File 420 (Raw [])) ].

Example c11_complete_nonvacuous :
  valid_path [[108]] /\ valid_name [120] = true /\ valid_fs ex_hostile /\ parent_closed ex_hostile /\
  layers_ok ex_hostile [[108]] /\ (exists m, pget [[108]; [120]] ex_hostile = Some (Dir m)) /\
  exists s', delete_layer rdr_checks_symlink delete_layer_removes_sboms sbom_suffixes [[108]] [120] ex_hostile = (s', Ok tt) /\
             pget [[108]; [120]] s' = None /\ pget [[108]] s' = Some (Dir 493).
Proof.
  split; [repeat constructor|]. split; [reflexivity|].
  assert (Keys : forall q, pget q ex_hostile <> None ->
            In q [[]; [[108]]; [[108]; [120]]; [[108]; [120]; [102]]; [[108]; [120]; [100]]; [[108]; [120]; [100]; [103]];
                  [[108]; [120]; [107]]; [[108]; [120; 46; 116; 111; 109; 108]]]).
  { intros q H. apply FSInv.in_keys_pget in H. exact H. }
  split.
  { intros q H. apply Keys in H. cbn in H. repeat (destruct H as [<-|H]; [repeat constructor|]). contradiction. }
  split.
  { intros q n H. apply Keys in H. cbn [In] in H.
    assert (X : forall key, key = q ++ [n] -> key <> [] /\ q = removelast key).
    { intros key E. split; [intros ->; destruct q; discriminate|rewrite E, removelast_last; reflexivity]. }
    repeat (destruct H as [E|H]; [apply X in E as [NE ->]; try congruence; cbn; eexists; reflexivity|]).
    contradiction. }
  split.
  { split.
    - intros k Hk. destruct k as [|k]; [exists 493; split; reflexivity|cbn in Hk; lia].
    - exists 493. repeat split; reflexivity. }
  split; [eexists; reflexivity|].
  eexists. split; [vm_compute; reflexivity|]. split; reflexivity.
Qed.

(* ---- shared::read_layer (behind every cached / uncached layer request and the trait API's
   handle_layer), regenerated statement by statement from the source (GenLayerSharedImp.gen_read_layer,
   result monad with state-reading conditions).  Whatever the layers directory holds, read_layer does
   one of three things to it: nothing; remove the orphaned <name>.toml ENTRY; create an empty regular
   file where the path held no entry at all. *)
Theorem c11_read_layer_effect :
  forall (A : Type) (parse : bytes -> option A) layers n,
    LV.LayerSharedFacts.valid_path (LV.ReadLayerFacts.toml_path layers n) ->
    forall s s' r,
      LV.LayerSbomsFacts.dirs_to s layers ->
      gen_read_layer parse layers n s = (s', r) ->
      s' = s \/ s' = pdel (LV.ReadLayerFacts.toml_path layers n) s \/
      (pget (LV.ReadLayerFacts.toml_path layers n) s = None /\
       exists m, s' = pset (LV.ReadLayerFacts.toml_path layers n) (File m (Raw [])) s).
Proof. intros A parse layers n V. exact (LV.ReadLayerFacts.read_layer_effect parse layers n V). Qed.
Print Assumptions c11_read_layer_effect.

(* finding F10 as a theorem: a symbolic link at <layers>/<name>.toml, dangling or not, is never
   written through -- the file it names outside the layer is not created or changed *)
Theorem c11_read_layer_never_writes_through_link :
  forall (A : Type) (parse : bytes -> option A) layers n,
    LV.LayerSharedFacts.valid_path (LV.ReadLayerFacts.toml_path layers n) ->
    forall s s' r t,
      LV.LayerSbomsFacts.dirs_to s layers ->
      pget (LV.ReadLayerFacts.toml_path layers n) s = Some (Link t) ->
      gen_read_layer parse layers n s = (s', r) ->
      s' = s \/ s' = pdel (LV.ReadLayerFacts.toml_path layers n) s.
Proof. intros A parse layers n V. exact (LV.ReadLayerFacts.read_layer_never_writes_through_link parse layers n V). Qed.
Print Assumptions c11_read_layer_never_writes_through_link.

(* ... which the test before e7f8bb8 (`!path.exists()`) did not satisfy: the witness *)
Theorem c11_read_layer_legacy_refuted :
  pget [[111; 117; 116]] LV.ReadLayerFacts.f10_fs = None /\
  pget [[111; 117; 116]] (fst (LV.ReadLayerFacts.read_layer_legacy (fun _ => Some tt) [[108]] [120] LV.ReadLayerFacts.f10_fs))
    = Some (File 420 (Raw [])).
Proof. exact LV.ReadLayerFacts.read_layer_legacy_writes_through. Qed.
Print Assumptions c11_read_layer_legacy_refuted.

(* ---- the recreate operation as the stream compares it with BuildContext::uncached_layer: C11Agree.recreate_model
   (read_layer; delete_layer; write_layer; read_layer, each regenerated from the source).  On ANY existing layer
   directory -- whatever tree, permissions and links it holds, stale SBOM entries beside it -- with a regular
   readable content-metadata file, the composed model ends Ok with exactly the deletion's state plus a fresh
   directory and a fresh document; in that deletion's state nothing the layer owns exists and every path the layer
   does not own is as before. *)
Theorem c11_recreate_model_exact :
  forall layers n s md m c res post,
    valid_path layers -> valid_name n = true -> valid_fs s -> parent_closed s -> layers_ok s layers ->
    LV.Determinism.simple_dir s layers ->
    pget (layers ++ [n]) s = Some (Dir md) ->
    pget (layers ++ [toml_name n]) s = Some (File m c) -> has_r m = true ->
    (forall sx m, In sx (map LV.LayerSbomsFacts.sbom_suffix_of SBOM_FORMATS) -> pget (layers ++ [sbom_name n sx]) s <> Some (Dir m)) ->
    exists s1,
      gen_delete_layer layers n s = (s1, Ok tt) /\
      LV.Checks.C11Agree.recreate_model (LV.Checks.C11Hold.mkCase s layers n LV.Checks.C11Hold.OpRecreate res post) =
        (pset (layers ++ [toml_name n]) (File mode_file_default (Doc (Toml.TTbl []))) (pset (layers ++ [n]) (Dir mode_dir_default) s1), Ok tt) /\
      (forall r, pget (layers ++ [n] ++ r) s1 = None) /\ pget (layers ++ [toml_name n]) s1 = None /\
      (forall sx, In sx (map LV.LayerSbomsFacts.sbom_suffix_of SBOM_FORMATS) -> pget (layers ++ [sbom_name n sx]) s1 = None) /\
      (forall q, owned (map LV.LayerSbomsFacts.sbom_suffix_of SBOM_FORMATS) layers n q = false -> pget q s1 = pget q s).
Proof. exact LV.RecreateModelFacts.recreate_model_exact. Qed.
Print Assumptions c11_recreate_model_exact.

(* ---- the keep operation as the stream compares it with a keeping BuildContext::cached_layer: C11Agree.keep_model
   (read_layer, then replace_layer_types, each regenerated from the source).  On an existing layer with a regular
   readable and writable content-metadata file the request ends Ok and the ONLY change in the whole file system is
   that document (same mode, new contents): a kept layer's files, SBOMs and every other layer stay as they are. *)
Theorem c11_keep_model_exact :
  forall layers n s md m c res post,
    valid_name n = true -> LV.Determinism.simple_dir s layers ->
    pget (layers ++ [n]) s = Some (Dir md) ->
    pget (layers ++ [toml_name n]) s = Some (File m c) -> has_r m = true -> has_w m = true ->
    LV.Checks.C11Agree.keep_model (LV.Checks.C11Hold.mkCase s layers n LV.Checks.C11Hold.OpKeep res post) =
      (pset (layers ++ [toml_name n]) (File m (Doc (Toml.TTbl []))) s, Ok tt).
Proof. exact LV.KeepModelFacts.keep_model_exact. Qed.
Print Assumptions c11_keep_model_exact.

(* the same compared term on a layer that does not exist yet: exactly a fresh directory and a fresh document appear *)
Theorem c11_keep_model_fresh :
  forall layers n s res post,
    valid_name n = true -> LV.Determinism.simple_dir s layers ->
    pget (layers ++ [n]) s = None -> pget (layers ++ [toml_name n]) s = None ->
    LV.Checks.C11Agree.keep_model (LV.Checks.C11Hold.mkCase s layers n LV.Checks.C11Hold.OpKeep res post) =
      (pset (layers ++ [toml_name n]) (File mode_file_default (Doc (Toml.TTbl []))) (pset (layers ++ [n]) (Dir mode_dir_default) s), Ok tt).
Proof. exact LV.KeepModelFacts.keep_model_fresh. Qed.
Print Assumptions c11_keep_model_fresh.
