(* Props/C19.v -- property theorems for C19 only. *)
From LV Require Import Base Stream StreamFacts.
From LVGen Require Import GenStream.

Theorem c19_tables :
  mapped_skips_empty_remainder = true /\ mapped_flush_shape_ok = true /\ mapped_write_shape_ok = true /\
  mapped_drop_flushes = true /\ tee_write_shape_ok = true /\ streams_copied_in_parallel = true /\
  output_tees_and_waits = true.
Proof. repeat split; reflexivity. Qed.
Print Assumptions c19_tables.

(* MappedWrite's three bodies as the translator reads them from the source, statement by statement
   (translator/src/imp.rs -> GenStream.gen_mw_flush / gen_mw_byte / gen_mw_drop), ARE the model's
   state machine: one loop iteration of `write` is mw_byte, drop (and unwrap's flush) is mw_finish
   with the empty-remainder rule.  The inner writer is `Some out` throughout (it is None only
   after unwrap consumed the value). *)
Theorem c19_mapped_regenerated :
  mapped_write_frame_ok = true /\
  (forall f mk buf out x,
      gen_mw_byte f buf (Some out) mk x =
      let s := mw_byte f mk (mkMW buf out) x in (mw_buf s, Some (mw_out s))) /\
  (forall f buf out,
      snd (gen_mw_drop f buf (Some out)) = Some (mw_finish f true (mkMW buf out))).
Proof.
  split; [reflexivity|]. split.
  - intros f mk buf out x. unfold gen_mw_byte, gen_mw_flush, mw_byte. cbn [mw_buf mw_out].
    destruct (N.eqb x mk); [|reflexivity].
    destruct (buf ++ [x]) as [|c r] eqn:E; [destruct buf; discriminate|]. reflexivity.
  - intros f buf out. unfold gen_mw_drop, gen_mw_flush, mw_finish. cbn [mw_buf mw_out andb].
    destruct buf; reflexivity.
Qed.
Print Assumptions c19_mapped_regenerated.

(* for every mapping function, marker, input and every way of splitting the input into writes *)
Theorem c19_mapped_chunking :
  forall f m chunks, mw_run f m mapped_skips_empty_remainder chunks = mapped_spec f m (concat chunks).
Proof. exact mapped_chunking. Qed.
Print Assumptions c19_mapped_chunking.

Theorem c19_tee_full : forall chunks, tee_run chunks = (concat chunks, concat chunks).
Proof. exact tee_full. Qed.
Print Assumptions c19_tee_full.

(* the streaming model with two copier threads, for every pipe capacity > 0, every child script and
   every schedule: never stuck before the end, always finite, and at the end each sink holds
   exactly the bytes written to its stream, in order *)
Theorem c19_no_deadlock :
  forall cap, (0 < cap)%nat -> forall s, final s = false -> can_step cap streams_copied_in_parallel s = true.
Proof. exact no_deadlock. Qed.
Print Assumptions c19_no_deadlock.

Theorem c19_enabled_iff :
  forall cap, (0 < cap)%nat -> forall par s,
    (can_step cap par s = true -> exists t s', do_step cap par s t = Some s') /\
    (forall t s', do_step cap par s t = Some s' -> can_step cap par s = true).
Proof. intros cap H par s. split; [exact (can_step_sound cap H par s)|exact (can_step_complete cap H par s)]. Qed.
Print Assumptions c19_enabled_iff.

Theorem c19_terminates :
  forall cap, (0 < cap)%nat -> forall par ts s s', run_steps cap par s ts = Some s' -> (length ts + mu s' <= mu s)%nat.
Proof. exact schedules_finite. Qed.
Print Assumptions c19_terminates.

Theorem c19_delivers_all :
  forall cap par sc ts s,
    run_steps cap par (init sc) ts = Some s -> final s = true ->
    k_out s = written sc SOut /\ k_err s = written sc SErr.
Proof. exact delivers_all. Qed.
Print Assumptions c19_delivers_all.

Theorem c19_sequential_refuted :
  let sc := [(SErr, [1; 2; 3])] in
  match run_steps 2 false (init sc) [ChildWrite 2] with
  | Some s => final s = false /\ can_step 2 false s = false /\ can_step 2 true s = true
  | None => False
  end.
Proof. exact sequential_refuted. Qed.
Print Assumptions c19_sequential_refuted.

Theorem c19_empty_remainder_legacy_refuted :
  let pre := fun b : bytes => [62; 32] ++ b in
  mw_run pre 10 false [[102; 111; 111; 10]] = [62; 32; 102; 111; 111; 10; 62; 32] /\
  mapped_spec pre 10 [102; 111; 111; 10] = [62; 32; 102; 111; 111; 10] /\
  mw_run pre 10 true [[102; 111; 111; 10]] = [62; 32; 102; 111; 111; 10].
Proof. exact empty_remainder_legacy_refuted. Qed.
Print Assumptions c19_empty_remainder_legacy_refuted.

Example c19_nonvacuous :
  exists ts s, run_steps 2 true (init [(SOut, [1; 2; 3]); (SErr, [4])]) ts = Some s /\ final s = true /\
               k_out s = [1; 2; 3] /\ k_err s = [4].
Proof.
  exists [ChildWrite 2; CopyOut 1; ChildWrite 1; ChildWrite 1; CopyErr 1; CopyOut 2; ChildExit].
  eexists. split; [vm_compute; reflexivity|]. vm_compute. repeat split.
Qed.
