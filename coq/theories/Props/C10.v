(* Props/C10.v -- property theorems for C10 only. *)
From LV Require Import Base FS FSFacts LayerEnv LayerEnvFacts LayerShared LayerEnvFS LayerEnvFSFacts Determinism FSInv LayerEnvFSExact LayerEnvFSCompose LayerEnvReadback LayerEnvFSRead LayerEnvFSCycle LayerEnvFSProc LayerEnvFSFull.
From LVGen Require Import GenLayerEnv.

Theorem c10_tables :
  layer_path_specs = spec_layer_paths /\ path_list_separator = spec_sep /\
  layer_path_test_is_dir = true /\ layer_path_inserts_ok = true /\
  layer_path_targets = [(KBuild, FPathsBuild); (KLaunch, FPathsLaunch)] /\
  scope_fields = spec_scope_table /\ beh_order = spec_beh_order.
Proof. repeat split; reflexivity. Qed.
Print Assumptions c10_tables.

(* For every file system, layer directory, variable and scope kind: the implicit entry exists --
   prepend <layer>/<sub>, delimiter = the path-list separator -- exactly when the spec has a row
   for (variable, scope) and <layer>/<sub> is a directory following symlinks (absent, file, symlink
   to file, dangling symlink: no; directory, symlink to directory: yes); nothing else is implied. *)
Theorem c10_implicit_iff :
  forall dir s var k,
    let e := read_layer_paths layer_path_specs path_list_separator dir s in
    bget var (d_prepend (paths_delta k e)) =
      match find_row var k layer_path_specs with
      | Some sub => if is_dir (dir ++ [sub]) s then Some (render (dir ++ [sub])) else None
      | None => None
      end /\
    bget var (d_delim (paths_delta k e)) =
      match find_row var k layer_path_specs with
      | Some sub => if is_dir (dir ++ [sub]) s then Some path_list_separator else None
      | None => None
      end /\
    d_append (paths_delta k e) = [] /\ d_default (paths_delta k e) = [] /\ d_override (paths_delta k e) = [].
Proof.
  intros dir s var k.
  exact (implicit_entries layer_path_specs path_list_separator dir s var k (proj1 spec_rows_ok) (proj2 spec_rows_ok)).
Qed.
Print Assumptions c10_implicit_iff.

(* applied last (build and launch only, by the scope table): prepended, joined with ':' iff the
   value left by the explicit entries is non-empty *)
Theorem c10_implicit_applied :
  forall dir s var k v0,
    var_spec (paths_delta k (read_layer_paths layer_path_specs path_list_separator dir s)) var v0 =
    match find_row var k layer_path_specs with
    | Some sub => if is_dir (dir ++ [sub]) s
                  then Some (join_prepend v0 path_list_separator (render (dir ++ [sub]))) else v0
    | None => v0
    end.
Proof.
  intros dir s var k v0.
  exact (implicit_var_spec layer_path_specs path_list_separator dir s var k v0 (proj1 spec_rows_ok) (proj2 spec_rows_ok)).
Qed.
Print Assumptions c10_implicit_applied.

(* the rows: PATH/LD_LIBRARY_PATH for build and launch; LIBRARY_PATH, CPATH, PKG_CONFIG_PATH for build only *)
Theorem c10_rows :
  find_row v_PATH KBuild layer_path_specs = Some d_bin /\ find_row v_PATH KLaunch layer_path_specs = Some d_bin /\
  find_row v_LD_LIBRARY_PATH KBuild layer_path_specs = Some d_lib /\ find_row v_LD_LIBRARY_PATH KLaunch layer_path_specs = Some d_lib /\
  find_row v_LIBRARY_PATH KBuild layer_path_specs = Some d_lib /\ find_row v_LIBRARY_PATH KLaunch layer_path_specs = None /\
  find_row v_CPATH KBuild layer_path_specs = Some d_include /\ find_row v_CPATH KLaunch layer_path_specs = None /\
  find_row v_PKG_CONFIG_PATH KBuild layer_path_specs = Some d_pkgconfig /\ find_row v_PKG_CONFIG_PATH KLaunch layer_path_specs = None /\
  (forall var, find_row var KAll layer_path_specs = None /\ find_row var KProcess layer_path_specs = None).
Proof.
  repeat split; try reflexivity; cbn [layer_path_specs find_row spec_layer_paths];
    rewrite ?andb_false_r; reflexivity.
Qed.
Print Assumptions c10_rows.

(* the implicit entries are never written back *)
Theorem c10_never_persisted :
  forall e dir s,
    write_to_layer_dir beh_order writer_suffix e dir s =
    write_to_layer_dir beh_order writer_suffix (clear_paths e) dir s.
Proof. exact (never_persisted beh_order writer_suffix). Qed.
Print Assumptions c10_never_persisted.

(* ---------- the read/write fixpoint, at file-system level ---------- *)
(* A layer directory whose env directories hold what write_to_layer_dir leaves for a process-free
   environment e: reading it and writing what was read (implicit paths included in what was read,
   never in what is written) succeeds and leaves EVERY path of the file system as it was; so does
   any number of read -> write cycles. *)
Theorem c10_rw_fixpoint :
  forall e dir s,
    fs_inv s dir -> env_ok writer_suffix e -> layer_written writer_suffix e dir s ->
    exists e' s',
      read_from_layer_dir reader_suffix reader_no_ext layer_path_specs path_list_separator reads_process dir s = (s, Ok e') /\
      write_to_layer_dir beh_order writer_suffix e' dir s = (s', Ok tt) /\
      (forall q, pget q s' = pget q s) /\ fs_inv s' dir /\ layer_written writer_suffix e dir s'.
Proof. exact (read_write_fixpoint writer_suffix reader_suffix reader_no_ext layer_path_specs path_list_separator reads_process spec_tables_inverse). Qed.
Print Assumptions c10_rw_fixpoint.

Theorem c10_cycles :
  forall n e dir s,
    fs_inv s dir -> env_ok writer_suffix e -> layer_written writer_suffix e dir s ->
    exists s', cycles writer_suffix reader_suffix reader_no_ext layer_path_specs path_list_separator reads_process n dir s = (s', Ok tt) /\
               forall q, pget q s' = pget q s.
Proof. exact (cycles_fixpoint writer_suffix reader_suffix reader_no_ext layer_path_specs path_list_separator reads_process spec_tables_inverse). Qed.
Print Assumptions c10_cycles.

(* the same for EVERY environment, per-process entries included (the per-process directories are
   read back through the reader repaired by the fix: commit d787e51, reads_process = true) *)
Theorem c10_rw_fixpoint_full :
  forall e dir s,
    fs_inv s dir -> env_ok_full writer_suffix e -> layer_written_full writer_suffix e dir s ->
    exists e' s',
      read_from_layer_dir reader_suffix reader_no_ext layer_path_specs path_list_separator reads_process dir s = (s, Ok e') /\
      write_to_layer_dir beh_order writer_suffix e' dir s = (s', Ok tt) /\
      (forall q, pget q s' = pget q s) /\ fs_inv s' dir /\ layer_written_full writer_suffix e dir s'.
Proof. exact (read_write_fixpoint_full writer_suffix reader_suffix reader_no_ext layer_path_specs path_list_separator reads_process spec_tables_inverse eq_refl). Qed.
Print Assumptions c10_rw_fixpoint_full.

Theorem c10_cycles_full :
  forall n e dir s,
    fs_inv s dir -> env_ok_full writer_suffix e -> layer_written_full writer_suffix e dir s ->
    exists s', cycles writer_suffix reader_suffix reader_no_ext layer_path_specs path_list_separator reads_process n dir s = (s', Ok tt) /\
               forall q, pget q s' = pget q s.
Proof. exact (cycles_fixpoint_full writer_suffix reader_suffix reader_no_ext layer_path_specs path_list_separator reads_process spec_tables_inverse eq_refl). Qed.
Print Assumptions c10_cycles_full.

(* Outside the theorems (decided on implementation snapshots by Checks/C03Hold.v and by the
   correspondence): env directories that are NOT what the writer leaves (hand-made directories with
   unknown suffixes, symlinks, sub-directories of env/ or env.build/). *)
