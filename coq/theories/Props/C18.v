(* Props/C18.v -- property theorems for C18 only. *)
From LV Require Import Base Toml Serde SerdeFacts Inventory InventoryFacts InventoryToml.
From LVGen Require Import GenInventory GenSerde.

Theorem c18_tables :
  (forall c, replace_on c = spec_replace_on c) /\ partial_cmp_item_vs_acc = true /\
  resolve_filter_ok = true /\ partial_resolve_filter_ok = true /\
  resolve_uses_max_by_version = true /\ partial_resolve_keyed_by_version = true /\
  sha256_name = [115; 104; 97; 50; 53; 54] /\ sha512_name = [115; 104; 97; 53; 49; 50].
Proof. split; [intros [[]|]; reflexivity|]. repeat split; reflexivity. Qed.
Print Assumptions c18_tables.

(* partially ordered versions: the answer matches, nothing matching is strictly greater, and
   None is returned only when nothing matches -- for EVERY order satisfying PartialOrd's laws,
   every artifact type, key and filter *)
Theorem c18_partial_maximal :
  forall (A V : Type) (key : A -> V) (sel : A -> bool) (pcmp : V -> V -> option comparison),
    porder_laws pcmp ->
    forall l, resolve_spec key sel pcmp l (partial_resolve key sel pcmp replace_on l).
Proof. intros A V key sel pcmp L l. exact (partial_resolve_spec key sel pcmp L l). Qed.
Print Assumptions c18_partial_maximal.

(* totally ordered versions (Iterator::max_by_key) *)
Theorem c18_resolve_maximal :
  forall (A V : Type) (key : A -> V) (sel : A -> bool) (cmp : V -> V -> comparison),
    (forall a b, cmp a b = CompOpp (cmp b a)) -> porder_laws (fun a b => Some (cmp a b)) ->
    forall l, resolve_spec key sel (fun a b => Some (cmp a b)) l (resolve key sel cmp l).
Proof. exact (@resolve_spec_total). Qed.
Print Assumptions c18_resolve_maximal.

Theorem c18_oracle_correct :
  forall (A V : Type) (key : A -> V) sel pcmp (l : list A) (res : option nat),
    chk_resolve key sel pcmp l res = true <->
    match res with
    | Some i => exists r, nth_error l i = Some r /\ resolve_spec key sel pcmp l (Some r)
    | None => resolve_spec key sel pcmp l None
    end.
Proof. exact (@chk_resolve_correct). Qed.
Print Assumptions c18_oracle_correct.

Theorem c18_instance_laws :
  porder_laws ver_pcmp /\ porder_laws ver_pcmp_nan /\ porder_laws (fun a b => Some (ver_cmp a b)) /\
  (forall a b, ver_cmp a b = CompOpp (ver_cmp b a)).
Proof. exact (conj ver_pcmp_laws (conj ver_pcmp_nan_laws (conj ver_cmp_laws ver_cmp_flip))). Qed.
Print Assumptions c18_instance_laws.

(* a checksum string is accepted exactly when it is <name>:<hex>, name compatible, hex of even
   length, decoded length compatible *)
Theorem c18_checksum_grammar :
  forall (name_ok : bytes -> bool) (len_ok : N -> bool) (s : bytes),
    (exists c, parse_checksum name_ok len_ok s = Ok c) <->
    exists n hex, s = n ++ 58 :: hex /\ ~ In 58 n /\ name_ok n = true /\
                  Forall (fun c => is_hex c = true) hex /\ Nat.even (length hex) = true /\
                  len_ok (N.of_nat (Nat.div2 (length hex))) = true.
Proof. exact checksum_accepts_iff. Qed.
Print Assumptions c18_checksum_grammar.

Theorem c18_checksum_roundtrip :
  forall name_ok len_ok n v,
    ~ In 58 n -> name_ok n = true -> len_ok (N.of_nat (length v)) = true -> all_bytes v ->
    parse_checksum name_ok len_ok (show_checksum (n, v)) = Ok (n, v).
Proof. exact checksum_show_parse. Qed.
Print Assumptions c18_checksum_roundtrip.

Theorem c18_hex_roundtrip : forall b, all_bytes b -> hex_decode (hex_encode b) = Some b.
Proof. exact hex_roundtrip. Qed.
Print Assumptions c18_hex_roundtrip.

(* ---------- the TOML half ---------- *)

(* the schema regenerated from the derives of Inventory / Artifact / Os / Arch (and the Checksum
   field as a validated string) is the specified one, for every version, digest and metadata type *)
Theorem c18_toml_tables :
  forall V D M, s_Inventory V D M = spec_Inventory V M.
Proof. intros V D M. reflexivity. Qed.
Print Assumptions c18_toml_tables.

(* Rendering an inventory to TOML and parsing it back gives equal artifacts: for EVERY version and
   metadata type whose schema round-trips (rt_ok), every digest (name_ok / len_ok), every list of
   artifacts whose version / metadata are values of those types and whose checksums are values a
   Checksum<D> can hold, whatever tree the serializer produced -- the derived Deserialize followed
   by Checksum::from_str rebuilds exactly the artifacts, in order *)
Theorem c18_toml_roundtrip :
  forall name_ok len_ok vf sq V M,
    checksum_vf name_ok len_ok vf -> rt_ok V = true -> rt_ok M = true ->
    forall arts t,
      forallb (art_wf name_ok len_ok vf V M) arts = true ->
      encode (spec_Inventory V M) (inv_sval arts) = Some t ->
      match decode vf sq (spec_Inventory V M) t with
      | Some x => inv_of_sval name_ok len_ok x
      | None => None
      end = Some arts.
Proof. exact inventory_toml_roundtrip. Qed.
Print Assumptions c18_toml_roundtrip.

(* ... and rendering does not fail when the caller's version and metadata serialise *)
Theorem c18_toml_renders :
  forall V M arts, forallb (art_renders V M) arts = true ->
    exists t, encode (spec_Inventory V M) (inv_sval arts) = Some t.
Proof. exact inventory_renders. Qed.
Print Assumptions c18_toml_renders.

Example c18_toml_nonvacuous :
  let ck := (sha256_name, [171; 1]) in
  let a1 := mkTArt (VStr [49; 46; 50; 46; 48]) Linux Arm64 [104; 58; 47; 47; 120] ck (VOpt (Some (VStr [109]))) in
  let a2 := mkTArt (VStr [50; 46; 48; 46; 48]) Darwin Amd64 [] ck (VOpt None) in
  let vf := fun (i : nat) s => match parse_checksum (beq sha256_name) (N.eqb 2) s with Ok _ => true | Err _ => false end in
  forallb (art_wf (beq sha256_name) (N.eqb 2) vf TyString (TyOption TyString)) [a1; a2] = true /\
  forallb (art_renders TyString (TyOption TyString)) [a1; a2] = true /\
  (match encode (spec_Inventory TyString (TyOption TyString)) (inv_sval [a1; a2]) with
  | Some t => match decode vf false (spec_Inventory TyString (TyOption TyString)) t with
              | Some x => inv_of_sval (beq sha256_name) (N.eqb 2) x
              | None => None
              end
  | None => None
  end) = Some [a1; a2].
Proof. vm_compute. repeat split. Qed.

(* Non-vacuity: incomparable versions; the fold keeps the first of two incomparable maxima. *)
Example c18_nonvacuous :
  let arts := [mkArt (1, 2) Linux Amd64 0; mkArt (2, 1) Linux Amd64 0; mkArt (1, 1) Linux Amd64 0] in
  let sel := art_sel Linux Amd64 (mkReq [(1, 2); (2, 1); (1, 1)] 0) in
  option_map a_ver (partial_resolve a_ver sel ver_pcmp replace_on arts) = Some (1, 2) /\
  option_map a_ver (resolve a_ver sel ver_cmp arts) = Some (2, 1) /\
  parse_checksum (beq sha256_name) (N.eqb 2) [115; 104; 97; 50; 53; 54; 58; 65; 98; 48; 49] = Ok (sha256_name, [171; 1]).
Proof. vm_compute. repeat split. Qed.
